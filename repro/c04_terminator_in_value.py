"""C04: a MIN-MAX-LENGTH value that contains its own termination sequence is encoded silently.

'ab\\x00cd' as a ZERO-terminated A_ASCIISTRING is emitted as 61 62 00 63 64 [00]; the decoder stops
at the first terminator and returns 'ab', the rest is taken for the following parameters. The
encoder must reject the value (EncodeError): it cannot be represented.
Run: /venv/bin/python repro/c04_terminator_in_value.py   (prints REPRODUCED / NOT-REPRODUCED)
"""
import os
import sys

repo = os.environ.get("ODXTOOLS_REPO", "/repo")
sys.path.insert(0, repo)
from odxtools.decodestate import DecodeState  # noqa: E402
from odxtools.encodestate import EncodeState  # noqa: E402
from odxtools.exceptions import EncodeError  # noqa: E402
from odxtools.minmaxlengthtype import MinMaxLengthType, Termination  # noqa: E402
from odxtools.odxtypes import DataType  # noqa: E402

mm = MinMaxLengthType(base_data_type=DataType.A_ASCIISTRING, base_type_encoding=None,
                      is_highlow_byte_order_raw=None, min_length=1, max_length=10,
                      termination=Termination.ZERO)
st = EncodeState(coded_message=bytearray())
try:
    mm.encode_into_pdu("ab\x00cd", st)
except EncodeError:
    print("NOT-REPRODUCED (EncodeError)")
    sys.exit(0)
pdu = bytes(st.coded_message)
back = mm.decode_from_pdu(DecodeState(coded_message=pdu))
print("REPRODUCED", pdu.hex(), "decodes to", repr(back))
sys.exit(1)
