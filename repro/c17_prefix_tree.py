"""C17.R6 (candidate, NOT a defect): DiagLayer._prefix_tree (cached_property) is built through
code that reports problems with odxraise. The script shows that the error still comes back when
strict mode is re-enabled (NOT-REPRODUCED is the expected outcome): the rule was narrowed to
memoised functions that call odxraise in their own body."""
import os
import sys

sys.path.insert(0, os.path.dirname(__file__))
from _case import case, finish
from _odx import document, load
import odxtools
import odxtools.exceptions as exc

BODY = """
<DIAG-COMMS><DIAG-SERVICE ID="DS.s"><SHORT-NAME>s</SHORT-NAME><REQUEST-REF ID-REF="RQ.r"/>
</DIAG-SERVICE></DIAG-COMMS>
<REQUESTS><REQUEST ID="RQ.r"><SHORT-NAME>r</SHORT-NAME><PARAMS>
 <PARAM xsi:type="CODED-CONST"><SHORT-NAME>sid</SHORT-NAME><BYTE-POSITION>0</BYTE-POSITION>
  <CODED-VALUE>300</CODED-VALUE>
  <DIAG-CODED-TYPE BASE-DATA-TYPE="A_UINT32" xsi:type="STANDARD-LENGTH-TYPE"><BIT-LENGTH>8</BIT-LENGTH></DIAG-CODED-TYPE>
 </PARAM>
</PARAMS></REQUEST></REQUESTS>"""


def history():
    db = load(document(BODY))
    bv = db.base_variants.BV
    out = []
    exc.strict_mode = True
    try:
        bv.decode(bytes([0x2c]))
        out.append("strict-1: ok")
    except odxtools.exceptions.OdxError as e:
        out.append(f"strict-1: {type(e).__name__}")
    exc.strict_mode = False
    try:
        bv.decode(bytes([0x2c]))
        out.append("lenient: ok")
    except odxtools.exceptions.OdxError as e:
        out.append(f"lenient: {type(e).__name__}")
    exc.strict_mode = True
    try:
        bv.decode(bytes([0x2c]))
        out.append("strict-2: ok")
    except odxtools.exceptions.OdxError as e:
        out.append(f"strict-2: {type(e).__name__}")
    return out


case("C17.R6/DiagLayer._prefix_tree/memoised-error-path", history,
     expect=lambda r: r[0].split(": ")[1] != r[2].split(": ")[1])
finish()
