"""VariantMatcher with use_cache=True and real services: the cache key is a bytearray (C14.R1)."""
import sys, os
sys.path.insert(0, os.path.dirname(__file__))
from _case import case, finish
import odxtools
from odxtools.variantmatcher import VariantMatcher

REPO = os.environ.get("ODXTOOLS_REPO", "/repo")
db = odxtools.load_pdx_file(os.path.join(REPO, "examples", "somersault.pdx"))


from odxtools.ecuvariantpattern import EcuVariantPattern
from odxtools.matchingparameter import MatchingParameter

for v in db.ecu_variants:
    v.ecu_variant_raw.ecu_variant_patterns.append(
        EcuVariantPattern(matching_parameters=[
            MatchingParameter(expected_value="1", diag_comm_snref="tester_present",
                              out_param_if_snref="status", out_param_if_snpathref=None)
        ]))


def cached_matcher():
    m = VariantMatcher(list(db.ecu_variants), use_cache=True)
    n = 0
    for _phys, req in m.request_loop():
        n += 1
        m.evaluate(bytes([0x7f, req[0], 0x11]))
        if n > 20:
            break
    return n, m.has_match()


case("C14.R1/VariantMatcher.request_loop/cache-key-unhashable", cached_matcher,
     expect_exc=TypeError)
finish()
