# Object constructors for the repro scripts (pattern taken from tests/test_decoding.py)
import warnings
from odxtools.compumethods.compumethod import CompuCategory
from odxtools.compumethods.identicalcompumethod import IdenticalCompuMethod
from odxtools.dataobjectproperty import DataObjectProperty
from odxtools.nameditemlist import NamedItemList
from odxtools.odxlink import DocType, OdxDocFragment, OdxLinkDatabase, OdxLinkId, OdxLinkRef
from odxtools.odxtypes import DataType
from odxtools.parameters.codedconstparameter import CodedConstParameter
from odxtools.parameters.valueparameter import ValueParameter
from odxtools.parameters.reservedparameter import ReservedParameter
from odxtools.physicaltype import PhysicalType
from odxtools.request import Request
from odxtools.standardlengthtype import StandardLengthType
from odxtools.structure import Structure
from odxtools.snrefcontext import SnRefContext
doc_frags=[OdxDocFragment("UT", DocType.CONTAINER)]
def slt(n=8, t=DataType.A_UINT32, enc=None, hl=None, mask=None, cond=None):
    return StandardLengthType(base_data_type=t, base_type_encoding=enc, bit_length=n, bit_mask=mask, is_condensed_raw=cond, is_highlow_byte_order_raw=hl)
def ident(t=DataType.A_UINT32):
    return IdenticalCompuMethod(category=CompuCategory.IDENTICAL, compu_internal_to_phys=None, compu_phys_to_internal=None, internal_type=t, physical_type=t)
def dop(name, dct=None, cm=None, pt=None):
    dct=dct or slt()
    pt=pt or dct.base_data_type
    if pt in (DataType.A_ASCIISTRING, DataType.A_UTF8STRING): pt=DataType.A_UNICODE2STRING
    cm=cm or IdenticalCompuMethod(category=CompuCategory.IDENTICAL, compu_internal_to_phys=None, compu_phys_to_internal=None, internal_type=dct.base_data_type, physical_type=pt)
    return DataObjectProperty(odx_id=OdxLinkId("dop."+name, doc_frags), oid=None, short_name=name, long_name=None, description=None, admin_data=None, diag_coded_type=dct, physical_type=PhysicalType(pt, display_radix=None, precision=None), compu_method=cm, unit_ref=None, sdgs=[], internal_constr=None, physical_constr=None)
def cc(name, val, n=8, byte_position=None, bit_position=None):
    return CodedConstParameter(oid=None, short_name=name, long_name=None, description=None, semantic=None, diag_coded_type=slt(n), coded_value=val, byte_position=byte_position, bit_position=bit_position, sdgs=[])
def vp(name, d, byte_position=None, bit_position=None, default=None):
    p=ValueParameter(oid=None, short_name=name, long_name=None, description=None, semantic=None, byte_position=byte_position, bit_position=bit_position, dop_ref=OdxLinkRef.from_id(d.odx_id), dop_snref=None, physical_default_value_raw=default, sdgs=[])
    return p
def rsv(name, n, byte_position=None, bit_position=None):
    return ReservedParameter(oid=None, short_name=name, long_name=None, description=None, semantic=None, byte_position=byte_position, bit_position=bit_position, bit_length=n, sdgs=[])
def struct(name, params, byte_size=None):
    return Structure(odx_id=OdxLinkId("st."+name, doc_frags), oid=None, short_name=name, long_name=None, description=None, admin_data=None, sdgs=[], parameters=NamedItemList(params), byte_size=byte_size, is_visible_raw=None)
def req(name, params):
    return Request(odx_id=OdxLinkId("rq."+name, doc_frags), oid=None, short_name=name, long_name=None, description=None, admin_data=None, sdgs=[], parameters=NamedItemList(params))
def link(*objs):
    db=OdxLinkDatabase()
    for o in objs: db.update(o._build_odxlinks())
    for o in objs: o._resolve_odxlinks(db)
    ctx=SnRefContext()
    for o in objs:
        try: o._resolve_snrefs(ctx)
        except Exception:  # objects that need a layer context keep their SNREFs unresolved
            pass
    return db
