"""Link-database aliasing (C10.R2) and import-time strict flag (C17.R1)."""
import sys, os
sys.path.insert(0, os.path.dirname(__file__))
from copy import copy
from _case import case, finish
from _mk import *  # noqa: F401,F403
import odxtools.exceptions
from odxtools.odxlink import DocType, OdxDocFragment, OdxLinkDatabase, OdxLinkId, OdxLinkRef


def copy_leaks():
    frag = OdxDocFragment("A", DocType.LAYER)
    db = OdxLinkDatabase()
    db.update({OdxLinkId("x", [frag]): "x"})
    ext = copy(db)  # what DiagLayer._resolve_odxlinks does for IMPORT-REFs
    ext.update({OdxLinkId("imported", [frag]): "imp"}, overwrite=False)
    import warnings
    with warnings.catch_warnings():
        warnings.simplefilter("ignore")
        return db.resolve_lenient(OdxLinkRef("imported", [frag]))


case("C10.R2/DiagLayer._resolve_odxlinks/copy-aliases-_db", copy_leaks,
     expect=lambda r: r == "imp")


def strict_flag_is_copied():
    s = dop("s", slt(16, DataType.A_UTF8STRING))
    rq = req("utf8", [vp("s", s)])
    link(s, rq)
    odxtools.exceptions.strict_mode = False
    try:
        return rq.decode(b"\xff\xfe")  # lenient mode should replace, not raise
    finally:
        odxtools.exceptions.strict_mode = True


case("C17.R1/decodestate.py/import-time-binding", strict_flag_is_copied,
     expect_exc=(UnicodeDecodeError,))
finish()
