"""ENV-DATA-DESC with inline ENV-DATAs (ODX 2.0 style): SNREFs never resolved (C10.R4)."""
import sys, os
sys.path.insert(0, os.path.dirname(__file__))
from _case import case, finish
from _odx import U8_DOP, document, load

db = load(document(f"""
<DIAG-DATA-DICTIONARY-SPEC>
 <DATA-OBJECT-PROPS>{U8_DOP.format(extra="")}</DATA-OBJECT-PROPS>
 <ENV-DATA-DESCS><ENV-DATA-DESC ID="EDD"><SHORT-NAME>edd</SHORT-NAME>
  <PARAM-SNREF SHORT-NAME="dtc"/>
  <ENV-DATAS><ENV-DATA ID="ED.all"><SHORT-NAME>common</SHORT-NAME>
   <PARAMS><PARAM xsi:type="VALUE"><SHORT-NAME>temperature</SHORT-NAME>
    <DOP-SNREF SHORT-NAME="u8"/></PARAM></PARAMS>
   <ALL-VALUE/>
  </ENV-DATA></ENV-DATAS>
 </ENV-DATA-DESC></ENV-DATA-DESCS>
</DIAG-DATA-DICTIONARY-SPEC>""", version="2.0.1"))
ddds = db.base_variants.BV.diag_data_dictionary_spec
edd = ddds.env_data_descs.edd


def inline_copy_unresolved():
    # the copy owned by the DDDS is fine ...
    assert ddds.env_datas.common.parameters.temperature.dop.short_name == "u8"
    # ... the one owned by the ENV-DATA-DESC (the one used for en-/decoding) is not
    return edd.env_datas.common.parameters.temperature.dop


case("C10.R4/EnvironmentDataDescription._resolve_snrefs/guard-inverted", inline_copy_unresolved,
     expect_exc=(AttributeError,))
finish()
