"""ISO-TP reassembler defects (C12.R1, C13.R1, C13.R2)."""
import sys, os
sys.path.insert(0, os.path.dirname(__file__))
from _case import case, finish
from odxtools.isotp_state_machine import IsoTpStateMachine

ID = 0x7E8


def feed(frames):
    sm = IsoTpStateMachine([ID])
    out = []
    for f in frames:
        out += [(i, bytes(p).hex()) for i, p in sm.decode_rx_frame(ID, bytes(f))]
    return out


case("C13.R1/IsoTpStateMachine.decode_rx_frame/assert-on-idle-buffer",
     lambda: feed([[0x21, 1, 2, 3, 4, 5, 6, 7]]), expect_exc=(AssertionError,))
case("C13.R1/IsoTpStateMachine.decode_rx_frame/empty-frame",
     lambda: feed([[]]), expect_exc=(Exception,))
case("C13.R2/IsoTpStateMachine.decode_rx_frame/buffer-not-reset",
     lambda: feed([[0x10, 0x0A, 1, 2, 3, 4, 5, 6], [0x21, 7, 8, 9, 10, 0xAA, 0xAA, 0xAA],
                   [0x22, 0xBB, 0xBB, 0xBB, 0xBB, 0xBB, 0xBB, 0xBB]]),
     expect=lambda out: len(out) == 2 and out[0] == out[1])
case("C12.R1/IsoTpStateMachine.decode_rx_frame/canfd-sf-escape",
     lambda: feed([[0x00, 0x0A, 1, 2, 3, 4, 5, 6, 7, 8, 9, 10]]),
     expect=lambda out: out == [(ID, "")])
finish()
