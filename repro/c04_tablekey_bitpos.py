"""C04 / C01: a TABLE-KEY parameter with a non-zero BIT-POSITION cannot be encoded.

TableKeyParameter.encode_placeholder_into_pdu moves the bit cursor to the parameter's bit
position and calls EncodeState.emplace_bytes() before resetting it; emplace_bytes reports
`RuntimeError: EncodeState.emplace_bytes can only be called for a bit position of 0!` -- a
foreign exception for a valid description. (LengthKeyParameter resets the cursor first.)
Run: /venv/bin/python repro/c04_tablekey_bitpos.py   (prints REPRODUCED / NOT-REPRODUCED)
"""
import os
import sys

repo = os.environ.get("ODXTOOLS_REPO", "/repo")
sys.path.insert(0, repo)
import odxtools  # noqa: E402

db = odxtools.load_pdx_file(os.path.join(repo, "examples", "somersault.pdx"))
svc = db.ecus.somersault_lazy.services.report_status
resp = svc.positive_responses.status_report
key = [p for p in resp.parameters if p.short_name == "last_pos_response_key"][0]
key.bit_position = 2
try:
    data = resp.encode(dizzyness_level=12, happiness_level=100, last_pos_response_key="none",
                       last_pos_response=("none", 123))
    out = "encoded " + bytes(data).hex()
except RuntimeError as e:
    out = f"RuntimeError: {e}"
except Exception as e:  # noqa: BLE001
    out = f"{type(e).__name__}: {e}"
if out.startswith("RuntimeError"):
    print("REPRODUCED", out)
    sys.exit(1)
print("NOT-REPRODUCED", out)
