"""C11.R3: a reference that names its document (DOCREF/DOCTYPE) loses it when written."""
import os
import sys
import tempfile

sys.path.insert(0, os.path.dirname(__file__))
from _case import case, finish
from _odx import U8_DOP, XSI
import odxtools

# the DOP lives in an ECU-SHARED-DATA of container A, the request that uses it in container B
A = f"""<?xml version="1.0" encoding="UTF-8"?>
<ODX MODEL-VERSION="2.2.0" {XSI}><DIAG-LAYER-CONTAINER ID="A"><SHORT-NAME>A</SHORT-NAME>
 <ECU-SHARED-DATAS><ECU-SHARED-DATA ID="ESD"><SHORT-NAME>ESD</SHORT-NAME>
  <DIAG-DATA-DICTIONARY-SPEC><DATA-OBJECT-PROPS>{U8_DOP.format(extra="")}</DATA-OBJECT-PROPS>
  </DIAG-DATA-DICTIONARY-SPEC></ECU-SHARED-DATA></ECU-SHARED-DATAS>
</DIAG-LAYER-CONTAINER></ODX>"""
B = f"""<?xml version="1.0" encoding="UTF-8"?>
<ODX MODEL-VERSION="2.2.0" {XSI}><DIAG-LAYER-CONTAINER ID="B"><SHORT-NAME>B</SHORT-NAME>
 <BASE-VARIANTS><BASE-VARIANT ID="BV"><SHORT-NAME>BV</SHORT-NAME>
  <REQUESTS><REQUEST ID="RQ.r"><SHORT-NAME>r</SHORT-NAME><PARAMS>
   <PARAM xsi:type="VALUE"><SHORT-NAME>p</SHORT-NAME><BYTE-POSITION>0</BYTE-POSITION>
    <DOP-REF ID-REF="DOP.u8" DOCREF="ESD" DOCTYPE="LAYER"/></PARAM>
  </PARAMS></REQUEST></REQUESTS>
 </BASE-VARIANT></BASE-VARIANTS>
</DIAG-LAYER-CONTAINER></ODX>"""


def roundtrip():
    d = tempfile.mkdtemp(prefix="odx_repro_")
    files = []
    try:
        for name, text in (("a.odx-d", A), ("b.odx-d", B)):
            path = os.path.join(d, name)
            files.append(path)
            with open(path, "w") as f:
                f.write(text)
        db = odxtools.load_files(*files)
        # the original database resolves the cross-document reference
        assert db.base_variants.BV.requests.r.parameters.p.dop.short_name == "u8"
        out = os.path.join(d, "o.pdx")
        files.append(out)
        odxtools.write_pdx_file(out, db)
        db2 = odxtools.load_pdx_file(out)
        return db2.base_variants.BV.requests.r.parameters.p.dop.short_name
    finally:
        for f in files:
            if os.path.exists(f):
                os.remove(f)
        os.rmdir(d)


case("C11.R3/macros/printParam.xml.jinja2:printParam/docref-dropped-DOP-REF:param.dop_ref.ref_id",
     roundtrip, expect_exc=(Exception,))
finish()
