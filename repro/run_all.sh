#!/bin/sh
# Runs every reproduction against /repo; prints one line per case.
# Not part of any check (the checks are static) -- documentation only.
cd "${ODXTOOLS_REPO:-/repo}" || exit 2
rc=0
for f in /verif/repro/c*.py; do
  echo "== $(basename "$f")"
  /venv/bin/python -W ignore "$f" || rc=1
done
exit $rc
