"""Communication parameter lookup (C15.R2): generic definition wins over the specific one."""
import sys, os
sys.path.insert(0, os.path.dirname(__file__))
from copy import copy
from _case import case, finish
import odxtools
from odxtools.nameditemlist import NamedItemList

REPO = os.environ.get("ODXTOOLS_REPO", "/repo")
db = odxtools.load_pdx_file(os.path.join(REPO, "examples", "somersault.pdx"))
ecu = db.ecus.somersault_lazy
prot = ecu.protocols[0].short_name


def lookup():
    # make the inherited definition generic (no PROTOCOL-SNREF) ...
    prot_layer = ecu.protocols[0]
    inherited = [cp for cp in prot_layer.hierarchy_element_raw.comparam_refs
                 if cp.short_name == "CP_Baudrate"][0]
    inherited.protocol_snref = None
    # ... and define the same parameter specifically for the protocol in the ECU variant
    specific = copy(inherited)
    specific.protocol_snref = prot
    specific.value = "250000"
    ecu.hierarchy_element_raw.comparam_refs.append(specific)
    ecu._comparam_refs = NamedItemList(ecu._compute_available_commmunication_parameters())
    import warnings
    with warnings.catch_warnings():
        warnings.simplefilter("ignore")
        got = ecu.get_comparam("CP_Baudrate", protocol=prot)
    return inherited.value, got.value, got.protocol_snref


case("C15.R2/HierarchyElement.get_comparam/generic-before-specific", lookup,
     expect=lambda r: r[2] is None and r[1] == r[0])

def subvalue_default():
    # a complex comparam instance whose sub-value is given as an empty <SIMPLE-VALUE/>
    from xml.etree import ElementTree as ET
    from odxtools.complexcomparam import create_complex_value_from_et
    cp = [c for c in ecu.comparam_refs if c.short_name == "CP_UniqueRespIdTable"][0]
    names = [sp.short_name for sp in cp.spec.subparams]
    idx = names.index("CP_CanPhysReqId")
    default = cp.spec.subparams[idx].physical_default_value
    xml = "<COMPLEX-VALUE>" + "".join("<SIMPLE-VALUE/>" for _ in names) + "</COMPLEX-VALUE>"
    inst = copy(cp)
    inst.value = create_complex_value_from_et(ET.fromstring(xml))
    return default, inst.get_subvalue("CP_CanPhysReqId")


case("C15.R3/ComparamInstance.get_subvalue/subvalue-default-unreachable", subvalue_default,
     expect=lambda r: r[1] == "" and r[0] not in (None, ""))
finish()
