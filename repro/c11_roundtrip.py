"""Attributes the parser reads but the writer drops or mis-writes (C11.R1, C11.R2, C11.R4)."""
import sys, os, tempfile
sys.path.insert(0, os.path.dirname(__file__))
from _case import case, finish
from _odx import document, load
import odxtools

DOP = """
<DATA-OBJECT-PROP ID="DOP.x" OID="oid-dop">
 <SHORT-NAME>x</SHORT-NAME>
 <LONG-NAME>a &amp; b &lt;c&gt;</LONG-NAME>
 <COMPU-METHOD><CATEGORY>IDENTICAL</CATEGORY></COMPU-METHOD>
 <DIAG-CODED-TYPE BASE-DATA-TYPE="A_UINT32" xsi:type="STANDARD-LENGTH-TYPE" IS-CONDENSED="true">
  <BIT-LENGTH>16</BIT-LENGTH><BIT-MASK>0F0F</BIT-MASK></DIAG-CODED-TYPE>
 <PHYSICAL-TYPE BASE-DATA-TYPE="A_UINT32"/>
 <INTERNAL-CONSTR><LOWER-LIMIT>1</LOWER-LIMIT><UPPER-LIMIT>9</UPPER-LIMIT></INTERNAL-CONSTR>
 <PHYS-CONSTR><LOWER-LIMIT>2</LOWER-LIMIT><UPPER-LIMIT>8</UPPER-LIMIT></PHYS-CONSTR>
</DATA-OBJECT-PROP>"""
REQ = """
<REQUESTS><REQUEST ID="RQ.r"><SHORT-NAME>r</SHORT-NAME><PARAMS>
 <PARAM xsi:type="VALUE" OID="oid-param" SEMANTIC="sem&quot;q"><SHORT-NAME>p</SHORT-NAME>
  <BYTE-POSITION>0</BYTE-POSITION><DOP-REF ID-REF="DOP.x"/></PARAM>
</PARAMS></REQUEST></REQUESTS>"""

db = load(document(f"""
<DIAG-DATA-DICTIONARY-SPEC><DATA-OBJECT-PROPS>{DOP}</DATA-OBJECT-PROPS></DIAG-DATA-DICTIONARY-SPEC>
{REQ}"""))


def reload(db):
    d = tempfile.mkdtemp(prefix="odx_repro_")
    path = os.path.join(d, "o.pdx")
    try:
        odxtools.write_pdx_file(path, db)
        return odxtools.load_pdx_file(path)
    finally:
        if os.path.exists(path):
            os.remove(path)
        os.rmdir(d)


try:
    db2 = reload(db)
except Exception as e:  # noqa: BLE001
    print("REPRODUCED C11.R2/make_xml_attrib/attribute-not-escaped:", type(e).__name__,
          str(e)[:100])
    # retry without the metacharacter so that the remaining cases can be shown
    db = load(document(f"""
<DIAG-DATA-DICTIONARY-SPEC><DATA-OBJECT-PROPS>{DOP}</DATA-OBJECT-PROPS></DIAG-DATA-DICTIONARY-SPEC>
{REQ.replace('sem&quot;q', 'sem')}"""))
    db2 = reload(db)

d1 = db.base_variants.BV.diag_data_dictionary_spec.data_object_props.x
d2 = db2.base_variants.BV.diag_data_dictionary_spec.data_object_props.x
p1 = db.base_variants.BV.requests.r.parameters.p
p2 = db2.base_variants.BV.requests.r.parameters.p

case("C11.R1/StandardLengthType.is_condensed_raw/IS-CONDENSED-dropped",
     lambda: (d1.diag_coded_type.is_condensed_raw, d2.diag_coded_type.is_condensed_raw),
     expect=lambda r: r[0] != r[1])
case("C11.R4/printDataObjectProp/PHYS-CONSTR-from-internal_constr",
     lambda: (d1.physical_constr.lower_limit.value_raw, d2.physical_constr.lower_limit.value_raw),
     expect=lambda r: r[0] != r[1])
case("C11.R1/Parameter.oid/OID-dropped", lambda: (p1.oid, p2.oid), expect=lambda r: r[0] != r[1])
finish()
