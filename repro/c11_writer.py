"""Writer defects: elements the parser accepts but the templates cannot write or write wrongly
(C11.R0 well-formedness, C11.R1 dropped / renamed names, C11.R2 escaping)."""
import os
import sys
import tempfile

sys.path.insert(0, os.path.dirname(__file__))
from _case import case, finish
from _odx import U8_DOP, document, load
import odxtools


def reload(db):
    d = tempfile.mkdtemp(prefix="odx_repro_")
    path = os.path.join(d, "o.pdx")
    try:
        odxtools.write_pdx_file(path, db)
        return odxtools.load_pdx_file(path)
    finally:
        if os.path.exists(path):
            os.remove(path)
        os.rmdir(d)


def rt(body, **kw):
    db = load(document(body, **kw))
    return db, reload(db)


DDDS = f"""<DIAG-DATA-DICTIONARY-SPEC><DATA-OBJECT-PROPS>{U8_DOP.format(extra="")}
</DATA-OBJECT-PROPS>%s</DIAG-DATA-DICTIONARY-SPEC>"""
SVC = """
<DIAG-COMMS><DIAG-SERVICE ID="DS.s"><SHORT-NAME>s</SHORT-NAME>%s<REQUEST-REF ID-REF="RQ.r"/>
</DIAG-SERVICE>
<DIAG-SERVICE ID="DS.c" DIAGNOSTIC-CLASS="CLEAR-DYN-DEF-MESSAGE"><SHORT-NAME>c</SHORT-NAME><REQUEST-REF ID-REF="RQ.r"/></DIAG-SERVICE>
<DIAG-SERVICE ID="DS.rd" DIAGNOSTIC-CLASS="READ-DYN-DEFINED-MESSAGE"><SHORT-NAME>rd</SHORT-NAME><REQUEST-REF ID-REF="RQ.r"/></DIAG-SERVICE>
<DIAG-SERVICE ID="DS.d" DIAGNOSTIC-CLASS="DYN-DEF-MESSAGE"><SHORT-NAME>d</SHORT-NAME><REQUEST-REF ID-REF="RQ.r"/></DIAG-SERVICE>
</DIAG-COMMS>
<REQUESTS><REQUEST ID="RQ.r"><SHORT-NAME>r</SHORT-NAME><PARAMS>
 <PARAM xsi:type="CODED-CONST"><SHORT-NAME>sid</SHORT-NAME><BYTE-POSITION>0</BYTE-POSITION>
  <CODED-VALUE>34</CODED-VALUE>
  <DIAG-CODED-TYPE BASE-DATA-TYPE="A_UINT32" xsi:type="STANDARD-LENGTH-TYPE"><BIT-LENGTH>8</BIT-LENGTH></DIAG-CODED-TYPE>
 </PARAM>
</PARAMS></REQUEST></REQUESTS>"""

# ---- R0: DIAG-VARIABLES -------------------------------------------------------------------
DIAGVAR = """
<DIAG-VARIABLES><DIAG-VARIABLE ID="DV.v" IS-READ-BEFORE-WRITE="true"><SHORT-NAME>v</SHORT-NAME>
 <VARIABLE-GROUP-REF ID-REF="VG.g"/>
 <SW-VARIABLES><SW-VARIABLE><SHORT-NAME>sw</SHORT-NAME><ORIGIN>orig</ORIGIN></SW-VARIABLE></SW-VARIABLES>
 <COMM-RELATIONS><COMM-RELATION VALUE-TYPE="CURRENT"><RELATION-TYPE>READ</RELATION-TYPE>
  <DIAG-COMM-REF ID-REF="DS.s"/></COMM-RELATION></COMM-RELATIONS>
</DIAG-VARIABLE></DIAG-VARIABLES>
<VARIABLE-GROUPS><VARIABLE-GROUP ID="VG.g"><SHORT-NAME>g</SHORT-NAME></VARIABLE-GROUP></VARIABLE-GROUPS>
"""


def diagvar():
    db, db2 = rt(SVC % "" + DIAGVAR)
    v1 = db.base_variants.BV.base_variant_raw.diag_variables.v
    v2 = db2.base_variants.BV.base_variant_raw.diag_variables.v
    assert v1 == v2, (v1, v2)
    return "written and reloaded"


case("C11.R0/macros/printDiagVariable.xml.jinja2/syntax-error", diagvar, expect_exc=(Exception,))

# ---- R0: DYN-DEFINED-SPEC in a base variant -------------------------------------------------
DYNSPEC = """
<DYN-DEFINED-SPEC><DYN-ID-DEF-MODE-INFOS><DYN-ID-DEF-MODE-INFO><DEF-MODE>m</DEF-MODE>
 <CLEAR-DYN-DEF-MESSAGE-REF ID-REF="DS.c"/><READ-DYN-DEF-MESSAGE-REF ID-REF="DS.rd"/>
 <DYN-DEF-MESSAGE-REF ID-REF="DS.d"/>
 <SUPPORTED-DYN-IDS><SUPPORTED-DYN-ID>f1</SUPPORTED-DYN-ID></SUPPORTED-DYN-IDS>
</DYN-ID-DEF-MODE-INFO></DYN-ID-DEF-MODE-INFOS></DYN-DEFINED-SPEC>"""


def dynspec(tag):
    def f():
        db, db2 = rt(SVC % "" + DYNSPEC, layer_tag=tag)
        l1 = db.diag_layers.BV.diag_layer_raw.dyn_defined_spec
        l2 = db2.diag_layers.BV.diag_layer_raw.dyn_defined_spec
        assert l1 == l2, (l1, l2)
        return "written and reloaded"
    return f


case("C11.R0/macros/printBaseVariant.xml.jinja2:printBaseVariant/alias-pdynspec-not-imported",
     dynspec("BASE-VARIANT"), expect_exc=(Exception,))
case("C11.R0/macros/printEcuVariant.xml.jinja2:printEcuVariant/"
     "macro-pdynspec.printPrintDefinedSpec-undefined", dynspec("ECU-VARIANT"),
     expect_exc=(Exception,))

# ---- R0: POS-RESPONSE-SUPPRESSABLE ----------------------------------------------------------
PRS = "<POS-RESPONSE-SUPPRESSABLE><BIT-MASK>80</BIT-MASK></POS-RESPONSE-SUPPRESSABLE>"


def prs():
    db, db2 = rt(SVC % PRS)
    s1 = db.base_variants.BV.services.s.pos_response_suppressible
    s2 = db2.base_variants.BV.services.s.pos_response_suppressible
    assert s1 == s2 and s1.bit_mask == 0x80, (s1, s2)
    return "written and reloaded"


case("C11.R0/macros/printService.xml.jinja2:printPosResponseSuppressible/global-hex-unknown", prs,
     expect_exc=(Exception,))

# ---- R0: SUB-COMPONENT-PATTERN ---------------------------------------------------------------
SUBCOMP = """
<SUB-COMPONENTS><SUB-COMPONENT ID="SC.c"><SHORT-NAME>c</SHORT-NAME>
 <SUB-COMPONENT-PATTERNS><SUB-COMPONENT-PATTERN><MATCHING-PARAMETERS><MATCHING-PARAMETER>
  <EXPECTED-VALUE>1</EXPECTED-VALUE><DIAG-COMM-SNREF SHORT-NAME="s"/><OUT-PARAM-IF-SNREF SHORT-NAME="x"/>
 </MATCHING-PARAMETER></MATCHING-PARAMETERS></SUB-COMPONENT-PATTERN></SUB-COMPONENT-PATTERNS>
 <DTC-CONNECTORS><DTC-CONNECTOR><SHORT-NAME>dc</SHORT-NAME><DTC-DOP-REF ID-REF="DTCDOP"/>
  <DTC-SNREF SHORT-NAME="P0001"/></DTC-CONNECTOR></DTC-CONNECTORS>
</SUB-COMPONENT></SUB-COMPONENTS>"""
DTCDOP = """<DTC-DOPS><DTC-DOP ID="DTCDOP"><SHORT-NAME>dtcdop</SHORT-NAME>
 <DIAG-CODED-TYPE BASE-DATA-TYPE="A_UINT32" xsi:type="STANDARD-LENGTH-TYPE"><BIT-LENGTH>24</BIT-LENGTH></DIAG-CODED-TYPE>
 <PHYSICAL-TYPE BASE-DATA-TYPE="A_UINT32"/>
 <COMPU-METHOD><CATEGORY>IDENTICAL</CATEGORY></COMPU-METHOD>
 <DTCS><DTC ID="DTC.1" IS-TEMPORARY="true"><SHORT-NAME>P0001</SHORT-NAME><TROUBLE-CODE>1</TROUBLE-CODE>
  <DISPLAY-TROUBLE-CODE>P&amp;1</DISPLAY-TROUBLE-CODE><TEXT>t</TEXT></DTC></DTCS>
</DTC-DOP></DTC-DOPS>"""


def subcomp():
    db, db2 = rt(SVC % "" + DDDS % DTCDOP + SUBCOMP)
    s1 = db.base_variants.BV.diag_layer_raw.sub_components.c
    s2 = db2.base_variants.BV.diag_layer_raw.sub_components.c
    assert s1 == s2, (s1, s2)
    return "written and reloaded"


case("C11.R0/macros/printSubComponent.xml.jinja2:printSubComponentPattern/alias-pvp-not-imported",
     subcomp, expect_exc=(Exception,))

# ---- R2 / R1 on a DTC -------------------------------------------------------------------------


def dtc(attr):
    def f():
        db, db2 = rt(DDDS % DTCDOP)
        a = db.base_variants.BV.diag_data_dictionary_spec.dtc_dops.dtcdop.dtcs[0]
        b = db2.base_variants.BV.diag_data_dictionary_spec.dtc_dops.dtcdop.dtcs[0]
        assert getattr(a, attr) == getattr(b, attr), (getattr(a, attr), getattr(b, attr))
        return "preserved"
    return f


case("C11.R2/macros/printDOP.xml.jinja2:printDtcDop/unescaped-DISPLAY-TROUBLE-CODE-"
     "display_trouble_code", dtc("display_trouble_code"), expect_exc=(Exception,))
case("C11.R1/DiagnosticTroubleCode.is_temporary_raw/field-never-written", dtc("is_temporary_raw"),
     expect_exc=(Exception,))

# ---- R0: stray delimiters in EXTERNAL-DOCS ----------------------------------------------------
EXTDOC = """<DESC><p>d</p><EXTERNAL-DOCS><EXTERNAL-DOC HREF="http://x/?a=1&amp;b=2">a &amp; b</EXTERNAL-DOC>
</EXTERNAL-DOCS></DESC>"""


def extdoc():
    db, db2 = rt(EXTDOC)
    d1 = db.base_variants.BV.description
    d2 = db2.base_variants.BV.description
    assert d1 == d2, (d1, d2)
    return "preserved"


case("C11.R2/macros/printDescription.xml.jinja2:printDescription/unescaped-HREF-href", extdoc,
     expect_exc=(Exception,))

# ---- R1: PARAM-LENGTH-INFO-TYPE / LENGTH-KEY-REF ------------------------------------------------
PLI = """
<REQUESTS><REQUEST ID="RQ.pli"><SHORT-NAME>pli</SHORT-NAME><PARAMS>
 <PARAM xsi:type="LENGTH-KEY" ID="LK.len"><SHORT-NAME>len</SHORT-NAME><BYTE-POSITION>0</BYTE-POSITION>
  <DOP-REF ID-REF="DOP.u8"/></PARAM>
 <PARAM xsi:type="VALUE"><SHORT-NAME>data</SHORT-NAME><BYTE-POSITION>1</BYTE-POSITION>
  <DOP-REF ID-REF="DOP.pli"/></PARAM>
</PARAMS></REQUEST></REQUESTS>"""
PLIDOP = """
<DATA-OBJECT-PROP ID="DOP.pli"><SHORT-NAME>pli</SHORT-NAME>
 <COMPU-METHOD><CATEGORY>IDENTICAL</CATEGORY></COMPU-METHOD>
 <DIAG-CODED-TYPE BASE-DATA-TYPE="A_BYTEFIELD" xsi:type="PARAM-LENGTH-INFO-TYPE"><LENGTH-KEY-REF ID-REF="LK.len"/></DIAG-CODED-TYPE>
 <PHYSICAL-TYPE BASE-DATA-TYPE="A_BYTEFIELD"/>
</DATA-OBJECT-PROP>"""


def pli():
    body = f"""<DIAG-DATA-DICTIONARY-SPEC><DATA-OBJECT-PROPS>{U8_DOP.format(extra="")}{PLIDOP}
</DATA-OBJECT-PROPS></DIAG-DATA-DICTIONARY-SPEC>{PLI}"""
    db, db2 = rt(body)
    a = db.base_variants.BV.diag_data_dictionary_spec.data_object_props.pli.diag_coded_type
    b = db2.base_variants.BV.diag_data_dictionary_spec.data_object_props.pli.diag_coded_type
    assert a == b, (a, b)
    return "preserved"


case("C11.R1/ParamLengthInfoType.length_key_ref/field-never-written", pli, expect_exc=(Exception,))

# ---- R1: ADMIN-DATA / SDGS of complex DOPs, fields, tables ---------------------------------------
SDG = '<SDGS><SDG><SD SI="k">v</SD></SDG></SDGS>'
ADM = '<ADMIN-DATA><LANGUAGE>en</LANGUAGE></ADMIN-DATA>'
COMPLEX = f"""
<STRUCTURES><STRUCTURE ID="ST.s" IS-VISIBLE="true"><SHORT-NAME>s</SHORT-NAME>{ADM}{SDG}<PARAMS>
 <PARAM xsi:type="VALUE" OID="oid-p"><SHORT-NAME>x</SHORT-NAME><DOP-REF ID-REF="DOP.u8"/></PARAM>
</PARAMS></STRUCTURE></STRUCTURES>
<STATIC-FIELDS><STATIC-FIELD ID="SF.f" IS-VISIBLE="false"><SHORT-NAME>f</SHORT-NAME>{ADM}{SDG}
 <BASIC-STRUCTURE-REF ID-REF="ST.s"/><FIXED-NUMBER-OF-ITEMS>2</FIXED-NUMBER-OF-ITEMS>
 <ITEM-BYTE-SIZE>1</ITEM-BYTE-SIZE></STATIC-FIELD></STATIC-FIELDS>
<MUXS><MUX ID="MUX.m"><SHORT-NAME>m</SHORT-NAME>{ADM}{SDG}<BYTE-POSITION>1</BYTE-POSITION>
 <SWITCH-KEY><BYTE-POSITION>0</BYTE-POSITION><DATA-OBJECT-PROP-REF ID-REF="DOP.u8"/></SWITCH-KEY>
 <CASES><CASE><SHORT-NAME>c</SHORT-NAME><STRUCTURE-REF ID-REF="ST.s"/><LOWER-LIMIT>1</LOWER-LIMIT>
 <UPPER-LIMIT>2</UPPER-LIMIT></CASE></CASES></MUX></MUXS>
<TABLES><TABLE ID="T.t" SEMANTIC="sem"><SHORT-NAME>t</SHORT-NAME><KEY-LABEL>kl</KEY-LABEL>
 <STRUCT-LABEL>sl</STRUCT-LABEL>{ADM}<KEY-DOP-REF ID-REF="DOP.u8"/>
 <TABLE-ROW ID="TR.r" IS-EXECUTABLE="true" IS-MANDATORY="true" IS-FINAL="true"><SHORT-NAME>r</SHORT-NAME>
  <KEY>1</KEY><STRUCTURE-SNREF SHORT-NAME="s"/></TABLE-ROW>
 <TABLE-DIAG-COMM-CONNECTORS><TABLE-DIAG-COMM-CONNECTOR><SEMANTIC>x</SEMANTIC>
  <DIAG-COMM-REF ID-REF="DS.s"/></TABLE-DIAG-COMM-CONNECTOR></TABLE-DIAG-COMM-CONNECTORS>
</TABLE></TABLES>"""
KITCHEN = None


def kitchen(path, attr):
    def f():
        global KITCHEN
        if KITCHEN is None:
            KITCHEN = rt(SVC % "" + DDDS % COMPLEX)
        db, db2 = KITCHEN
        a, b = db.base_variants.BV, db2.base_variants.BV
        for seg in path.split("."):
            a, b = (a[int(seg)], b[int(seg)]) if seg.isdigit() else (getattr(a, seg),
                                                                    getattr(b, seg))
        va, vb = getattr(a, attr), getattr(b, attr)
        assert va == vb, (va, vb)
        return "preserved"
    return f


D = "diag_data_dictionary_spec."
for key, path, attr in [
    ("DopBase.sdgs/never-written:Structure", D + "structures.s", "sdgs"),
    ("DopBase.admin_data/never-written:Structure", D + "structures.s", "admin_data"),
    ("DopBase.sdgs/never-written:StaticField", D + "static_fields.f", "sdgs"),
    ("Field.is_visible_raw/never-written:StaticField", D + "static_fields.f", "is_visible_raw"),
    ("DopBase.sdgs/never-written:Multiplexer", D + "muxs.m", "sdgs"),
    ("Parameter.oid/dropped", D + "structures.s.parameters.x", "oid"),
    ("Table.key_label/never-written:Table", D + "tables.t", "key_label"),
    ("Table.struct_label/never-written:Table", D + "tables.t", "struct_label"),
    ("Table.admin_data/never-written:Table", D + "tables.t", "admin_data"),
    ("Table.table_diag_comm_connectors/never-written:Table", D + "tables.t",
     "table_diag_comm_connectors"),
    ("TableRow.is_executable_raw/never-written:TableRow", D + "tables.t.table_rows.r",
     "is_executable_raw"),
    ("TableRow.is_mandatory_raw/never-written:TableRow", D + "tables.t.table_rows.r",
     "is_mandatory_raw"),
    ("TableRow.is_final_raw/never-written:TableRow", D + "tables.t.table_rows.r", "is_final_raw"),
    ("TableRow.structure_snref/never-written:TableRow", D + "tables.t.table_rows.r",
     "structure_snref"),
]:
    case("C11.R1/" + key, kitchen(path, attr), expect_exc=(Exception,))

# ---- R1: TABLE-ENTRY parameter -----------------------------------------------------------------
TENTRY = """<REQUEST ID="RQ.te"><SHORT-NAME>te</SHORT-NAME><PARAMS>
 <PARAM xsi:type="TABLE-ENTRY"><SHORT-NAME>e</SHORT-NAME><BYTE-POSITION>0</BYTE-POSITION>
  <TARGET>KEY</TARGET><TABLE-ROW-REF ID-REF="TR.r"/></PARAM>
</PARAMS></REQUEST>"""


def tentry():
    db = load(document(SVC.replace("<REQUESTS>", "<REQUESTS>" + TENTRY) % "" + DDDS % COMPLEX))
    db2 = reload(db)
    a = db.base_variants.BV.requests.te.parameters.e
    b = db2.base_variants.BV.requests.te.parameters.e
    assert a == b, (a, b)
    return "preserved"


case("C11.R1/TableEntryParameter.target/never-written:TableEntryParameter", tentry,
     expect_exc=(Exception,))

# ---- R1: ADMIN-DATA of requests / responses -----------------------------------------------------


def reqadmin():
    body = SVC.replace("<SHORT-NAME>r</SHORT-NAME>", "<SHORT-NAME>r</SHORT-NAME>" + ADM) % ""
    db, db2 = rt(body)
    a, b = db.base_variants.BV.requests.r, db2.base_variants.BV.requests.r
    assert a.admin_data == b.admin_data, (a.admin_data, b.admin_data)
    return "preserved"


case("C11.R1/Request.admin_data/never-written:Request", reqadmin, expect_exc=(Exception,))

# ---- R1: OID of a diagnostic layer; ADMIN-DATA of the DIAG-DATA-DICTIONARY-SPEC ----------------


def layeroid():
    xml = document("").replace('<BASE-VARIANT ID="BV">', '<BASE-VARIANT ID="BV" OID="oid-bv">')
    db = load(xml)
    db2 = reload(db)
    a, b = db.base_variants.BV.diag_layer_raw.oid, db2.base_variants.BV.diag_layer_raw.oid
    assert a == b == "oid-bv", (a, b)
    return "preserved"


def dddsadmin():
    db, db2 = rt(DDDS.replace("<DIAG-DATA-DICTIONARY-SPEC>", "<DIAG-DATA-DICTIONARY-SPEC>" + ADM) % "")
    a = db.base_variants.BV.diag_data_dictionary_spec.admin_data
    b = db2.base_variants.BV.diag_data_dictionary_spec.admin_data
    assert a == b and a is not None, (a, b)
    return "preserved"


case("C11.R1/IdentifiableElement.oid/never-written:DiagLayerRaw", layeroid, expect_exc=(Exception,))
case("C11.R1/DiagDataDictionarySpec.admin_data/never-written:DiagDataDictionarySpec", dddsadmin,
     expect_exc=(Exception,))

# ---- R1: EXTERNAL-ACCESS-METHOD of a state transition --------------------------------------------
CHART = """<STATE-CHARTS><STATE-CHART ID="SC.1"><SHORT-NAME>chart</SHORT-NAME><SEMANTIC>s</SEMANTIC>
 <STATE-TRANSITIONS><STATE-TRANSITION ID="STT.1"><SHORT-NAME>t</SHORT-NAME>
  <SOURCE-SNREF SHORT-NAME="a"/><TARGET-SNREF SHORT-NAME="b"/>
  <EXTERNAL-ACCESS-METHOD ID="EAM.1"><SHORT-NAME>eam</SHORT-NAME><METHOD>m &amp; n</METHOD>
  </EXTERNAL-ACCESS-METHOD></STATE-TRANSITION></STATE-TRANSITIONS>
 <START-STATE-SNREF SHORT-NAME="a"/>
 <STATES><STATE ID="S.a"><SHORT-NAME>a</SHORT-NAME></STATE><STATE ID="S.b"><SHORT-NAME>b</SHORT-NAME></STATE></STATES>
</STATE-CHART></STATE-CHARTS>"""


def eam():
    db, db2 = rt(CHART)
    a = db.base_variants.BV.diag_layer_raw.state_charts.chart.state_transitions[0]
    b = db2.base_variants.BV.diag_layer_raw.state_charts.chart.state_transitions[0]
    assert a.external_access_method == b.external_access_method, (a, b)
    return "preserved"


case("C11.R1/StateTransition.external_access_method/never-written:StateTransition", eam,
     expect_exc=(Exception,))

# ---- R1: DIAG-VARIABLE-REF is written back as a reference ----------------------------------------


def dvref():
    body = SVC % "" + DIAGVAR
    xml = document(body).replace("</BASE-VARIANT>", """</BASE-VARIANT>
   <BASE-VARIANT ID="BV2"><SHORT-NAME>BV2</SHORT-NAME>
    <DIAG-VARIABLES><DIAG-VARIABLE-REF ID-REF="DV.v" DOCREF="BV" DOCTYPE="LAYER"/></DIAG-VARIABLES>
   </BASE-VARIANT>""")
    db = load(xml)
    db2 = reload(db)
    a = db.base_variants.BV2.base_variant_raw.diag_variables_raw
    b = db2.base_variants.BV2.base_variant_raw.diag_variables_raw
    assert [type(x).__name__ for x in a] == [type(x).__name__ for x in b], (a, b)
    return "preserved"


case("C11.R1/<DIAG-VARIABLE-REF>/name-never-written-BaseVariantRaw", dvref, expect_exc=(Exception,))

# ---- R1: ENV-DATA-DESC with PARAM-SNPATHREF and inline ENV-DATAS (ODX 2.0) -----------------------
EDD = """<ENV-DATA-DESCS><ENV-DATA-DESC ID="EDD.1"><SHORT-NAME>edd</SHORT-NAME>
 <PARAM-SNPATHREF SHORT-NAME-PATH="a.b"/>
 <ENV-DATAS><ENV-DATA ID="ED.1"><SHORT-NAME>ed</SHORT-NAME><PARAMS/><ALL-VALUE/></ENV-DATA></ENV-DATAS>
</ENV-DATA-DESC></ENV-DATA-DESCS>"""


def edd():
    db, db2 = rt(DDDS % EDD, version="2.0.0")
    a = db.base_variants.BV.diag_data_dictionary_spec.env_data_descs.edd
    b = db2.base_variants.BV.diag_data_dictionary_spec.env_data_descs.edd
    assert (a.param_snpathref, len(a.env_datas)) == (b.param_snpathref, len(b.env_datas)), (a, b)
    return "preserved"


case("C11.R1/EnvironmentDataDescription.env_datas/never-written:EnvironmentDataDescription", edd,
     expect_exc=(Exception,))

# ---- R1: IMPORT-REFS of a layer -------------------------------------------------------------------


def importrefs():
    xml = document(SVC % "", layer_tag="ECU-SHARED-DATA", layer_id="ESD").replace(
        "</ECU-SHARED-DATAS>", """</ECU-SHARED-DATAS><BASE-VARIANTS><BASE-VARIANT ID="BV">
        <SHORT-NAME>BV</SHORT-NAME><IMPORT-REFS><IMPORT-REF ID-REF="ESD" DOCREF="ESD" DOCTYPE="LAYER"/>
        </IMPORT-REFS></BASE-VARIANT></BASE-VARIANTS>""")
    db = load(xml)
    db2 = reload(db)
    a = db.base_variants.BV.diag_layer_raw.import_refs
    b = db2.base_variants.BV.diag_layer_raw.import_refs
    assert a == b and len(a) == 1, (a, b)
    assert [s.short_name for s in db2.base_variants.BV.services] == \
        [s.short_name for s in db.base_variants.BV.services]
    return "preserved"


case("C11.R1/DiagLayerRaw.import_refs/never-written", importrefs, expect_exc=(Exception,))

finish()
