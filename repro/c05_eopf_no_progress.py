"""C05: END-OF-PDU-FIELD over an item structure that consumes no bytes never terminates.

EndOfPduField.decode_from_pdu repeats `self.structure.decode_from_pdu(decode_state)` while the
cursor is in front of the end of the PDU.  A structure without parameters (PARAMS is optional in
the schema), or one whose only parameters consume nothing, leaves the cursor where it is: the
loop appends an empty item for ever (memory grows until the process dies) instead of
terminating with a result or a DecodeError.
Run: /venv/bin/python repro/c05_eopf_no_progress.py   (prints REPRODUCED / NOT-REPRODUCED)
"""
import os
import signal
import sys

repo = os.environ.get("ODXTOOLS_REPO", "/repo")
sys.path.insert(0, repo)
from odxtools.decodestate import DecodeState  # noqa: E402
from odxtools.endofpdufield import EndOfPduField  # noqa: E402
from odxtools.exceptions import DecodeError  # noqa: E402
from odxtools.nameditemlist import NamedItemList  # noqa: E402
from odxtools.odxlink import OdxDocFragment, OdxLinkId, OdxLinkRef  # noqa: E402
from odxtools.structure import Structure  # noqa: E402

frags = [OdxDocFragment("doc", "LAYER")]
struct = Structure(odx_id=OdxLinkId("s", frags), oid=None, short_name="empty", long_name=None,
                   description=None, admin_data=None, is_visible_raw=None, sdgs=[],
                   parameters=NamedItemList(), byte_size=None)
eopf = EndOfPduField(odx_id=OdxLinkId("e", frags), oid=None, short_name="eopf", long_name=None,
                     description=None, admin_data=None, sdgs=[],
                     structure_ref=OdxLinkRef.from_id(struct.odx_id), structure_snref=None,
                     env_data_desc_ref=None, env_data_desc_snref=None, min_number_of_items=None,
                     max_number_of_items=None, is_visible_raw=None)
eopf._structure = struct


class Hang(Exception):
    pass


def on_alarm(*_a):
    raise Hang()


signal.signal(signal.SIGALRM, on_alarm)
signal.setitimer(signal.ITIMER_REAL, 2.0)
try:
    res = eopf.decode_from_pdu(DecodeState(coded_message=b"\x01"))
    out = f"returned {len(res)} item(s)"
except Hang:
    out = "no result after 2 s: the item loop makes no progress"
except DecodeError as e:
    out = f"DecodeError: {e}"
except MemoryError:
    out = "MemoryError"
finally:
    signal.setitimer(signal.ITIMER_REAL, 0)
if out.startswith("no result") or out == "MemoryError":
    print("REPRODUCED", out)
    sys.exit(1)
print("NOT-REPRODUCED", out)
