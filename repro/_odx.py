"""Build tiny ODX-D documents for the XML-level repro scripts."""
import os
import tempfile

import odxtools

XSI = 'xmlns:xsi="http://www.w3.org/2001/XMLSchema-instance"'

U8_DOP = """
<DATA-OBJECT-PROP ID="DOP.u8">
 <SHORT-NAME>u8</SHORT-NAME>
 {extra}
 <COMPU-METHOD><CATEGORY>IDENTICAL</CATEGORY></COMPU-METHOD>
 <DIAG-CODED-TYPE BASE-DATA-TYPE="A_UINT32" xsi:type="STANDARD-LENGTH-TYPE"><BIT-LENGTH>8</BIT-LENGTH></DIAG-CODED-TYPE>
 <PHYSICAL-TYPE BASE-DATA-TYPE="A_UINT32"/>
</DATA-OBJECT-PROP>"""


def document(layer_body, *, version="2.2.0", layer_tag="BASE-VARIANT", layer_id="BV",
             container_extra=""):
    return f"""<?xml version="1.0" encoding="UTF-8"?>
<ODX MODEL-VERSION="{version}" {XSI}>
 <DIAG-LAYER-CONTAINER ID="DLC">
  <SHORT-NAME>DLC</SHORT-NAME>
  {container_extra}
  <{layer_tag}S>
   <{layer_tag} ID="{layer_id}">
    <SHORT-NAME>{layer_id}</SHORT-NAME>
    {layer_body}
   </{layer_tag}>
  </{layer_tag}S>
 </DIAG-LAYER-CONTAINER>
</ODX>"""


def load(xml):
    d = tempfile.mkdtemp(prefix="odx_repro_")
    path = os.path.join(d, "doc.odx-d")
    try:
        with open(path, "w") as f:
            f.write(xml)
        return odxtools.load_odx_d_file(path)
    finally:
        os.remove(path)
        os.rmdir(d)


def write(db):
    d = tempfile.mkdtemp(prefix="odx_repro_")
    path = os.path.join(d, "out.pdx")
    try:
        odxtools.write_pdx_file(path, db)
        return path
    finally:
        if os.path.exists(path):
            os.remove(path)
        os.rmdir(d)
