"""C03 / C01: an empty byte field of a LEADING-LENGTH-INFO-TYPE decodes but cannot be re-encoded.

DecodeState.extract_atomic_value() returns `bytearray()` for a zero-length A_BYTEFIELD (the
python type of the base data type), and LeadingLengthInfoType.encode_into_pdu() accepts only
`str` and `bytes`: the value that decode() just produced for the PDU `00` is rejected with
EncodeError ("can only be used for strings and byte fields, not bytearray").  All other
diag-coded types accept bytes and bytearray alike.
Run: /venv/bin/python repro/c03_leading_length_empty_bytefield.py  (REPRODUCED / NOT-REPRODUCED)
"""
import os
import sys

repo = os.environ.get("ODXTOOLS_REPO", "/repo")
sys.path.insert(0, repo)
from odxtools.decodestate import DecodeState  # noqa: E402
from odxtools.encodestate import EncodeState  # noqa: E402
from odxtools.exceptions import EncodeError  # noqa: E402
from odxtools.leadinglengthinfotype import LeadingLengthInfoType  # noqa: E402
from odxtools.odxtypes import DataType  # noqa: E402

dct = LeadingLengthInfoType(base_data_type=DataType.A_BYTEFIELD, base_type_encoding=None,
                            bit_length=8, is_highlow_byte_order_raw=None)
out = []
for pdu in (b"\x00", b"\x02\xab\xcd"):
    value = dct.decode_from_pdu(DecodeState(coded_message=pdu))
    st = EncodeState(coded_message=bytearray(), is_end_of_pdu=True)
    try:
        dct.encode_into_pdu(value, st)
        out.append(f"{pdu.hex()} -> {value!r} -> {bytes(st.coded_message).hex()}")
    except EncodeError as e:
        out.append(f"{pdu.hex()} -> {value!r} -> EncodeError: {e}")
print("\n".join(out))
if any("EncodeError" in o for o in out):
    print("REPRODUCED")
    sys.exit(1)
print("NOT-REPRODUCED")
