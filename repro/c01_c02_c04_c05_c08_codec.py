"""Codec-level defects (C01, C02, C04, C05, C08) shown on hand-built requests."""
import sys, os
sys.path.insert(0, os.path.dirname(__file__))
from _case import case, finish
from _mk import *  # noqa: F401,F403
from odxtools.exceptions import OdxError

U8 = dop("u8", slt(8))

# C01.R2 / C02.R3: BYTE-SIZE structure that does not start at the origin of the PDU
inner = struct("inner", [vp("a", U8)], byte_size=3)
rq = req("bytesize", [cc("sid", 0x10), cc("sub", 0x22), vp("s", inner), vp("tail", U8)])
link(U8, inner, rq)
case("C01.R2/BasicStructure.encode_into_pdu/byte_size-base",
     lambda: rq.encode(s={"a": 1}, tail=0x99).hex(),
     expect=lambda h: h != "102201000099")
case("C01.R2/BasicStructure.encode_into_pdu/roundtrip",
     lambda: rq.decode(rq.encode(s={"a": 1}, tail=0x99)),
     expect_exc=OdxError)

# C02.R4: short raw value -> backend dependent foreign exception
BF = dop("bf", slt(32, DataType.A_BYTEFIELD))
rq = req("bytefield", [cc("sid", 0x10), vp("b", BF)])
link(BF, rq)
case("C02.R4/EncodeState.emplace_atomic_value/short-raw",
     lambda: rq.encode(b=b"\x01\x02").hex(),
     expect_exc=(NotImplementedError, TypeError, ValueError))

# C04.R3: positive overflow into the sign bit is accepted
I8 = dop("i8", slt(8, DataType.A_INT32))
rq = req("int8", [cc("sid", 0x10), vp("v", I8)])
link(I8, rq)
case("C04.R3/EncodeState.emplace_atomic_value/A_INT32-positive",
     lambda: rq.decode(rq.encode(v=200))["v"], expect=lambda v: v != 200)
# C04.R1: negative overflow escapes as a foreign exception
case("C04.R1/EncodeState.emplace_atomic_value/A_INT32-negative",
     lambda: rq.encode(v=-300).hex(), expect_exc=(OverflowError, ValueError, TypeError))

# C04.R5: value for a non-settable parameter is dropped silently
rq = req("reserved", [cc("sid", 0x10), rsv("res", 8)])
link(rq)
case("C04.R5/ReservedParameter._encode_positioned_into_pdu",
     lambda: rq.encode(res=0x55).hex(), expect=lambda h: h == "1000")

# C08.R1 (+C04.R1): condensed bit mask
CM = dop("cond", slt(16, mask=0x0F0F, cond=True))
rq = req("condensed", [vp("c", CM)])
link(CM, rq)
case("C08.R1/StandardLengthType.get_static_bit_length/condensed",
     lambda: rq.get_static_bit_length(), expect=lambda n: n != 16)
case("C04.R1/StandardLengthType.encode_into_pdu/condensed-mask-width",
     lambda: rq.encode(c=0x0A0B).hex(), expect_exc=(IndexError,))

# C05.R1: undecodable text escapes as UnicodeDecodeError
S = dop("s", slt(16, DataType.A_UTF8STRING))
rq = req("utf8", [vp("s", S)])
link(S, rq)
case("C05.R1/DecodeState.extract_atomic_value/strict-text",
     lambda: rq.decode(b"\xff\xfe"), expect_exc=(UnicodeDecodeError,))

# C08.R2: over-long BYTE-SIZE structure is encoded but cannot be decoded
U16 = dop("u16", slt(16))
inner = struct("inner2", [vp("a", U16), vp("b", U16)], byte_size=3)
rq = req("oversize", [vp("s", inner)])
link(U16, inner, rq)
case("C08.R2/BasicStructure.encode_into_pdu/oversize",
     lambda: (len(rq.encode(s={"a": 1, "b": 2})), rq.get_static_bit_length()),
     expect=lambda r: r[0] * 8 != r[1])

# C04.R2: bits outside BIT-MASK are dropped without an error
MK = dop("masked", slt(8, mask=0x0F))
rq = req("masked", [vp("v", MK)])
link(MK, rq)
case("C04.R2/StandardLengthType.__apply_mask/silent-masking",
     lambda: rq.decode(rq.encode(v=0xFF))["v"], expect=lambda v: v != 0xFF)

finish()
