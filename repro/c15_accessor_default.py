"""C15: typed accessors that read `.value` directly ignore the specification's default.

An omitted value (<SIMPLE-VALUE/>, stored as '' by the parser) of CP_Baudrate makes
get_can_baudrate() raise ValueError (int('')) instead of returning the PHYSICAL-DEFAULT-VALUE that
ComparamInstance.get_value() returns for the same object. Expected on the repaired tree: both agree.
Run: /venv/bin/python repro/c15_accessor_default.py   (prints REPRODUCED / NOT-REPRODUCED)
"""
import os
import sys

repo = os.environ.get("ODXTOOLS_REPO", "/repo")
sys.path.insert(0, repo)
import odxtools  # noqa: E402

db = odxtools.load_pdx_file(os.path.join(repo, "examples", "somersault.pdx"))
bad = []
for dl in db.diag_layers:
    for name, acc in (("CP_Baudrate", "get_can_baudrate"),
                      ("CP_CANFDBaudrate", "get_can_fd_baudrate"),
                      ("CP_CANFDTxMaxDataLength", "get_max_can_payload_size")):
        cp = dl.get_comparam(name) if hasattr(dl, "get_comparam") else None
        if cp is None:
            continue
        saved = cp.value
        cp.value = ""  # what the parser stores for an omitted <SIMPLE-VALUE/>
        try:
            want = cp.get_value()
            try:
                got = getattr(dl, acc)()
            except Exception as e:  # noqa: BLE001
                got = f"{type(e).__name__}: {e}"
            if want is not None and str(got) != str(int(want)):
                bad.append((dl.short_name, acc, want, got))
        finally:
            cp.value = saved
if bad:
    print("REPRODUCED", bad[:3])
    sys.exit(1)
print("NOT-REPRODUCED")
