"""Defects visible on small ODX documents (C10.R4, C11.R0, C11.R4)."""
import sys, os
sys.path.insert(0, os.path.dirname(__file__))
from _case import case, finish
from _odx import U8_DOP, document, load, write

ADMIN = """
<ADMIN-DATA><DOC-REVISIONS><DOC-REVISION>
 <TEAM-MEMBER-REF ID-REF="TM.alice"/><REVISION-LABEL>1.0</REVISION-LABEL>
 <DATE>2024-01-01T00:00:00</DATE>
</DOC-REVISION></DOC-REVISIONS></ADMIN-DATA>"""
COMPANY = """
<COMPANY-DATAS><COMPANY-DATA ID="CD.acme"><SHORT-NAME>acme</SHORT-NAME>
 <TEAM-MEMBERS><TEAM-MEMBER ID="TM.alice"><SHORT-NAME>alice</SHORT-NAME></TEAM-MEMBER></TEAM-MEMBERS>
</COMPANY-DATA></COMPANY-DATAS>"""

db = load(document(f"""
<DIAG-DATA-DICTIONARY-SPEC><DATA-OBJECT-PROPS>{U8_DOP.format(extra=ADMIN)}</DATA-OBJECT-PROPS>
</DIAG-DATA-DICTIONARY-SPEC>{COMPANY}"""))
dop = db.base_variants.BV.diag_data_dictionary_spec.data_object_props.u8

# C10.R4: the ADMIN-DATA of a DOP is never visited by DopBase._resolve_odxlinks
case("C10.R4/DopBase._resolve_odxlinks/admin_data-not-visited",
     lambda: dop.admin_data.doc_revisions[0].team_member, expect_exc=(AttributeError,))

# C11.R0: printDiagLayer uses the alias `pcd` without importing it
case("C11.R0/macros/printDiagLayer.xml.jinja2/pcd-unresolved", lambda: write(db),
     expect_exc=(Exception,))

# C11.R0: a dynamic end-marker field cannot be written (macro has the wrong name)
db2 = load(document(f"""
<DIAG-DATA-DICTIONARY-SPEC>
 <DATA-OBJECT-PROPS>{U8_DOP.format(extra="")}</DATA-OBJECT-PROPS>
 <STRUCTURES><STRUCTURE ID="ST.item"><SHORT-NAME>item</SHORT-NAME><PARAMS>
  <PARAM xsi:type="VALUE"><SHORT-NAME>x</SHORT-NAME><DOP-REF ID-REF="DOP.u8"/></PARAM>
 </PARAMS></STRUCTURE></STRUCTURES>
 <DYNAMIC-ENDMARKER-FIELDS><DYNAMIC-ENDMARKER-FIELD ID="DEMF"><SHORT-NAME>demf</SHORT-NAME>
  <BASIC-STRUCTURE-REF ID-REF="ST.item"/>
  <DYN-END-DOP-REF ID-REF="DOP.u8"><TERMINATION-VALUE>255</TERMINATION-VALUE></DYN-END-DOP-REF>
 </DYNAMIC-ENDMARKER-FIELD></DYNAMIC-ENDMARKER-FIELDS>
</DIAG-DATA-DICTIONARY-SPEC>"""))
case("C11.R0/macros/printDynamicEndmarkerField.xml.jinja2/macro-misnamed", lambda: write(db2),
     expect_exc=(Exception,))

finish()
