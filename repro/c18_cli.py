"""compare/list tool defects (C18.R1 renamed services, C18.R2 comparam count)."""
import sys, os, io, contextlib
sys.path.insert(0, os.path.dirname(__file__))
from _case import case, finish
import odxtools
from odxtools.cli.compare import Comparison
from odxtools.cli._print_utils import print_dl_metrics

REPO = os.environ.get("ODXTOOLS_REPO", "/repo")
old = odxtools.load_pdx_file(os.path.join(REPO, "examples", "somersault.pdx"))
new = odxtools.load_pdx_file(os.path.join(REPO, "examples", "somersault_modified.pdx"))

# somersault_modified renames session_start -> start_session (same request prefix 10 00)
dl_old = old.ecus.somersault_lazy
dl_new = new.ecus.somersault_lazy


def renamed():
    names_old = {s.short_name for s in dl_old.services}
    names_new = {s.short_name for s in dl_new.services}
    assert "session_start" in names_old and "start_session" in names_new
    res = Comparison().compare_diagnostic_layers(dl_new, dl_old)
    return ([s.short_name for s in res["changed_name_of_service"][0]],
            [s.short_name for s in res["new_services"]],
            [s.short_name for s in res["deleted_services"]])


case("C18.R1/Comparison.compare_diagnostic_layers/renamed-branch-dead", renamed,
     expect=lambda r: "start_session" not in r[0])


def comparam_count():
    bv = old.base_variants.somersault
    buf = io.StringIO()
    with contextlib.redirect_stdout(buf):
        print_dl_metrics([bv])
    row = [ln for ln in buf.getvalue().splitlines() if "somersault" in ln][0]
    cells = [c.strip() for c in row.replace("│", "|").replace("┃", "|").split("|") if c.strip()]
    return len(bv.comparam_refs), cells[-1]


case("C18.R2/print_dl_metrics/comparams_refs-typo", comparam_count,
     expect=lambda r: r[0] > 0 and r[1] == "0")

def deleted_in_empty_layer():
    # a new layer without any service: every service of the old layer has been deleted
    class Fake:
        short_name = dl_new.short_name
        variant_type = dl_new.variant_type
        services = type(dl_new.services)([])
    res = Comparison().compare_diagnostic_layers(Fake(), dl_old)  # type: ignore[arg-type]
    return (len(dl_old.services), [s.short_name for s in res["deleted_services"]])


case("C18.R4/Comparison.compare_diagnostic_layers/deleted-check-nested", deleted_in_empty_layer,
     expect=lambda r: r[0] > 0 and r[1] == [])
finish()
