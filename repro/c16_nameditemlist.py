"""NamedItemList defect (C16.R2)."""
import sys, os
sys.path.insert(0, os.path.dirname(__file__))
from dataclasses import dataclass
from _case import case, finish
from odxtools.nameditemlist import NamedItemList


@dataclass
class Item:
    short_name: str


def remove_one_of_two_equal():
    a, b = Item("a"), Item("a")
    nil = NamedItemList([a, b])
    nil.remove(a)
    return len(nil), sorted(nil.keys())


case("C16.R2/ItemAttributeList.remove/deletes-all-equal-names", remove_one_of_two_equal,
     expect=lambda r: r[0] == 1 and r[1] == [])


def pop_one_of_two_equal():
    nil = NamedItemList([Item("a"), Item("a")])
    nil.pop()
    return len(nil), sorted(nil.keys())


case("C16.R2/ItemAttributeList.pop/deletes-all-equal-names", pop_one_of_two_equal,
     expect=lambda r: r[0] == 1 and r[1] == [])
finish()
