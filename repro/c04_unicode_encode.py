"""C04: a string value with a character the codec of its data type cannot represent leaves the
encoder as UnicodeEncodeError (a foreign exception) instead of the library's EncodeError.

A_ASCIISTRING is encoded as iso-8859-1: 'a€' raises UnicodeEncodeError from str.encode() in
EncodeState.emplace_atomic_value (fixed-length strings) and in MinMaxLengthType.encode_into_pdu.
Run: /venv/bin/python repro/c04_unicode_encode.py   (prints REPRODUCED / NOT-REPRODUCED)
"""
import os
import sys

repo = os.environ.get("ODXTOOLS_REPO", "/repo")
sys.path.insert(0, repo)
from odxtools.encodestate import EncodeState  # noqa: E402
from odxtools.exceptions import OdxError  # noqa: E402
from odxtools.minmaxlengthtype import MinMaxLengthType  # noqa: E402
from odxtools.odxtypes import DataType  # noqa: E402

out = []
st = EncodeState(coded_message=bytearray())
try:
    st.emplace_atomic_value(bit_length=16, base_data_type=DataType.A_ASCIISTRING,
                            base_type_encoding=None, is_highlow_byte_order=True,
                            internal_value="a€", used_mask=None)
    out.append("encoded")
except OdxError as e:
    out.append("OdxError")
except Exception as e:  # noqa: BLE001
    out.append(type(e).__name__)
mm = MinMaxLengthType(base_data_type=DataType.A_ASCIISTRING, base_type_encoding=None,
                      is_highlow_byte_order_raw=None, min_length=1, max_length=10,
                      termination="ZERO")
try:
    from odxtools.minmaxlengthtype import Termination
    mm = MinMaxLengthType(base_data_type=DataType.A_ASCIISTRING, base_type_encoding=None,
                          is_highlow_byte_order_raw=None, min_length=1, max_length=10,
                          termination=Termination.ZERO)
except Exception:  # noqa: BLE001
    pass
st = EncodeState(coded_message=bytearray())
try:
    mm.encode_into_pdu("a€", st)
    out.append("encoded")
except OdxError:
    out.append("OdxError")
except Exception as e:  # noqa: BLE001
    out.append(type(e).__name__)
if "UnicodeEncodeError" in out:
    print("REPRODUCED", out)
    sys.exit(1)
print("NOT-REPRODUCED", out)
