"""Multiplexer / table-key / matching-request defects (C01.R3, C04.R1, C05.R1)."""
import sys, os
sys.path.insert(0, os.path.dirname(__file__))
from _case import case, finish
from _mk import *  # noqa: F401,F403
from odxtools.compumethods.limit import Limit
from odxtools.multiplexer import Multiplexer
from odxtools.multiplexercase import MultiplexerCase
from odxtools.multiplexerdefaultcase import MultiplexerDefaultCase
from odxtools.multiplexerswitchkey import MultiplexerSwitchKey
from odxtools.parameters.matchingrequestparameter import MatchingRequestParameter
from odxtools.parameters.tablekeyparameter import TableKeyParameter
from odxtools.parameters.tablestructparameter import TableStructParameter
from odxtools.response import Response, ResponseType
from odxtools.table import Table
from odxtools.tablerow import TableRow

U8 = dop("u8", slt(8))


def ref(o):
    return OdxLinkRef.from_id(o.odx_id)


# ---- C04.R1: multiplexer, case given as None although a default case exists
body = struct("body", [vp("x", U8)])
mux = Multiplexer(
    odx_id=OdxLinkId("mux", doc_frags), oid=None, short_name="mux", long_name=None,
    description=None, admin_data=None, sdgs=[], byte_position=1,
    switch_key=MultiplexerSwitchKey(byte_position=0, bit_position=None, dop_ref=ref(U8)),
    default_case=MultiplexerDefaultCase(short_name="dflt", long_name=None, description=None,
                                        structure_ref=ref(body), structure_snref=None),
    cases=NamedItemList([
        MultiplexerCase(short_name="one", long_name=None, description=None,
                        structure_ref=ref(body), structure_snref=None,
                        lower_limit=Limit(value_raw="1", value_type=None, interval_type=None),
                        upper_limit=Limit(value_raw="1", value_type=None, interval_type=None))
    ]), is_visible_raw=None)
rq = req("muxrq", [cc("sid", 0x10), vp("m", mux)])
link(U8, body, mux, rq)
case("C04.R1/Multiplexer.encode_into_pdu/mux_case-unassigned",
     lambda: rq.encode(m=(None, {"x": 3})).hex(), expect_exc=(UnboundLocalError, NameError))

# ---- C04.R1: byte-wise object at a bit position -> RuntimeError
mrp = MatchingRequestParameter(short_name="echo", long_name=None, description=None, oid=None,
                               byte_position=None, bit_position=4, semantic=None, sdgs=[],
                               request_byte_position=0, byte_length=1)
resp = Response(odx_id=OdxLinkId("resp", doc_frags), oid=None, short_name="resp", long_name=None,
                description=None, admin_data=None, sdgs=[], response_type=ResponseType.POSITIVE,
                parameters=NamedItemList([cc("sid", 0x50), mrp]))
link(resp)
case("C04.R1/EncodeState.emplace_bytes/RuntimeError",
     lambda: resp.encode(coded_request=b"\x10\x01").hex(), expect_exc=(RuntimeError,))

# ---- C01.R3 / C05.R1: table key fixed by TABLE-ROW-REF
row_struct = struct("rowstruct", [vp("y", U8)])
table = Table(odx_id=OdxLinkId("tab", doc_frags), oid=None, short_name="tab", long_name=None,
              description=None, semantic=None, key_label=None, struct_label=None, admin_data=None,
              key_dop_ref=ref(U8), table_rows_raw=[], table_diag_comm_connectors=[], sdgs=[])
row = TableRow(odx_id=OdxLinkId("tab.row1", doc_frags), oid=None, short_name="row1",
               long_name=None, description=None, key_raw="1", table_ref=ref(table), dop_ref=None,
               dop_snref=None, structure_ref=ref(row_struct), structure_snref=None, sdgs=[],
               audience=None, functional_class_refs=[], state_transition_refs=[],
               pre_condition_state_refs=[], admin_data=None, is_executable_raw=None,
               semantic=None, is_mandatory_raw=None, is_final_raw=None)
table.table_rows_raw.append(row)
tk = TableKeyParameter(short_name="key", long_name=None, description=None, oid=None,
                       byte_position=None, bit_position=None, semantic=None, sdgs=[],
                       odx_id=OdxLinkId("rq.key", doc_frags), table_ref=None, table_snref=None,
                       table_row_ref=ref(row), table_row_snref=None)
ts = TableStructParameter(short_name="payload", long_name=None, description=None, oid=None,
                          byte_position=None, bit_position=None, semantic=None, sdgs=[],
                          table_key_ref=OdxLinkRef.from_id(tk.odx_id), table_key_snref=None)
rq = req("tablerq", [cc("sid", 0x22), tk, ts])


class _Ctx:  # minimal stand-in for the layer the SNREF context wants
    pass


try:
    odxlinks = link(U8, row_struct, table, rq)
    pdu = rq.encode(payload=("row1", {"y": 7}))
    print("   (encoder emits", pdu.hex(), "for the static row)")
    case("C01.R3/TableKeyParameter._decode_positioned_from_pdu/static-row-not-recorded",
         lambda: rq.decode(pdu), expect_exc=(KeyError,))
except Exception as e:  # noqa: BLE001
    print("NOT-REPRODUCED C01.R3 setup failed:", type(e).__name__, e)

finish()
