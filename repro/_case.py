"""Tiny harness shared by the repro scripts."""
import sys

_missing = 0


def case(key, fn, *, expect_exc=None, expect=None):
    """Run fn(); the defect is present if it raises `expect_exc` (a class or
    tuple) or, when `expect` is given, if expect(result) is true."""
    global _missing
    try:
        result = fn()
    except Exception as e:  # noqa: BLE001
        if expect_exc is not None and isinstance(e, expect_exc):
            print(f"REPRODUCED {key}: {type(e).__name__}: {str(e)[:120]}")
            return
        print(f"NOT-REPRODUCED {key}: raised {type(e).__name__}: {str(e)[:120]}")
        _missing += 1
        return
    if expect is not None and expect(result):
        print(f"REPRODUCED {key}: result {result!r}"[:200])
        return
    print(f"NOT-REPRODUCED {key}: result {result!r}"[:200])
    _missing += 1


def finish():
    sys.exit(_missing)
