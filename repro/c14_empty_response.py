"""C14: an ECU that answers an identification request with zero bytes makes the matcher raise
RuntimeError("No response available. Did you forget to call 'evaluate()' ...") instead of
reporting "no match": VariantMatcher._get_ident_response() tests the stored response by
truthiness, so the legitimate empty response b'' is taken for "evaluate() was not called".
Run: /venv/bin/python repro/c14_empty_response.py   (prints REPRODUCED / NOT-REPRODUCED)
"""
import os
import sys
import warnings

repo = os.environ.get("ODXTOOLS_REPO", "/repo")
sys.path.insert(0, repo)
import odxtools  # noqa: E402
from odxtools.ecuvariantpattern import EcuVariantPattern  # noqa: E402
from odxtools.matchingparameter import MatchingParameter  # noqa: E402
from odxtools.variantmatcher import VariantMatcher  # noqa: E402

warnings.simplefilter("ignore")
db = odxtools.load_pdx_file(os.path.join(repo, "examples", "somersault.pdx"))
lazy = db.ecu_variants.somersault_lazy
lazy.ecu_variant_raw.ecu_variant_patterns = [
    EcuVariantPattern(matching_parameters=[
        MatchingParameter(expected_value="0", diag_comm_snref="tester_present",
                          out_param_if_snref="status", out_param_if_snpathref=None)])]
matcher = VariantMatcher(variant_candidates=[lazy], use_cache=False)
try:
    for _, req in matcher.request_loop():
        matcher.evaluate(b"")  # the ECU answers with an empty telegram
    out = f"has_match={matcher.has_match()}"
except RuntimeError as e:
    print("REPRODUCED RuntimeError:", e)
    sys.exit(1)
print("NOT-REPRODUCED", out)
