"""Compu-method defects (C03.R3, C07.R2, C07.R3, C07.R4)."""
import sys, os
sys.path.insert(0, os.path.dirname(__file__))
from _case import case, finish
from _mk import *  # noqa: F401,F403
from odxtools.compumethods.compuconst import CompuConst
from odxtools.compumethods.compudefaultvalue import CompuDefaultValue
from odxtools.compumethods.compuinternaltophys import CompuInternalToPhys
from odxtools.compumethods.compuphystointernal import CompuPhysToInternal
from odxtools.compumethods.compurationalcoeffs import CompuRationalCoeffs
from odxtools.compumethods.compuscale import CompuScale
from odxtools.compumethods.limit import IntervalType, Limit
from odxtools.compumethods.ratfunccompumethod import RatFuncCompuMethod
from odxtools.compumethods.scalelinearcompumethod import ScaleLinearCompuMethod
from odxtools.compumethods.tabintpcompumethod import TabIntpCompuMethod
from odxtools.compumethods.texttablecompumethod import TexttableCompuMethod
from odxtools.exceptions import OdxError

I, S, F = DataType.A_UINT32, DataType.A_UNICODE2STRING, DataType.A_FLOAT64


def lim(v, t):
    return None if v is None else Limit(value_raw=str(v), value_type=t,
                                        interval_type=IntervalType.CLOSED)


def scale(lo, hi, *, const=None, coeffs=None, dt=I, rt=S):
    cconst = None
    if const is not None:
        cconst = CompuConst(v=None, vt=const, data_type=rt) if rt == S else CompuConst(
            v=str(const), vt=None, data_type=rt)
    return CompuScale(short_label=None, description=None, lower_limit=lim(lo, dt),
                      upper_limit=lim(hi, dt), compu_inverse_value=None, compu_const=cconst,
                      compu_rational_coeffs=coeffs, domain_type=dt, range_type=rt)


def coeffs(num, den=(1,), t=F):
    return CompuRationalCoeffs(value_type=t, numerators=list(num), denominators=list(den))


def itp(scales, default=None):
    return CompuInternalToPhys(compu_scales=scales, prog_code=None, compu_default_value=default)


# C07.R2: TEXTTABLE consults the wrong default in its validity predicates
tt = TexttableCompuMethod(
    category=CompuCategory.TEXTTABLE,
    compu_internal_to_phys=itp([scale(0, 0, const="off"), scale(1, 1, const="on")],
                               CompuDefaultValue(v=None, vt="undefined", data_type=S,
                                                 compu_inverse_value=None)),
    compu_phys_to_internal=None, internal_type=I, physical_type=S)


def valid_but_unconvertible():
    assert tt.is_valid_physical_value("garbage")
    try:
        tt.convert_physical_to_internal("garbage")
    except OdxError as e:
        return f"declared valid, conversion raises {type(e).__name__}"
    return None


case("C07.R2/TexttableCompuMethod.is_valid_physical_value/default-swapped",
     valid_but_unconvertible, expect=lambda r: r is not None)
case("C07.R2/TexttableCompuMethod.is_valid_internal_value/default-swapped",
     lambda: (tt.is_valid_internal_value(7), tt.convert_internal_to_physical(7)),
     expect=lambda r: r == (False, "undefined"))

# C07.R3 (+R2): continuous, monotone SCALE-LINEAR is declared non-invertible
sl = ScaleLinearCompuMethod(
    category=CompuCategory.SCALE_LINEAR,
    compu_internal_to_phys=itp([
        scale(0, 10, coeffs=coeffs((0, 1)), rt=F),
        scale(10, 20, coeffs=coeffs((-10, 2)), rt=F)
    ]), compu_phys_to_internal=None, internal_type=I, physical_type=F)


def sl_case():
    assert sl.is_valid_physical_value(5.0)
    try:
        return sl.convert_physical_to_internal(5.0)
    except OdxError as e:
        return f"declared valid, conversion raises: {e}"


case("C07.R3/ScaleLinearCompuMethod.__post_init__/continuity-test-inverted", sl_case,
     expect=lambda r: isinstance(r, str))

# C03.R3: TAB-INTP truncates instead of rounding to nearest
ti = TabIntpCompuMethod(
    category=CompuCategory.TAB_INTP,
    compu_internal_to_phys=itp([scale(0, None, const=0, rt=I), scale(10, None, const=19, rt=I)]),
    compu_phys_to_internal=None, internal_type=I, physical_type=I)
case("C03.R3/TabIntpCompuMethod.convert_internal_to_physical/truncation",
     lambda: ti.convert_internal_to_physical(1), expect=lambda r: r != round(1.9))

# C07.R4: RAT-FUNC inverse type-checks its input against the *range* type
rf = RatFuncCompuMethod(
    category=CompuCategory.RAT_FUNC,
    compu_internal_to_phys=itp([scale(0, 100, coeffs=coeffs((0, 0.5)), rt=F)]),
    compu_phys_to_internal=CompuPhysToInternal(compu_scales=[
        scale(0, 50, coeffs=coeffs((0, 2)), dt=F, rt=I)
    ], prog_code=None, compu_default_value=None),
    internal_type=I, physical_type=F)
case("C07.R4/RatFuncSegment.applies/range-type-check",
     lambda: (rf.convert_internal_to_physical(10), rf.is_valid_physical_value(5.0)),
     expect=lambda r: r[1] is False)

finish()
