"""C05: DYNAMIC-ENDMARKER-FIELD over an item structure that consumes no bytes never terminates.

DynamicEndmarkerField.decode_from_pdu repeats the item structure until the end marker is found
at the cursor or the cursor is at the end of the PDU.  For an item structure without parameters
the cursor never moves: with a PDU whose next bytes are not the end marker the loop appends
empty items for ever.
Run: /venv/bin/python repro/c05_demf_no_progress.py   (prints REPRODUCED / NOT-REPRODUCED)
"""
import os
import signal
import sys

repo = os.environ.get("ODXTOOLS_REPO", "/repo")
sys.path.insert(0, repo)
from odxtools.compumethods.compumethod import CompuCategory  # noqa: E402
from odxtools.compumethods.identicalcompumethod import IdenticalCompuMethod  # noqa: E402
from odxtools.dataobjectproperty import DataObjectProperty  # noqa: E402
from odxtools.decodestate import DecodeState  # noqa: E402
from odxtools.dynamicendmarkerfield import DynamicEndmarkerField  # noqa: E402
from odxtools.dynenddopref import DynEndDopRef  # noqa: E402
from odxtools.exceptions import DecodeError  # noqa: E402
from odxtools.nameditemlist import NamedItemList  # noqa: E402
from odxtools.odxlink import OdxDocFragment, OdxLinkId, OdxLinkRef  # noqa: E402
from odxtools.odxtypes import DataType  # noqa: E402
from odxtools.physicaltype import PhysicalType  # noqa: E402
from odxtools.standardlengthtype import StandardLengthType  # noqa: E402
from odxtools.structure import Structure  # noqa: E402

frags = [OdxDocFragment("doc", "LAYER")]
struct = Structure(odx_id=OdxLinkId("s", frags), oid=None, short_name="empty", long_name=None,
                   description=None, admin_data=None, is_visible_raw=None, sdgs=[],
                   parameters=NamedItemList(), byte_size=None)
end_dop = DataObjectProperty(
    odx_id=OdxLinkId("end", frags), oid=None, short_name="end", long_name=None, description=None,
    admin_data=None,
    diag_coded_type=StandardLengthType(
        base_data_type=DataType.A_UINT32, base_type_encoding=None, bit_length=8, bit_mask=None,
        is_condensed_raw=None, is_highlow_byte_order_raw=None),
    physical_type=PhysicalType(base_data_type=DataType.A_UINT32, display_radix=None,
                               precision=None),
    compu_method=IdenticalCompuMethod(
        category=CompuCategory.IDENTICAL, compu_internal_to_phys=None,
        compu_phys_to_internal=None, internal_type=DataType.A_UINT32,
        physical_type=DataType.A_UINT32),
    unit_ref=None, sdgs=[], internal_constr=None, physical_constr=None)
demf = DynamicEndmarkerField(
    odx_id=OdxLinkId("d", frags), oid=None, short_name="demf", long_name=None, description=None,
    admin_data=None, sdgs=[], structure_ref=OdxLinkRef.from_id(struct.odx_id),
    structure_snref=None, env_data_desc_ref=None, env_data_desc_snref=None, is_visible_raw=None,
    dyn_end_dop_ref=DynEndDopRef(termination_value_raw="255", ref_id="end", ref_docs=frags))
demf._structure = struct
demf._dyn_end_dop = end_dop
demf._termination_value = 255


class Hang(Exception):
    pass


def on_alarm(*_a):
    raise Hang()


signal.signal(signal.SIGALRM, on_alarm)
signal.setitimer(signal.ITIMER_REAL, 2.0)
try:
    res = demf.decode_from_pdu(DecodeState(coded_message=b"\x01\xff"))
    out = f"returned {len(res)} item(s)"
except Hang:
    out = "no result after 2 s: the item loop makes no progress"
except DecodeError as e:
    out = f"DecodeError: {e}"
except MemoryError:
    out = "MemoryError"
finally:
    signal.setitimer(signal.ITIMER_REAL, 0)
if out.startswith("no result") or out == "MemoryError":
    print("REPRODUCED", out)
    sys.exit(1)
print("NOT-REPRODUCED", out)
