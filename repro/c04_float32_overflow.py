"""C04: a finite value beyond the float32 range is encoded silently as infinity (C backend of
bitstruct) or leaves the encoder as OverflowError (pure Python backend).

EncodeState.emplace_atomic_value(1e40, A_FLOAT32, 32 bits) -> 7f800000 (+inf), which decodes to inf.
Run: /venv/bin/python repro/c04_float32_overflow.py   (prints REPRODUCED / NOT-REPRODUCED)
"""
import os
import sys

repo = os.environ.get("ODXTOOLS_REPO", "/repo")
sys.path.insert(0, repo)
from odxtools.encodestate import EncodeState  # noqa: E402
from odxtools.exceptions import EncodeError  # noqa: E402
from odxtools.odxtypes import DataType  # noqa: E402

st = EncodeState(coded_message=bytearray())
try:
    st.emplace_atomic_value(bit_length=32, base_data_type=DataType.A_FLOAT32,
                            base_type_encoding=None, is_highlow_byte_order=True,
                            internal_value=1e40, used_mask=None)
    out = "encoded " + bytes(st.coded_message).hex()
except EncodeError:
    out = "EncodeError"
except Exception as e:  # noqa: BLE001
    out = type(e).__name__
if out != "EncodeError":
    print("REPRODUCED", out)
    sys.exit(1)
print("NOT-REPRODUCED", out)
