"""Dispatch defects (C05.R1 on the example database, C06.R1, C06.R2)."""
import sys, os
sys.path.insert(0, os.path.dirname(__file__))
from _case import case, finish
from _mk import *  # noqa: F401,F403
import odxtools
from odxtools.database import Database
from odxtools.diaglayers.diaglayertype import DiagLayerType
from odxtools.diaglayers.ecuvariant import EcuVariant
from odxtools.diaglayers.ecuvariantraw import EcuVariantRaw
from odxtools.diagservice import DiagService
from odxtools.exceptions import DecodeError, OdxError

REPO = os.environ.get("ODXTOOLS_REPO", "/repo")
db = odxtools.load_pdx_file(os.path.join(REPO, "examples", "somersault.pdx"))
lazy = db.ecus.somersault_lazy


def plain_odxerror():
    try:
        lazy.decode(bytes.fromhex("50d6894225"))
    except DecodeError:
        return None
    except OdxError as e:
        return f"{type(e).__name__}: {e}"[:100]
    return None


case("C05.R1/DataObjectProperty.decode_from_pdu/plain-odxraise", plain_odxerror,
     expect=lambda r: r is not None)

# C06.R1: a service whose request has an empty constant prefix is never a candidate
schroedinger = lazy.services.schroedinger
case("C06.R1/DiagLayer._find_services_for_uds/empty-prefix",
     lambda: (schroedinger.request.coded_const_prefix().hex(),
              schroedinger in lazy._find_services_for_uds(b"\x01\x02")),
     expect=lambda r: r == ("", False))


# C06.R2: a candidate that is merely too short for the message aborts the whole decode
def service(name, request):
    return DiagService(
        odx_id=OdxLinkId("svc." + name, doc_frags), oid=None, short_name=name, long_name=None,
        description=None, admin_data=None, semantic=None, audience=None, comparam_refs=[],
        is_cyclic_raw=None, is_multiple_raw=None, addressing_raw=None,
        transmission_mode_raw=None, functional_class_refs=[], pre_condition_state_refs=[],
        state_transition_refs=[], protocol_snrefs=[], related_diag_comm_refs=[],
        diagnostic_class=None, is_mandatory_raw=None, is_executable_raw=None, is_final_raw=None,
        request_ref=OdxLinkRef.from_id(request.odx_id), pos_response_refs=[],
        neg_response_refs=[], pos_response_suppressible=None, sdgs=[])


U16 = dop("u16", slt(16))
rq_a = req("exact", [cc("sid", 0x22), cc("sub", 0x01)])  # matches 22 01 exactly
rq_b = req("longer", [cc("sid", 0x22), vp("value", U16)])  # needs three bytes
svc_a, svc_b = service("exact", rq_a), service("longer", rq_b)
raw = EcuVariantRaw(
    variant_type=DiagLayerType.ECU_VARIANT, odx_id=OdxLinkId("dl", doc_frags), oid=None,
    short_name="dl", long_name=None, description=None, admin_data=None,
    company_datas=NamedItemList(), functional_classes=NamedItemList(),
    diag_data_dictionary_spec=None, diag_comms_raw=[svc_a, svc_b],
    requests=NamedItemList([rq_a, rq_b]), positive_responses=NamedItemList(),
    negative_responses=NamedItemList(), global_negative_responses=NamedItemList(),
    additional_audiences=NamedItemList(), import_refs=[], state_charts=NamedItemList(), sdgs=[],
    parent_refs=[], comparam_refs=[], ecu_variant_patterns=[], diag_variables_raw=[],
    variable_groups=NamedItemList(), libraries=NamedItemList(), dyn_defined_spec=None,
    sub_components=NamedItemList())
layer = EcuVariant(diag_layer_raw=raw)
odxlinks = OdxLinkDatabase()
odxlinks.update(U16._build_odxlinks())
odxlinks.update(layer._build_odxlinks())
U16._resolve_odxlinks(odxlinks)
layer._resolve_odxlinks(odxlinks)
layer._finalize_init(Database(), odxlinks)


def too_short_candidate_aborts():
    cands = [s.short_name for s in layer._find_services_for_uds(b"\x22\x01")]
    try:
        msgs = layer.decode(b"\x22\x01")
        return None, cands, [m.service.short_name for m in msgs]
    except DecodeError as e:
        return str(e), cands, None


case("C06.R2/DiagLayer._decode/candidate-failure-aborts", too_short_candidate_aborts,
     expect=lambda r: r[0] is not None and "exact" in r[1])
finish()
