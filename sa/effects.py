"""Exception-escape analysis over the call graph.

For every function: the raise sites that can leave it (explicit raises, the
repository's odxraise/odxassert/odxrequire, assert, and a small catalogue of
implicit may-raise constructs), filtered by the enclosing ``try/except`` of the
site and of every call site on the way to the entry point.

Each site carries a *trigger class* computed from the tests it is control
dependent on inside its function: ``description`` (only ``self.*`` / constants),
``type`` (run-time data occurs only under isinstance()/type()), or ``value``.
"""
from __future__ import annotations

import ast
from typing import Dict, Iterable, List, Optional, Set, Tuple

from .callgraph import CallGraph
from .cfg import CFG
from .src import FuncInfo, Program, call_name, stmt_key, walk_no_nested

BUILTIN_BASES = {
    "KeyError": ["LookupError"], "IndexError": ["LookupError"], "LookupError": ["Exception"],
    "UnicodeDecodeError": ["ValueError"], "UnicodeEncodeError": ["ValueError"],
    "ValueError": ["Exception"], "TypeError": ["Exception"], "AssertionError": ["Exception"],
    "NotImplementedError": ["RuntimeError"], "RuntimeError": ["Exception"],
    "OverflowError": ["ArithmeticError"], "ZeroDivisionError": ["ArithmeticError"],
    "ArithmeticError": ["Exception"], "AttributeError": ["Exception"],
    "UnboundLocalError": ["NameError"], "NameError": ["Exception"], "StopIteration": ["Exception"],
    "Warning": ["Exception"], "Exception": ["BaseException"], "BaseException": [],
    "bitstruct.Error": ["Exception"], "struct.error": ["Exception"],
}


class Site:
    __slots__ = ("func", "node", "exc", "kind", "trigger", "what", "stmt")

    def __init__(self, func: FuncInfo, node: ast.AST, exc: str, kind: str, trigger: str,
                 what: str, stmt: ast.AST):
        self.func = func
        self.node = node
        self.exc = exc
        self.kind = kind
        self.trigger = trigger
        self.what = what
        self.stmt = stmt

    @property
    def loc(self) -> str:
        return f"{self.func.module.rel}:{getattr(self.node, 'lineno', 0)}"

    def ident(self) -> str:
        return f"{self.func.qual}/{self.kind}/{self.exc}/" + " ".join(
            ast.unparse(self.stmt).split())[:60] if self.kind != "use-before-def" else \
            f"{self.func.qual}/{self.kind}/{self.what}"


def _bound_names(t: ast.AST) -> List[str]:
    if isinstance(t, ast.Name):
        return [t.id]
    if isinstance(t, (ast.Tuple, ast.List)):
        out: List[str] = []
        for e in t.elts:
            out += _bound_names(e)
        return out
    if isinstance(t, ast.Starred):
        return _bound_names(t.value)
    return []


class Effects:

    def __init__(self, prog: Program, cg: CallGraph, data_params: Set[str],
                 data_calls: Set[str], cut: Set[str], data_attrs: Optional[Set[str]] = None,
                 state_params: Optional[Set[str]] = None):
        """data_params: parameter names that carry run-time data (wire bytes / user values);
        data_calls: call names whose result is run-time data; cut: function quals not entered."""
        self.prog = prog
        self.cg = cg
        self.data_params = data_params
        self.data_calls = data_calls
        self.cut = cut | {"odxraise", "odxassert", "odxrequire"}
        self.data_attrs = data_attrs or set()
        self.state_params = state_params or set()
        self._own: Dict[str, List[Site]] = {}
        self._cfg: Dict[str, CFG] = {}
        self._names_cache: Dict[str, Set[str]] = {}
        self._len_names: Dict[str, Set[str]] = {}
        self.exc_bases: Dict[str, List[str]] = dict(BUILTIN_BASES)
        for ci in prog.classes_by_mod.values():
            if any(c.name in ("Exception", "Warning") or c.name == "OdxError" for c in
                   prog.mro(ci)) or any(b in ("Exception", "Warning") for b in ci.base_names):
                self.exc_bases[ci.name] = [b.split(".")[-1] for b in ci.base_names]

    # ------------------------------------------------------------ hierarchy
    def is_sub(self, exc: str, base: str) -> bool:
        seen = set()
        stack = [exc]
        while stack:
            c = stack.pop()
            if c == base:
                return True
            if c in seen:
                continue
            seen.add(c)
            stack += self.exc_bases.get(c, ["Exception"] if c not in ("BaseException",) else [])
        return False

    def cfg(self, f: FuncInfo) -> CFG:
        if f.key not in self._cfg:
            self._cfg[f.key] = CFG(f.node)
        return self._cfg[f.key]

    # ------------------------------------------------------------ trigger classes
    def _data_names(self, f: FuncInfo) -> Set[str]:
        """Locals/parameters of f that (may) hold run-time data (flow-insensitive).

        A list built by a comprehension over description objects with a data-dependent
        filter holds description objects; only its *length* is data (``_len_names``)."""
        if f.key in self._names_cache:
            return self._names_cache[f.key]
        names = {p for p in f.params() if p in self.data_params}
        len_names: Set[str] = set()
        self._len_names[f.key] = len_names
        changed = True
        while changed:
            changed = False
            for x in walk_no_nested(f.node):
                tgt: List[ast.AST] = []
                val: Optional[ast.AST] = None
                if isinstance(x, ast.Assign):
                    tgt, val = list(x.targets), x.value
                elif isinstance(x, ast.AnnAssign) and x.value is not None:
                    tgt, val = [x.target], x.value
                elif isinstance(x, ast.AugAssign):
                    tgt, val = [x.target], x.value
                elif isinstance(x, ast.NamedExpr):
                    tgt, val = [x.target], x.value
                elif isinstance(x, (ast.For, ast.comprehension)):
                    tgt, val = [x.target], x.iter
                if val is None:
                    continue
                if isinstance(val, (ast.ListComp, ast.GeneratorExp, ast.SetComp)) and not isinstance(
                        x, (ast.For, ast.comprehension)):
                    gens = val.generators
                    elems_data = self._is_data(val.elt, names, len_names) and not all(
                        isinstance(n, ast.Name) and n.id in {m.id for g in gens
                                                             for m in ast.walk(g.target)
                                                             if isinstance(m, ast.Name)}
                        for n in ast.walk(val.elt) if isinstance(n, ast.Name)) or any(
                            self._is_data(g.iter, names, len_names) for g in gens)
                    filt_data = any(self._is_data(i, names, len_names) for g in gens
                                    for i in g.ifs)
                    if not elems_data:
                        if filt_data:
                            for t in tgt:
                                for n in _bound_names(t):
                                    if n not in len_names:
                                        len_names.add(n)
                                        changed = True
                        continue
                if self._is_data(val, names, len_names):
                    for t in tgt:
                        for n in _bound_names(t):
                            if n not in names:
                                names.add(n)
                                changed = True
        # implicit flows: a local assigned under a data-dependent test carries data in its
        # identity / None-ness (e.g. the case object selected by the decoded switch key)
        try:
            cfg = self.cfg(f)
            changed = True
            rounds = 0
            while changed and rounds < 3:
                changed = False
                rounds += 1
                for x in walk_no_nested(f.node):
                    if isinstance(x, ast.Assign) and id(x) in cfg.of_stmt:
                        tn = [n for t in x.targets for n in _bound_names(t)]
                        if not tn or all(n in names for n in tn):
                            continue
                        for t, _p in cfg.branch_conditions(cfg.of_stmt[id(x)]):
                            if self._is_data(t, names, len_names):
                                for n in tn:
                                    if n not in names:
                                        names.add(n)
                                        changed = True
                                break
        except Exception:
            pass
        self._names_cache[f.key] = names
        return names

    def _is_data(self, e: ast.AST, names: Set[str], len_names: Optional[Set[str]] = None) -> bool:
        len_names = len_names or set()
        if isinstance(e, ast.Name) and e.id in len_names:
            return True  # truthiness of a filtered list
        for n in ast.walk(e):
            if isinstance(n, ast.Call) and call_name(n) == "len" and n.args and isinstance(
                    n.args[0], ast.Name) and n.args[0].id in len_names:
                return True
            if isinstance(n, ast.UnaryOp) and isinstance(n.op, ast.Not) and isinstance(
                    n.operand, ast.Name) and n.operand.id in len_names:
                return True
            if isinstance(n, ast.Name) and n.id in names:
                return True
            if isinstance(n, ast.Attribute) and n.attr in self.data_attrs and isinstance(
                    n.value, ast.Name) and n.value.id in self.state_params:
                return True
            if isinstance(n, ast.Call) and call_name(n) in self.data_calls:
                return True
        return False

    def _trigger(self, f: FuncInfo, tests: List[ast.AST]) -> str:
        names = self._data_names(f)
        ln = self._len_names.get(f.key, set())
        level = "description"
        for t in tests:
            if not self._is_data(t, names, ln):
                continue
            # strip isinstance()/type() sub-expressions and look again
            class Strip(ast.NodeTransformer):
                def visit_Call(self, node):  # noqa: N802
                    if call_name(node) in ("isinstance", "type", "issubclass"):
                        return ast.Constant(True)
                    return self.generic_visit(node)
            import copy
            t2 = Strip().visit(copy.deepcopy(t))
            if self._is_data(t2, names, ln):
                return "value"
            level = "type"
        return level

    # ------------------------------------------------------------ own sites
    def own_sites(self, f: FuncInfo) -> List[Site]:
        if f.key in self._own:
            return self._own[f.key]
        out: List[Site] = []
        cfg = self.cfg(f)

        def conds(st: ast.AST) -> List[ast.AST]:
            """The tests that *decide* the raise: the innermost if/while containing the site,
            plus the tests that control it through early exits (non-nesting).  Outer nesting
            tests only select a configuration and are not part of the trigger."""
            try:
                n = cfg.node_of(st)
            except Exception:
                return []
            allc = [t for t, _p in cfg.branch_conditions(n)]
            nesting = []
            for x in walk_no_nested(f.node):
                if isinstance(x, (ast.If, ast.While)) and any(
                        z is st for b in x.body + x.orelse for z in ast.walk(b)):
                    nesting.append(x)
            nesting.sort(key=lambda i: sum(1 for _ in ast.walk(i)))
            if nesting:
                return [nesting[0].test]
            return allc

        def stmt_of(x: ast.AST) -> ast.AST:
            best = None
            for st in walk_no_nested(f.node):
                if isinstance(st, ast.stmt) and st is not f.node and id(st) in cfg.of_stmt:
                    scope = st
                    if isinstance(st, (ast.If, ast.While)):
                        scope = st.test
                    elif isinstance(st, ast.For):
                        scope = st.iter
                    elif isinstance(st, (ast.Try, ast.With)):
                        continue
                    if any(z is x for z in ast.walk(scope)):
                        best = st
            return best or x
        for x in walk_no_nested(f.node):
            if isinstance(x, ast.Raise):
                if x.exc is None:
                    continue  # re-raise inside a handler: handled by the handler analysis
                e = x.exc.func if isinstance(x.exc, ast.Call) else x.exc
                exc = ast.unparse(e).split(".")[-1]
                if isinstance(e, ast.Name):
                    hv = False
                    for h in walk_no_nested(f.node):
                        if isinstance(h, ast.ExceptHandler) and h.name == e.id and any(
                                z is x for b in h.body for z in ast.walk(b)):
                            hv = True  # re-raise of the caught exception: same class
                            exc = ast.unparse(h.type).split(".")[-1] if h.type is not None and \
                                not isinstance(h.type, ast.Tuple) else "Exception"
                    if not hv and e.id in f.params():
                        exc = "Exception"
                out.append(Site(f, x, exc, "raise", self._trigger(f, conds(x)), ast.unparse(x)[:80],
                                x))
            elif isinstance(x, ast.Assert):
                out.append(Site(f, x, "AssertionError", "assert",
                                self._trigger(f, [x.test]), ast.unparse(x)[:80], x))
            elif isinstance(x, ast.Call):
                nm = call_name(x)
                if nm == "odxraise" and isinstance(x.func, ast.Name):
                    args = list(x.args) + [k.value for k in x.keywords if k.arg == "error_type"]
                    exc = "OdxError"
                    if len(x.args) >= 2:
                        exc = ast.unparse(x.args[1]).split(".")[-1]
                    for k in x.keywords:
                        if k.arg == "error_type":
                            exc = ast.unparse(k.value).split(".")[-1]
                    st = stmt_of(x)
                    out.append(Site(f, x, exc, "odxraise", self._trigger(f, conds(st)),
                                    ast.unparse(x)[:80], st))
                elif nm == "odxassert" and isinstance(x.func, ast.Name):
                    exc = "OdxError"
                    if len(x.args) >= 3:
                        exc = ast.unparse(x.args[2]).split(".")[-1]
                    for k in x.keywords:
                        if k.arg == "error_type":
                            exc = ast.unparse(k.value).split(".")[-1]
                    st = stmt_of(x)
                    out.append(Site(f, x, exc, "odxassert",
                                    self._trigger(f, ([x.args[0]] if x.args else [])),
                                    ast.unparse(x)[:80], st))
                elif nm == "odxrequire" and isinstance(x.func, ast.Name):
                    st = stmt_of(x)
                    out.append(Site(f, x, "OdxError", "odxrequire",
                                    self._trigger(f, ([x.args[0]] if x.args else [])),
                                    ast.unparse(x)[:80], st))
                elif nm == "encode" and isinstance(x.func, ast.Attribute) and (
                        x.args or x.keywords) and not any(
                            k.arg == "errors" and isinstance(k.value, ast.Constant) and
                            k.value.value != "strict" for k in x.keywords) and len(x.args) < 2:
                    # str.encode(codec): characters the codec cannot represent raise
                    # UnicodeEncodeError -- an implicit, value-triggered exception (every codec
                    # but the UTF family is partial; the UTF ones reject lone surrogates)
                    codec = x.args[0] if x.args else [k.value for k in x.keywords
                                                      if k.arg == "encoding"][:1]
                    codec = codec[0] if isinstance(codec, list) and codec else codec
                    recv = x.func.value
                    if codec is not None and not isinstance(recv, ast.Constant) and \
                            self._is_data(recv, self._data_names(f)):
                        out.append(Site(f, x, "UnicodeEncodeError", "implicit", "value",
                                        ast.unparse(x)[:80], stmt_of(x)))
        # `value in <set / frozenset / dict>` hashes the value: TypeError for a list, dict or
        # bytearray -- an implicit, value-triggered exception
        for x in walk_no_nested(f.node):
            if not (isinstance(x, ast.Compare) and len(x.ops) == 1 and isinstance(
                    x.ops[0], (ast.In, ast.NotIn))):
                continue
            c = x.comparators[0]
            # the keys of a dict are hashable: `for k in d: if k in names`
            if isinstance(x.left, ast.Name) and any(
                    isinstance(l_, ast.For) and isinstance(l_.target, ast.Name) and
                    l_.target.id == x.left.id and isinstance(l_.iter, ast.Name) and any(
                        isinstance(i_, ast.Call) and call_name(i_) == "isinstance" and
                        len(i_.args) == 2 and ast.unparse(i_.args[0]) == l_.iter.id and
                        "dict" in ast.unparse(i_.args[1]) for i_ in walk_no_nested(f.node))
                    for l_ in walk_no_nested(f.node)):
                continue
            if self._hashing_container(f, c) and self._is_data(x.left, self._data_names(f)):
                out.append(Site(f, x, "TypeError", "implicit", "value",
                                ast.unparse(x)[:80], stmt_of(x)))
        self._own[f.key] = out
        return out

    def _hashing_container(self, f: FuncInfo, c: ast.AST) -> bool:
        def ctor(v: ast.AST) -> bool:
            return isinstance(v, (ast.Set, ast.SetComp, ast.Dict, ast.DictComp)) or (
                isinstance(v, ast.Call) and call_name(v) in ("set", "frozenset", "dict"))
        if ctor(c):
            return True
        if isinstance(c, ast.Attribute) and isinstance(c.value, ast.Name) and \
                c.value.id == "self" and f.cls is not None:
            for k in self.prog.mro(f.cls):
                for m in k.methods.values():
                    for st in walk_no_nested(m.node):
                        if isinstance(st, (ast.Assign, ast.AnnAssign)) and getattr(
                                st, "value", None) is not None:
                            t = st.targets[0] if isinstance(st, ast.Assign) else st.target
                            if ast.unparse(t) == ast.unparse(c) and ctor(st.value):
                                return True
        if isinstance(c, ast.Name):
            for st in walk_no_nested(f.node):
                if isinstance(st, ast.Assign) and isinstance(st.targets[0], ast.Name) and \
                        st.targets[0].id == c.id and ctor(st.value):
                    return True
        return False

    # ------------------------------------------------------------ handlers
    def _handlers_around(self, f: FuncInfo, node: ast.AST) -> List[List[str]]:
        """For every enclosing try (innermost first) whose *body* contains node: the caught
        class names."""
        out: List[List[str]] = []

        def rec(stmts: List[ast.stmt], stack: List[List[str]]) -> bool:
            for st in stmts:
                if isinstance(st, ast.Try):
                    names: List[str] = []
                    for h in st.handlers:
                        if h.type is None:
                            names.append("BaseException")
                        elif isinstance(h.type, ast.Tuple):
                            names += [ast.unparse(e).split(".")[-1] for e in h.type.elts]
                        else:
                            names.append(ast.unparse(h.type).split(".")[-1])
                    if any(z is node for s in st.body for z in ast.walk(s)):
                        if rec(st.body, [names] + stack):
                            return True
                        out.extend([names] + stack)
                        return True
                    for blk in [h.body for h in st.handlers] + [st.orelse, st.finalbody]:
                        if any(z is node for s in blk for z in ast.walk(s)):
                            if rec(blk, stack):
                                return True
                            out.extend(stack)
                            return True
                else:
                    for fld in ("body", "orelse"):
                        blk = getattr(st, fld, None)
                        if isinstance(blk, list) and blk and isinstance(blk[0], ast.stmt) and not \
                                isinstance(st, (ast.FunctionDef, ast.ClassDef)):
                            if any(z is node for s in blk for z in ast.walk(s)):
                                if rec(blk, stack):
                                    return True
                                out.extend(stack)
                                return True
            return False
        rec(list(f.node.body), [])
        return out

    def caught(self, f: FuncInfo, node: ast.AST, exc: str) -> bool:
        for names in self._handlers_around(f, node):
            if any(self.is_sub(exc, n) for n in names):
                return True
        return False

    # ------------------------------------------------------------ escape
    def escaping(self, entries: Iterable[FuncInfo]) -> List[Tuple[Site, List[str]]]:
        """Sites that can leave one of the entry points, each with a witness call path."""
        entries = list(entries)
        reach: Dict[str, FuncInfo] = {}
        queue = list(entries)
        for e in entries:
            reach[e.key] = e
        while queue:
            f = queue.pop(0)
            if f.qual in self.cut:
                continue
            for s in self.cg.sites(f):
                for g in s.callees:
                    if g.key not in reach:
                        reach[g.key] = g
                        queue.append(g)
        esc: Dict[str, Dict[int, Tuple[Site, List[str]]]] = {k: {} for k in reach}
        for k, f in reach.items():
            if f.qual in self.cut:
                continue
            for s in self.own_sites(f):
                if not self.caught(f, s.node, s.exc):
                    esc[k][id(s)] = (s, [f.qual])
        changed = True
        while changed:
            changed = False
            for k, f in reach.items():
                if f.qual in self.cut:
                    continue
                for cs in self.cg.sites(f):
                    for g in cs.callees:
                        if g.key not in esc:
                            continue
                        for sid, (s, path) in list(esc[g.key].items()):
                            if sid in esc[k]:
                                continue
                            if self.caught(f, cs.node, s.exc):
                                continue
                            esc[k][sid] = (s, [f.qual] + path)
                            changed = True
        out: Dict[int, Tuple[Site, List[str]]] = {}
        for e in entries:
            for sid, (s, path) in esc[e.key].items():
                if sid not in out or len(path) < len(out[sid][1]):
                    out[sid] = (s, path)
        self.reached = reach
        return sorted(out.values(), key=lambda sp: (sp[0].func.module.rel,
                                                    getattr(sp[0].node, "lineno", 0)))
