"""Type inference over the jinja2 templates.

The variables handed to the root templates by ``write_pdx_file`` are typed from the Python
annotations; types flow through attribute accesses (dataclass fields, properties), loops, ``set``
statements and macro calls (argument types are joined over all call sites, to a fixpoint). The
result is, for every attribute access in a template, the class(es) of the receiver -- which is
what makes "is field f of class C written?" decidable per class instead of per name.
"""
from __future__ import annotations

import ast
from typing import Dict, List, Optional, Set, Tuple

from jinja2 import nodes

from .jinjamodel import Template, TemplateModel, _expr_text
from .src import AnalysisError, ClassInfo, Program
from .types import T, TypeEnv, ann_type, attr_type, class_has_attr, classes_of, elem_type

STR: T = ("prim", "str")
JINJA_NAMES = {"loop", "varargs", "kwargs", "caller", "range", "dict", "lipsum", "cycler", "joiner",
               "namespace"}
LIST_FILTERS = {"sort", "list", "reverse", "unique", "select", "reject", "selectattr",
                "rejectattr", "batch", "slice"}


def tkey(t: T) -> str:
    if t is None:
        return "?"
    if t[0] == "cls":
        return "C:" + t[1].name
    if t[0] == "list":
        return "L[" + tkey(t[1]) + "]"
    if t[0] == "dict":
        return "D[" + tkey(t[1]) + "," + tkey(t[2]) + "]"
    if t[0] == "tuple":
        return "T[" + ",".join(tkey(x) for x in t[1]) + "]"
    if t[0] == "union":
        return "U[" + ",".join(sorted(tkey(x) for x in t[1])) + "]"
    if t[0] == "prim":
        return "P:" + t[1]
    if t[0] == "method":
        return "M:" + t[1].key
    return str(t[0])


def members(t: T) -> List[T]:
    if t is None:
        return []
    if t[0] == "union":
        out: List[T] = []
        for x in t[1]:
            out += members(x)
        return out
    return [t]


def join(a: T, b: T) -> T:
    ms: Dict[str, T] = {}
    for x in members(a) + members(b):
        ms.setdefault(tkey(x), x)
    if not ms:
        return None
    vals = [ms[k] for k in sorted(ms)]
    return vals[0] if len(vals) == 1 else ("union", vals)


class Access:
    __slots__ = ("template", "macro", "lineno", "cls", "attr", "ctx", "text")

    def __init__(self, template, macro, lineno, cls, attr, ctx, text):
        self.template, self.macro, self.lineno = template, macro, lineno
        self.cls: ClassInfo = cls
        self.attr, self.ctx, self.text = attr, ctx, text


class TemplateTyper:

    def __init__(self, prog: Program, tm: TemplateModel):
        self.prog = prog
        self.tm = tm
        self.param_types: Dict[Tuple[str, str, str], T] = {}
        self.accesses: Dict[Tuple[str, str, str, str, str], Access] = {}
        self.undefined_names: Dict[Tuple[str, str, str], int] = {}
        self.undefined_attrs: Dict[Tuple[str, str, str], Tuple[int, List[str]]] = {}
        self.untyped: Dict[Tuple[str, str, str], int] = {}
        self.dead_guards: Dict[Tuple[str, str, str], int] = {}
        self.macro_called: Set[Tuple[str, str]] = set()
        # id(expression node) -> where the value comes from, in terms of classes and fields
        # ("DiagService.pos_response_refs[]"), independent of the names used in the template
        self.origin: Dict[int, str] = {}
        self.roots: Dict[str, Dict[str, T]] = {}
        self.globals: Set[str] = set()
        self._subs_cache: Dict[int, List[ClassInfo]] = {}
        self._by_attr: Optional[Dict[str, List[Access]]] = None
        self._root_env()
        self._changed = True
        rounds = 0
        while self._changed and rounds < 12:
            self._changed = False
            rounds += 1
            self._pass()
        self.rounds = rounds

    # ---------------------------------------------------------------- roots
    def _root_env(self) -> None:
        prog = self.prog
        f = prog.func("odxtools.writepdxfile:write_pdx_file")
        env = TypeEnv(prog, f)
        cur: Dict[str, T] = {}
        # walk the statements in order: vars[...] = x / del vars[...] / get_template(...).render
        tpl_vars: Dict[str, str] = {}  # python variable holding a template -> template name

        def visit(stmts):
            for st in stmts:
                if isinstance(st, ast.Assign) and len(st.targets) == 1:
                    tg = st.targets[0]
                    if isinstance(tg, ast.Subscript) and isinstance(tg.value, ast.Name) and \
                            tg.value.id == "vars" and isinstance(tg.slice, ast.Constant):
                        cur[tg.slice.value] = env.type_of(st.value)
                    if isinstance(tg, ast.Subscript) and "globals" in ast.unparse(tg.value) and \
                            isinstance(tg.slice, ast.Constant):
                        self.globals.add(tg.slice.value)
                    if isinstance(tg, ast.Name) and isinstance(st.value, ast.Call) and \
                            isinstance(st.value.func, ast.Attribute) and \
                            st.value.func.attr == "get_template" and st.value.args and \
                            isinstance(st.value.args[0], ast.Constant):
                        tpl_vars[tg.id] = st.value.args[0].value
                if isinstance(st, ast.Delete):
                    for tg in st.targets:
                        if isinstance(tg, ast.Subscript) and isinstance(tg.slice, ast.Constant):
                            cur.pop(tg.slice.value, None)
                for c in ast.walk(st) if not isinstance(st, (ast.For, ast.With, ast.If)) else []:
                    if isinstance(c, ast.Call) and isinstance(c.func, ast.Attribute) and \
                            c.func.attr == "render" and isinstance(c.func.value, ast.Name) and \
                            c.func.value.id in tpl_vars:
                        self.roots[tpl_vars[c.func.value.id]] = dict(cur)
                for fld in ("body", "orelse", "finalbody"):
                    sub = getattr(st, fld, None)
                    if isinstance(sub, list) and sub and isinstance(sub[0], ast.stmt):
                        visit(sub)
        visit(f.node.body)
        if not self.roots:
            raise AnalysisError("write_pdx_file renders no template (anchor vanished)")
        for r, env_ in self.roots.items():
            if r not in self.tm.templates:
                raise AnalysisError(f"root template {r} not found")
            if not any(classes_of(v) for v in env_.values()):
                raise AnalysisError(f"cannot type the render variables of {r}")

    # ---------------------------------------------------------------- passes
    def _pass(self) -> None:
        self.untyped.clear()
        self.dead_guards.clear()
        self.undefined_attrs.clear()
        self.undefined_names.clear()
        for rel, env in self.roots.items():
            t = self.tm.templates[rel]
            if t.ast is None:
                continue
            self._body([n for n in t.ast.body if not isinstance(n, nodes.Macro)], dict(env), t,
                       "<top>")
        for t in self.tm.templates.values():
            if t.ast is None:
                continue
            for m in t.ast.find_all(nodes.Macro):
                env: Dict[str, T] = {}
                for a in m.args:
                    env[a.name] = self.param_types.get((t.rel, m.name, a.name))
                self._body(m.body, env, t, m.name)

    def _body(self, body, env: Dict[str, T], t: Template, macro: str) -> None:
        for n in body:
            self._stmt(n, env, t, macro)

    def _stmt(self, n, env, t, macro) -> None:
        if isinstance(n, nodes.Output):
            for x in n.nodes:
                if not isinstance(x, nodes.TemplateData):
                    self._expr(x, env, t, macro, "use")
        elif isinstance(n, nodes.If):
            before = (set(self.undefined_names), set(self.undefined_attrs))
            self._expr(n.test, env, t, macro, "test")
            if isinstance(n.test, (nodes.Name, nodes.Getattr)):
                new_names = set(self.undefined_names) - before[0]
                new_attrs = set(self.undefined_attrs) - before[1]
                if new_names or new_attrs:
                    # `{% if undefined %}`: Undefined is falsy, the body is dead code
                    for k in new_names:
                        self.dead_guards[(t.rel, macro, k[2])] = self.undefined_names.pop(k)
                    for k in new_attrs:
                        self.dead_guards[(t.rel, macro, k[2])] = self.undefined_attrs.pop(k)[0]
                    for e in n.elif_:
                        self._stmt(e, env, t, macro)
                    self._body(n.else_, env, t, macro)
                    return
            self._body(n.body, env, t, macro)
            for e in n.elif_:
                self._stmt(e, env, t, macro)
            self._body(n.else_, env, t, macro)
        elif isinstance(n, nodes.For):
            it = self._expr(n.iter, env, t, macro, "use")
            et = elem_type(it) if it is not None else None
            for m in members(it):
                if m is not None and m[0] == "tuple":  # `for x in (a, b)`
                    for x in m[1]:
                        et = join(et, x)
            env2 = dict(env)
            env2["loop"] = ("prim", "loop")
            self._bind(n.target, et, env2)
            if isinstance(n.target, nodes.Name):
                o = self.origin.get(id(n.iter))
                if o is None and isinstance(n.iter, nodes.Filter) and n.iter.node is not None:
                    o = self.origin.get(id(n.iter.node))
                env2["@o:" + n.target.name] = (o + "[]") if o else None
            if n.test is not None:
                self._expr(n.test, env2, t, macro, "test")
            self._body(n.body, env2, t, macro)
            self._body(n.else_, env, t, macro)
        elif isinstance(n, nodes.Assign):
            v = self._expr(n.node, env, t, macro, "use")
            self._bind(n.target, v, env)
            if isinstance(n.target, nodes.Name):
                env["@o:" + n.target.name] = self.origin.get(id(n.node))
        elif isinstance(n, nodes.AssignBlock):
            self._body(n.body, env, t, macro)
            self._bind(n.target, STR, env)
        elif isinstance(n, (nodes.With, nodes.Scope, nodes.FilterBlock, nodes.Block)):
            self._body(getattr(n, "body", []), env, t, macro)
        elif isinstance(n, nodes.CallBlock):
            self._expr(n.call, env, t, macro, "use")
            self._body(n.body, env, t, macro)
        elif isinstance(n, nodes.ExprStmt):
            self._expr(n.node, env, t, macro, "use")
        # Import / FromImport / Macro: handled elsewhere

    def _bind(self, target, v: T, env) -> None:
        if isinstance(target, nodes.Name):
            env[target.name] = v
        elif isinstance(target, nodes.Tuple):
            parts: List[T] = []
            for m in members(v):
                if m is not None and m[0] == "tuple":
                    # several tuple shapes (a list of literal tuples): join position-wise
                    for i, x in enumerate(m[1]):
                        if i < len(parts):
                            parts[i] = join(parts[i], x)
                        else:
                            parts.append(x)
            for i, e in enumerate(target.items):
                self._bind(e, parts[i] if i < len(parts) else None, env)

    # ---------------------------------------------------------------- expressions
    def _subclasses(self, ci: ClassInfo) -> List[ClassInfo]:
        if id(ci) not in self._subs_cache:
            self._subs_cache[id(ci)] = self.prog.subclasses(ci, strict=True)
        return self._subs_cache[id(ci)]

    def _getattr(self, recv: T, attr: str, n, t, macro, ctx, text) -> T:
        out: T = None
        cls_members = [m for m in members(recv) if m is not None and m[0] == "cls"]
        found_any = False
        for m in cls_members:
            ci: ClassInfo = m[1]
            hits: List[ClassInfo] = []
            if class_has_attr(self.prog, ci, attr):
                hits = [ci]
            else:
                hits = [s for s in self._subclasses(ci) if class_has_attr(self.prog, s, attr)]
            for h in hits:
                found_any = True
                k = (t.rel, macro, h.name, attr, ctx)
                if k not in self.accesses:
                    self.accesses[k] = Access(t.rel, macro, n.lineno, h, attr, ctx, text)
                at = attr_type(self.prog, h, attr)
                if at is not None and at[0] == "method":
                    at = ("bound", at[1])
                out = join(out, at)
        for m in members(recv):
            if m is None:
                continue
            if m[0] == "dict" and attr in ("items", "values", "keys"):
                found_any = True
                out = join(out, ("dictmethod", attr, m))
            elif m[0] in ("prim", "list", "dict", "tuple", "bound", "dictmethod"):
                found_any = True
        if cls_members and not found_any:
            is_enum = all(m[1].is_enum for m in cls_members)
            if not (is_enum and attr in ("value", "name")):
                k = (t.rel, macro, f"{text}")
                if k not in self.undefined_attrs:
                    self.undefined_attrs[k] = (n.lineno, sorted(m[1].name for m in cls_members))
        if not members(recv):
            k = (t.rel, macro, text)
            self.untyped.setdefault(k, n.lineno)
        return out

    def _call_macro(self, tpl: Template, name: str, c, env, t, macro) -> T:
        mac = tpl.macros.get(name)
        if mac is None:
            return STR
        self.macro_called.add((tpl.rel, name))
        args = [self._expr(a, env, t, macro, "use") for a in c.args]
        kw = {k.key: self._expr(k.value, env, t, macro, "use") for k in c.kwargs}
        for i, p in enumerate(mac.params):
            v = args[i] if i < len(args) else kw.get(p)
            if v is None:
                continue
            key = (tpl.rel, name, p)
            old = self.param_types.get(key)
            new = join(old, v)
            if tkey(new) != tkey(old):
                self.param_types[key] = new
                self._changed = True
        return STR

    def _expr(self, e, env, t: Template, macro: str, ctx: str) -> T:
        if e is None:
            return None
        if isinstance(e, nodes.Const):
            return ("prim", type(e.value).__name__)
        if isinstance(e, nodes.TemplateData):
            return STR
        if isinstance(e, nodes.Name):
            if e.name in env:
                o = env.get("@o:" + e.name)
                if o is None:
                    cl = sorted({m[1].name for m in members(env[e.name])
                                 if m is not None and m[0] == "cls"})
                    o = "<" + "|".join(cl) + ">" if cl else None
                if o is not None:
                    self.origin[id(e)] = o
                return env[e.name]
            if e.name in t.imports or e.name in t.macros or e.name in self.globals or \
                    e.name in JINJA_NAMES:
                return ("prim", "global")
            self.undefined_names.setdefault((t.rel, macro, e.name), e.lineno)
            return None
        if isinstance(e, nodes.Getattr):
            if isinstance(e.node, nodes.Name) and e.node.name in t.imports and \
                    e.node.name not in env:
                return ("prim", "macro")
            recv = self._expr(e.node, env, t, macro, ctx)
            cl = sorted({m[1].name for m in members(recv) if m is not None and m[0] == "cls" and
                         class_has_attr(self.prog, m[1], e.attr)})
            if not cl:
                cl = sorted({s_.name for m in members(recv) if m is not None and m[0] == "cls"
                             for s_ in self._subclasses(m[1])
                             if class_has_attr(self.prog, s_, e.attr)})
            if cl:
                self.origin[id(e)] = "|".join(cl) + "." + e.attr
            elif id(e.node) in self.origin:
                self.origin[id(e)] = self.origin[id(e.node)] + "." + e.attr
            return self._getattr(recv, e.attr, e, t, macro, ctx, _expr_text(e))
        if isinstance(e, nodes.Getitem):
            recv = self._expr(e.node, env, t, macro, ctx)
            if id(e.node) in self.origin:
                self.origin[id(e)] = self.origin[id(e.node)] + "[]"
            self._expr(e.arg, env, t, macro, ctx)
            out: T = None
            for m in members(recv):
                if m is None:
                    continue
                if m[0] == "list":
                    out = join(out, m[1])
                elif m[0] == "dict":
                    out = join(out, m[2])
                elif m[0] == "tuple":
                    if isinstance(e.arg, nodes.Const) and isinstance(e.arg.value, int) and \
                            -len(m[1]) <= e.arg.value < len(m[1]):
                        out = join(out, m[1][e.arg.value])
            return out
        if isinstance(e, nodes.Call):
            fn = e.node
            if isinstance(fn, nodes.Getattr) and isinstance(fn.node, nodes.Name) and \
                    fn.node.name in t.imports and fn.node.name not in env:
                tgt = self.tm.templates.get(t.imports[fn.node.name])
                if tgt is not None and tgt.ast is not None:
                    return self._call_macro(tgt, fn.attr, e, env, t, macro)
                for a in e.args:
                    self._expr(a, env, t, macro, "use")
                return STR
            if isinstance(fn, nodes.Name) and fn.name in t.macros and fn.name not in env:
                return self._call_macro(t, fn.name, e, env, t, macro)
            if isinstance(fn, nodes.Name) and fn.name in ("getattr", "hasattr") and \
                    len(e.args) >= 2 and isinstance(e.args[1], nodes.Const):
                recv = self._expr(e.args[0], env, t, macro, ctx)
                c2 = "test" if fn.name == "hasattr" else ctx
                r = self._getattr(recv, e.args[1].value, e, t, macro, c2,
                                  f"{_expr_text(e.args[0])}.{e.args[1].value}")
                if fn.name == "hasattr":
                    # not an error when no class has it: that is what hasattr is for
                    self.undefined_attrs.pop(
                        (t.rel, macro, f"{_expr_text(e.args[0])}.{e.args[1].value}"), None)
                    return ("prim", "bool")
                if len(e.args) > 2:
                    r = join(r, self._expr(e.args[2], env, t, macro, ctx))
                return r
            ft = self._expr(fn, env, t, macro, ctx)
            for a in e.args:
                self._expr(a, env, t, macro, "use" if ctx == "use" else ctx)
            for k in e.kwargs:
                self._expr(k.value, env, t, macro, ctx)
            out = None
            for m in members(ft):
                if m is None:
                    continue
                if m[0] == "bound":
                    out = join(out, ann_type(self.prog, m[1].module, m[1].node.returns))
                elif m[0] == "dictmethod":
                    d = m[2]
                    if m[1] == "items":
                        out = join(out, ("list", ("tuple", [d[1], d[2]])))
                    elif m[1] == "values":
                        out = join(out, ("list", d[2]))
                    else:
                        out = join(out, ("list", d[1]))
            return out
        if isinstance(e, nodes.Filter):
            v = self._expr(e.node, env, t, macro, ctx) if e.node is not None else None
            for a in e.args:
                self._expr(a, env, t, macro, ctx)
            for k in e.kwargs:
                self._expr(k.value, env, t, macro, ctx)
            if e.name in LIST_FILTERS:
                return v
            if e.name in ("first", "last", "random"):
                return elem_type(v) if v is not None else None
            if e.name in ("default", "d"):
                return join(v, self._expr(e.args[0], env, t, macro, ctx) if e.args else None)
            if e.name in ("length", "count", "int"):
                return ("prim", "int")
            return STR
        if isinstance(e, nodes.Test):
            # `x is true` / `x is false` / `x is sameas(..)` select the output by the VALUE of x:
            # that is a way of writing a small enumeration, not a mere presence test
            vctx = "use" if e.name in ("true", "false", "sameas", "eq", "equalto") else "test"
            self._expr(e.node, env, t, macro, vctx)
            for a in e.args:
                self._expr(a, env, t, macro, "test")
            return ("prim", "bool")
        if isinstance(e, nodes.CondExpr):
            self._expr(e.test, env, t, macro, "test")
            return join(self._expr(e.expr1, env, t, macro, ctx),
                        self._expr(e.expr2, env, t, macro, ctx) if e.expr2 is not None else None)
        if isinstance(e, (nodes.And, nodes.Or)):
            return join(self._expr(e.left, env, t, macro, ctx),
                        self._expr(e.right, env, t, macro, ctx))
        if isinstance(e, nodes.Not):
            self._expr(e.node, env, t, macro, ctx)
            return ("prim", "bool")
        if isinstance(e, nodes.Compare):
            self._expr(e.expr, env, t, macro, ctx)
            for o in e.ops:
                self._expr(o.expr, env, t, macro, ctx)
            return ("prim", "bool")
        if isinstance(e, nodes.Concat):
            for x in e.nodes:
                self._expr(x, env, t, macro, ctx)
            return STR
        if isinstance(e, nodes.BinExpr):
            a = self._expr(e.left, env, t, macro, ctx)
            b = self._expr(e.right, env, t, macro, ctx)
            return a if a is not None else b
        if isinstance(e, nodes.UnaryExpr):
            return self._expr(e.node, env, t, macro, ctx)
        if isinstance(e, nodes.Tuple):
            return ("tuple", [self._expr(x, env, t, macro, ctx) for x in e.items])
        if isinstance(e, nodes.List):
            et: T = None
            for x in e.items:
                et = join(et, self._expr(x, env, t, macro, ctx))
            return ("list", et)
        if isinstance(e, nodes.Dict):
            for p in e.items:
                self._expr(p.key, env, t, macro, ctx)
                self._expr(p.value, env, t, macro, ctx)
            return ("dict", None, None)
        if isinstance(e, nodes.Slice):
            return None
        return None

    # ---------------------------------------------------------------- queries
    def related(self, a: ClassInfo, b: ClassInfo) -> bool:
        return a in self.prog.mro(b) or b in self.prog.mro(a)

    def covered(self, ci: ClassInfo, attr: str) -> Tuple[bool, bool, Optional[Access]]:
        """(used, tested, an access) for attribute ``attr`` on instances of ``ci``."""
        used = tested = False
        ex = None
        if self._by_attr is None:
            self._by_attr = {}
            for a in self.accesses.values():
                self._by_attr.setdefault(a.attr, []).append(a)
        for a in self._by_attr.get(attr, []):
            if not self.related(a.cls, ci):
                continue
            if a.ctx == "use":
                used = True
                ex = a
            else:
                tested = True
                ex = ex or a
        return used, tested, ex
