"""Model of the jinja2 templates of odxtools (parsed, never rendered).

For every template: import aliases, macros (name, parameters), and for every
macro a linear stream of *tokens* — literal XML text and expression outputs —
from which the enclosing element / attribute of every output is recovered.
"""
from __future__ import annotations

import os
import re
from typing import Dict, List, Optional, Set, Tuple

import jinja2
from jinja2 import nodes

from .src import AnalysisError


class Out:
    """One expression output ``{{ expr }}``."""
    __slots__ = ("template", "macro", "lineno", "expr", "text", "paths", "filters", "tag",
                 "attr", "position", "calls")

    def __init__(self):
        self.template = ""
        self.macro = ""
        self.lineno = 0
        self.expr = None
        self.text = ""
        self.paths: List[str] = []  # attribute chains a.b.c
        self.filters: List[str] = []
        self.tag: Optional[str] = None  # enclosing element
        self.attr: Optional[str] = None  # attribute name when in attribute position
        self.position = "?"  # text | attr | tag | other
        self.calls: List[Tuple[str, str, int]] = []  # (alias, macro, nargs)


class Macro:
    def __init__(self, name: str, params: List[str], node, template: str):
        self.name = name
        self.params = params
        self.node = node
        self.template = template
        self.outs: List[Out] = []
        self.tests: List[Tuple[str, int]] = []  # source of if-tests
        self.literal = ""


class Template:
    def __init__(self, rel: str, path: str):
        self.rel = rel
        self.path = path
        self.source = ""
        self.ast = None
        self.error: Optional[str] = None
        self.imports: Dict[str, str] = {}  # alias -> template rel
        self.macros: Dict[str, Macro] = {}
        self.top = None  # pseudo macro for top-level content


def _expr_text(n) -> str:
    """Readable reconstruction of a jinja expression."""
    if isinstance(n, nodes.Name):
        return n.name
    if isinstance(n, nodes.Getattr):
        return f"{_expr_text(n.node)}.{n.attr}"
    if isinstance(n, nodes.Getitem):
        return f"{_expr_text(n.node)}[{_expr_text(n.arg)}]"
    if isinstance(n, nodes.Const):
        return repr(n.value)
    if isinstance(n, nodes.Filter):
        return f"{_expr_text(n.node) if n.node is not None else ''}|{n.name}"
    if isinstance(n, nodes.Call):
        args = ", ".join([_expr_text(a) for a in n.args] +
                         [f"{k.key}={_expr_text(k.value)}" for k in n.kwargs])
        return f"{_expr_text(n.node)}({args})"
    if isinstance(n, nodes.CondExpr):
        return f"{_expr_text(n.expr1)} if {_expr_text(n.test)} else " \
               f"{_expr_text(n.expr2) if n.expr2 is not None else ''}"
    if isinstance(n, nodes.Test):
        return f"{_expr_text(n.node)} is {n.name}"
    if isinstance(n, nodes.Not):
        return f"not {_expr_text(n.node)}"
    if isinstance(n, (nodes.And, nodes.Or)):
        op = "and" if isinstance(n, nodes.And) else "or"
        return f"{_expr_text(n.left)} {op} {_expr_text(n.right)}"
    if isinstance(n, nodes.Compare):
        return _expr_text(n.expr) + "".join(f" {o.op} {_expr_text(o.expr)}" for o in n.ops)
    if isinstance(n, nodes.Concat):
        return " ~ ".join(_expr_text(x) for x in n.nodes)
    if isinstance(n, nodes.BinExpr):
        return f"{_expr_text(n.left)} {n.operator} {_expr_text(n.right)}"
    if isinstance(n, nodes.TemplateData):
        return n.data
    if isinstance(n, nodes.List):
        return "[" + ", ".join(_expr_text(x) for x in n.items) + "]"
    return type(n).__name__


def _paths(n) -> List[str]:
    """All maximal attribute chains in an expression."""
    out: List[str] = []

    def rec(x, top=True):
        if isinstance(x, nodes.Getattr):
            chain = []
            cur = x
            while isinstance(cur, nodes.Getattr):
                chain.append(cur.attr)
                cur = cur.node
            if isinstance(cur, nodes.Name):
                out.append(".".join([cur.name] + chain[::-1]))
            else:
                # chain rooted at a subscript / call: keep the attribute names
                out.append(".".join(["?"] + chain[::-1]))
                rec(cur)
            return
        if isinstance(x, nodes.Name):
            out.append(x.name)
            return
        for c in x.iter_child_nodes():
            rec(c)
    rec(n)
    return out


def _filters(n) -> List[str]:
    out = []
    for x in [n] + list(n.find_all(nodes.Filter)):
        if isinstance(x, nodes.Filter):
            out.append(x.name)
    return out


_TAG_OPEN = re.compile(r"<([A-Za-z][A-Za-z0-9:_-]*)")
_ATTR_EQ = re.compile(r"([A-Za-z][A-Za-z0-9:_-]*)=\"$")


class _Stream:
    """Linearises a macro body into literal text and outputs."""

    def __init__(self, tpl: Template, macro: Macro):
        self.tpl = tpl
        self.m = macro
        self.buf = ""

    def feed(self, body) -> None:
        for n in body:
            self.node(n)

    def node(self, n) -> None:
        if isinstance(n, nodes.Output):
            for x in n.nodes:
                if isinstance(x, nodes.TemplateData):
                    self.buf += x.data
                    self.m.literal += x.data
                else:
                    self.out(x)
        elif isinstance(n, nodes.If):
            self.m.tests.append((_expr_text(n.test), n.lineno))
            self.feed(n.body)
            for e in n.elif_:
                self.node(e)
            self.feed(n.else_)
        elif isinstance(n, nodes.For):
            self.feed(n.body)
            self.feed(n.else_)
        elif isinstance(n, (nodes.With, nodes.Scope, nodes.FilterBlock, nodes.CallBlock)):
            self.feed(getattr(n, "body", []))
        elif isinstance(n, (nodes.Assign, nodes.AssignBlock, nodes.Import, nodes.FromImport,
                            nodes.Macro, nodes.ExprStmt, nodes.Include, nodes.Extends,
                            nodes.Block)):
            if isinstance(n, nodes.Block):
                self.feed(n.body)
        # other statement kinds do not produce output

    def out(self, x) -> None:
        o = Out()
        o.template = self.tpl.rel
        o.macro = self.m.name
        o.lineno = x.lineno
        o.expr = x
        o.text = _expr_text(x)
        o.paths = _paths(x)
        o.filters = _filters(x)
        for c in [x] + list(x.find_all(nodes.Call)):
            if isinstance(c, nodes.Call) and isinstance(c.node, nodes.Getattr) and isinstance(
                    c.node.node, nodes.Name):
                o.calls.append((c.node.node.name, c.node.attr, len(c.args) + len(c.kwargs)))
        b = self.buf
        last_lt = b.rfind("<")
        last_gt = b.rfind(">")
        if last_lt > last_gt:
            # inside a tag
            m = _TAG_OPEN.match(b[last_lt:])
            o.tag = m.group(1) if m else None
            am = _ATTR_EQ.search(b)
            if am and b.rstrip().endswith('="') or (am and b.endswith('="')):
                o.attr = am.group(1)
                o.position = "attr"
            else:
                o.position = "tag"
        else:
            # text position: find the innermost open element
            seg = b[:last_gt + 1] if last_gt >= 0 else ""
            tail = b[last_gt + 1:] if last_gt >= 0 else b
            m = None
            for mm in re.finditer(r"<(/?)([A-Za-z][A-Za-z0-9:_-]*)([^<>]*?)(/?)>", seg):
                m = mm
            if m is not None and not m.group(1) and not m.group(4) and tail.strip() == "":
                o.tag = m.group(2)
                o.position = "text"
            else:
                o.position = "other"
        self.m.outs.append(o)
        # an output inside an attribute value does not close the quote; keep the buffer as is
        self.buf += "\x00"


class TemplateModel:

    def __init__(self, repo: str):
        self.dir = os.path.join(repo, "odxtools", "templates")
        if not os.path.isdir(self.dir):
            raise AnalysisError("odxtools/templates not found")
        self.env = jinja2.Environment()
        self.templates: Dict[str, Template] = {}
        for root, _d, files in os.walk(self.dir):
            for fn in sorted(files):
                if not fn.endswith(".jinja2"):
                    continue
                path = os.path.join(root, fn)
                rel = os.path.relpath(path, self.dir)
                t = Template(rel, path)
                with open(path, encoding="utf-8") as f:
                    t.source = f.read()
                try:
                    t.ast = self.env.parse(t.source)
                except jinja2.TemplateSyntaxError as e:
                    t.error = f"line {e.lineno}: {e.message}"
                self.templates[rel] = t
        for t in self.templates.values():
            if t.ast is None:
                continue
            for imp in t.ast.find_all(nodes.Import):
                if isinstance(imp.template, nodes.Const):
                    t.imports[imp.target] = imp.template.value
            for fi in t.ast.find_all(nodes.FromImport):
                if isinstance(fi.template, nodes.Const):
                    for nm in fi.names:
                        alias = nm[1] if isinstance(nm, tuple) else nm
                        t.imports[alias] = fi.template.value
            for m in t.ast.find_all(nodes.Macro):
                mac = Macro(m.name, [a.name for a in m.args], m, t.rel)
                _Stream(t, mac).feed(m.body)
                t.macros[m.name] = mac
            top = Macro("<top>", [], t.ast, t.rel)
            _Stream(t, top).feed([n for n in t.ast.body if not isinstance(n, nodes.Macro)])
            t.top = top

    # ------------------------------------------------------------- queries
    def all_macros(self) -> List[Macro]:
        out = []
        for t in self.templates.values():
            out += list(t.macros.values())
            if t.top is not None:
                out.append(t.top)
        return out

    def all_outs(self) -> List[Out]:
        return [o for m in self.all_macros() for o in m.outs]

    def emitted_names(self) -> Tuple[Set[str], Set[str]]:
        """(element names, attribute names) that occur literally in the templates or as
        constant first argument of make_xml_attrib / make_bool_xml_attrib."""
        tags: Set[str] = set()
        attrs: Set[str] = set()
        for t in self.templates.values():
            if t.ast is None:
                # fall back to the raw source of an unparseable template
                text = t.source
            else:
                text = "".join(d.data for d in t.ast.find_all(nodes.TemplateData))
            tags |= set(re.findall(r"</?([A-Z][A-Z0-9-]*)", text))
            attrs |= set(re.findall(r"[\s\"]([A-Za-z][A-Za-z0-9:-]*)=\"", text))
            if t.ast is not None:
                for c in t.ast.find_all(nodes.Call):
                    if isinstance(c.node, nodes.Name) and c.node.name in (
                            "make_xml_attrib", "make_bool_xml_attrib") and c.args and isinstance(
                                c.args[0], nodes.Const):
                        attrs.add(c.args[0].value)
                # tag names handed to macros as string constants
                for c in t.ast.find_all(nodes.Const):
                    if isinstance(c.value, str) and re.fullmatch(r"[A-Z][A-Z0-9-]+", c.value):
                        tags.add(c.value)
        return tags, attrs

    def attr_uses(self) -> Tuple[Set[str], Set[str]]:
        """(attribute names used in an output / loop / set / call-argument position,
        attribute names that only occur in tests)."""
        used: Set[str] = set()
        tested: Set[str] = set()
        for t in self.templates.values():
            if t.ast is None:
                continue
            for o in t.ast.find_all(nodes.Output):
                for x in o.nodes:
                    if not isinstance(x, nodes.TemplateData):
                        for g in [x] + list(x.find_all(nodes.Getattr)):
                            if isinstance(g, nodes.Getattr):
                                used.add(g.attr)
            for f in t.ast.find_all(nodes.For):
                for g in [f.iter] + list(f.iter.find_all(nodes.Getattr)):
                    if isinstance(g, nodes.Getattr):
                        used.add(g.attr)
            for a in t.ast.find_all(nodes.Assign):
                for g in [a.node] + list(a.node.find_all(nodes.Getattr)):
                    if isinstance(g, nodes.Getattr):
                        used.add(g.attr)
            for i in t.ast.find_all(nodes.If):
                for g in [i.test] + list(i.test.find_all(nodes.Getattr)):
                    if isinstance(g, nodes.Getattr):
                        tested.add(g.attr)
        return used, tested - used
