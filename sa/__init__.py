"""Static analysis engine for the odxtools verification (see /verif/DESIGN.md).

Nothing in this package imports or executes odxtools; every module works on
the syntax trees of /repo's current working tree.
"""
