"""Statement-level control-flow graph for the statement kinds odxtools uses.

Nodes are simple statements plus one header node per compound statement (the
test of an ``if``/``while``, the iterator of a ``for``, the context expression
of a ``with``).  Two synthetic sinks: EXIT (normal return / falling off the
end) and RAISE (an exception leaves the function).

Repository-specific edge rule: ``odxraise(...)`` continues to the next
statement (non-strict mode) *and* to RAISE (strict mode); ``odxassert`` and
``assert`` likewise.
"""
from __future__ import annotations

import ast
from typing import Callable, Dict, Iterable, List, Optional, Set, Tuple

from .src import AnalysisError, call_name, walk_no_nested

ENTRY = 0
EXIT = 1
RAISE = 2


class Node:
    __slots__ = ("id", "stmt", "kind", "expr")

    def __init__(self, id: int, stmt: Optional[ast.AST], kind: str, expr: Optional[ast.AST] = None):
        self.id = id
        self.stmt = stmt  # the ast statement this node belongs to
        self.kind = kind  # entry/exit/raise/stmt/if/while/for/with/except/join
        self.expr = expr  # the part of the statement evaluated at this node

    def __repr__(self) -> str:  # pragma: no cover
        s = ""
        if self.stmt is not None:
            s = " ".join(ast.unparse(self.expr or self.stmt).split())[:60]
        return f"<{self.id}:{self.kind} L{getattr(self.stmt, 'lineno', '-')} {s}>"


def is_odxraise_stmt(st: ast.AST) -> bool:
    return isinstance(st, ast.Expr) and isinstance(st.value, ast.Call) and call_name(
        st.value) == "odxraise"


def is_odxassert_stmt(st: ast.AST) -> bool:
    return isinstance(st, ast.Expr) and isinstance(st.value, ast.Call) and call_name(
        st.value) == "odxassert"


class CFG:

    def __init__(self, fn: ast.AST, odxraise_continues: bool = True):
        self.fn = fn
        self.odxraise_continues = odxraise_continues
        self.nodes: List[Node] = []
        self.succ: Dict[int, Set[int]] = {}
        self.pred: Dict[int, Set[int]] = {}
        # edge labels for branch edges: (src,dst) -> 'T' / 'F'
        self.label: Dict[Tuple[int, int], str] = {}
        self.of_stmt: Dict[int, int] = {}  # id(ast stmt) -> node id (header for compound)
        for k in ("entry", "exit", "raise"):
            self._new(None, k)
        self._loop_stack: List[Tuple[int, List[int]]] = []  # (header, break sources)
        self._handler_stack: List[List[Tuple[Optional[ast.expr], int]]] = []
        self._finally_stack: List[ast.Try] = []
        ends = self._block(fn.body, [ENTRY])  # type: ignore[attr-defined]
        self._link(ends, EXIT)

    # ------------------------------------------------------------- building
    def _new(self, stmt: Optional[ast.AST], kind: str, expr: Optional[ast.AST] = None) -> int:
        n = Node(len(self.nodes), stmt, kind, expr)
        self.nodes.append(n)
        self.succ[n.id] = set()
        self.pred[n.id] = set()
        return n.id

    def _edge(self, a: int, b: int, label: Optional[str] = None) -> None:
        self.succ[a].add(b)
        self.pred[b].add(a)
        if label:
            self.label[(a, b)] = label

    def _link(self, preds: Iterable, n: int) -> None:
        for p in preds:
            if isinstance(p, tuple):
                self._edge(p[0], n, p[1])
            else:
                self._edge(p, n)

    def _raise_targets(self) -> List[int]:
        """Where an exception raised here may go: all enclosing handlers + RAISE.

        Conservative: every handler of every enclosing try may catch it, and it
        may also escape (unless a bare/Exception handler is present).
        """
        out: List[int] = []
        for handlers in reversed(self._handler_stack):
            catch_all = False
            for typ, hid in handlers:
                out.append(hid)
                if typ is None or (isinstance(typ, ast.Name) and typ.id in ("Exception",
                                                                             "BaseException")):
                    catch_all = True
            if catch_all:
                return out
        out.append(RAISE)
        return out

    def _may_raise_edges(self, n: int) -> None:
        for t in self._raise_targets():
            self._edge(n, t)

    def _block(self, stmts: List[ast.stmt], preds: List) -> List:
        for st in stmts:
            preds = self._stmt(st, preds)
        return preds

    def _has_call(self, node: ast.AST) -> bool:
        return any(isinstance(x, (ast.Call, ast.Subscript, ast.Attribute)) for x in
                   walk_no_nested(node))

    def _stmt(self, st: ast.stmt, preds: List) -> List:
        if isinstance(st, ast.If):
            h = self._new(st, "if", st.test)
            self.of_stmt[id(st)] = h
            self._link(preds, h)
            if self._handler_stack and self._has_call(st.test):
                self._may_raise_edges(h)
            t_end = self._block(st.body, [(h, "T")])
            if st.orelse:
                f_end = self._block(st.orelse, [(h, "F")])
            else:
                f_end = [(h, "F")]
            return t_end + f_end
        if isinstance(st, (ast.While, ast.For, ast.AsyncFor)):
            kind = "while" if isinstance(st, ast.While) else "for"
            h = self._new(st, kind, st.test if isinstance(st, ast.While) else st.iter)
            self.of_stmt[id(st)] = h
            self._link(preds, h)
            if self._handler_stack:
                self._may_raise_edges(h)
            breaks: List[int] = []
            self._loop_stack.append((h, breaks))
            body_end = self._block(st.body, [(h, "T")])
            self._loop_stack.pop()
            self._link(body_end, h)
            out: List = list(breaks)
            infinite = isinstance(st, ast.While) and isinstance(
                st.test, ast.Constant) and st.test.value is True
            if not infinite:
                if st.orelse:
                    out += self._block(st.orelse, [(h, "F")])
                else:
                    out.append((h, "F"))
            return out
        if isinstance(st, (ast.With, ast.AsyncWith)):
            h = self._new(st, "with", st.items[0].context_expr)
            self.of_stmt[id(st)] = h
            self._link(preds, h)
            if self._handler_stack:
                self._may_raise_edges(h)
            return self._block(st.body, [h])
        if isinstance(st, ast.Try):
            return self._try(st, preds)
        if isinstance(st, (ast.FunctionDef, ast.AsyncFunctionDef, ast.ClassDef)):
            n = self._new(st, "stmt")
            self.of_stmt[id(st)] = n
            self._link(preds, n)
            return [n]
        if isinstance(st, ast.Match):  # pragma: no cover
            raise AnalysisError("match statements are not supported by the CFG builder")
        # simple statements
        n = self._new(st, "stmt")
        self.of_stmt[id(st)] = n
        self._link(preds, n)
        if isinstance(st, ast.Return):
            if self._finally_stack:
                # run the finally bodies (inlined copies) then exit
                cur = [n]
                for t in reversed(self._finally_stack):
                    saved = self._finally_stack
                    self._finally_stack = []
                    cur = self._block(t.finalbody, cur)
                    self._finally_stack = saved
                for c in cur:
                    self._link([c], EXIT)
            else:
                self._edge(n, EXIT)
            if self._handler_stack and st.value is not None and self._has_call(st.value):
                self._may_raise_edges(n)
            return []
        if isinstance(st, ast.Raise):
            self._may_raise_edges(n)
            return []
        if isinstance(st, ast.Break):
            if not self._loop_stack:
                raise AnalysisError("break outside loop")
            self._loop_stack[-1][1].append(n)
            return []
        if isinstance(st, ast.Continue):
            if not self._loop_stack:
                raise AnalysisError("continue outside loop")
            self._edge(n, self._loop_stack[-1][0])
            return []
        if is_odxraise_stmt(st) and not self.odxraise_continues:
            self._may_raise_edges(n)
            return []
        if isinstance(st, ast.Assert) or is_odxraise_stmt(st) or is_odxassert_stmt(st):
            self._may_raise_edges(n)
            return [n]
        if self._handler_stack and self._has_call(st):
            self._may_raise_edges(n)
        return [n]

    def _try(self, st: ast.Try, preds: List) -> List:
        handlers: List[Tuple[Optional[ast.expr], int]] = []
        for h in st.handlers:
            hid = self._new(h, "except", h.type)
            self.of_stmt[id(h)] = hid
            handlers.append((h.type, hid))
        j = self._new(st, "try")
        self.of_stmt[id(st)] = j
        self._link(preds, j)
        self._handler_stack.append(handlers)
        if st.finalbody:
            self._finally_stack.append(st)
        body_end = self._block(st.body, [j])
        self._handler_stack.pop()
        if st.orelse:
            body_end = self._block(st.orelse, body_end)
        ends = list(body_end)
        for h, (typ, hid) in zip(st.handlers, handlers):
            ends += self._block(h.body, [hid])
        if st.finalbody:
            self._finally_stack.pop()
            ends = self._block(st.finalbody, ends)
            # exceptional continuation through finally: duplicate
            fin_in = self._new(st, "finally-exc")
            self._edge(j, fin_in)  # conservative: an exception anywhere in the try
            exc_end = self._block(st.finalbody, [fin_in])
            for e in exc_end:
                for t in self._raise_targets():
                    self._link([e], t)
        return ends

    # -------------------------------------------------------------- queries
    def node_of(self, st: ast.AST) -> int:
        k = id(st)
        if k not in self.of_stmt:
            raise AnalysisError(f"statement at line {getattr(st, 'lineno', '?')} not in CFG")
        return self.of_stmt[k]

    def reachable(self, src: int, blocked: Iterable[int] = (), succ: bool = True) -> Set[int]:
        blocked = set(blocked)
        seen: Set[int] = set()
        stack = [src]
        adj = self.succ if succ else self.pred
        while stack:
            n = stack.pop()
            if n in seen:
                continue
            seen.add(n)
            for m in adj[n]:
                if m not in blocked and m not in seen:
                    stack.append(m)
        return seen

    def reachable_from_entry(self) -> Set[int]:
        return self.reachable(ENTRY)

    def must_pass(self, src: int, via: Iterable[int], dst: int) -> bool:
        """Every path src -> dst passes through a node of ``via`` (src itself
        does not count; true when dst is unreachable)."""
        via = set(via)
        if src in via:
            via = via - {src}
        r = set()
        for s in self.succ[src]:
            if s in via:
                continue
            r |= self.reachable(s, blocked=via)
        return dst not in r

    def dominators(self) -> Dict[int, Set[int]]:
        if hasattr(self, "_dom"):
            return self._dom
        reach = self.reachable(ENTRY)
        dom: Dict[int, Set[int]] = {n: set(reach) for n in reach}
        dom[ENTRY] = {ENTRY}
        changed = True
        order = sorted(reach)
        while changed:
            changed = False
            for n in order:
                if n == ENTRY:
                    continue
                ps = [dom[p] for p in self.pred[n] if p in reach]
                new = set.intersection(*ps) if ps else set()
                new = new | {n}
                if new != dom[n]:
                    dom[n] = new
                    changed = True
        self._dom = dom
        return dom

    def dominates(self, a: int, b: int) -> bool:
        d = self.dominators()
        return b in d and a in d[b]

    def postdominates_exit(self, a: int, b: int) -> bool:
        """On every path from b to the *normal* exit, a occurs (b != a)."""
        return self.must_pass(b, [a], EXIT)

    def stmts(self) -> List[Node]:
        return [n for n in self.nodes if n.stmt is not None]

    def branch_conditions(self, n: int) -> List[Tuple[ast.expr, bool]]:
        """Tests that *dominate-and-control* node n: (test, polarity) for every
        ``if``/``while`` header h such that all paths ENTRY->n leave h through
        the same labelled edge."""
        out: List[Tuple[ast.expr, bool]] = []
        dom = self.dominators()
        if n not in dom:
            return out
        for h in dom[n]:
            hn = self.nodes[h]
            if hn.kind not in ("if", "while") or h == n:
                continue
            ts = [s for s in self.succ[h] if self.label.get((h, s)) == "T"]
            fs = [s for s in self.succ[h] if self.label.get((h, s)) == "F"]
            # n reachable only via T edge?
            via_t = any(n in self.reachable(s, blocked=[h]) or s == n for s in ts)
            via_f = any(n in self.reachable(s, blocked=[h]) or s == n for s in fs)
            if via_t and not via_f:
                out.append((hn.expr, True))  # type: ignore[arg-type]
            elif via_f and not via_t:
                out.append((hn.expr, False))  # type: ignore[arg-type]
        return out


def path_conditions(cfg: "CFG", n: int, loop_exits: bool = True) -> List[Tuple[ast.expr, bool]]:
    """branch_conditions(n) without the noise: constant tests (`while True`) and the negative
    side of guards whose body only raises (`if too_short: raise …` does not *select* what
    follows, it rejects)."""
    out = []
    for h in cfg.dominators().get(n, ()):  # same walk as branch_conditions, but with the header
        hn = cfg.nodes[h]
        if hn.kind not in ("if", "while") or h == n:
            continue
        ts = [s for s in cfg.succ[h] if cfg.label.get((h, s)) == "T"]
        fs = [s for s in cfg.succ[h] if cfg.label.get((h, s)) == "F"]
        via_t = any(n in cfg.reachable(s, blocked=[h]) or s == n for s in ts)
        via_f = any(n in cfg.reachable(s, blocked=[h]) or s == n for s in fs)
        if via_t == via_f:
            continue
        test = hn.expr
        if isinstance(test, ast.Constant):
            continue
        if not loop_exits and hn.kind == "while" and via_f:
            continue  # having left a search loop is not a decision about what follows
        st = hn.stmt
        if via_f and isinstance(st, ast.If) and st.body and all(
                isinstance(b, ast.Raise) for b in st.body) and not st.orelse:
            continue
        out.append((test, via_t))
    return out


# ------------------------------------------------------- definite assignment
def _targets(t: ast.AST) -> List[str]:
    if isinstance(t, ast.Name):
        return [t.id]
    if isinstance(t, (ast.Tuple, ast.List)):
        out: List[str] = []
        for e in t.elts:
            out += _targets(e)
        return out
    if isinstance(t, ast.Starred):
        return _targets(t.value)
    return []


def assigned_names(node: Node) -> Set[str]:
    """Local names (certainly) assigned by executing this CFG node."""
    st = node.stmt
    out: Set[str] = set()
    if st is None:
        return out
    scope: ast.AST
    if node.kind in ("if", "while"):
        scope = node.expr  # type: ignore[assignment]
    elif node.kind == "for":
        out |= set(_targets(st.target))  # type: ignore[attr-defined]
        scope = node.expr  # type: ignore[assignment]
    elif node.kind == "with":
        for it in st.items:  # type: ignore[attr-defined]
            if it.optional_vars is not None:
                out |= set(_targets(it.optional_vars))
        scope = node.expr  # type: ignore[assignment]
    elif node.kind == "except":
        if getattr(st, "name", None):
            out.add(st.name)  # type: ignore[attr-defined]
        return out
    elif node.kind in ("try", "finally-exc"):
        return out
    else:
        scope = st
        if isinstance(st, ast.Assign):
            for t in st.targets:
                out |= set(_targets(t))
        elif isinstance(st, ast.AnnAssign):
            if st.value is not None:
                out |= set(_targets(st.target))
        elif isinstance(st, ast.AugAssign):
            out |= set(_targets(st.target))
        elif isinstance(st, (ast.Import, ast.ImportFrom)):
            for al in st.names:
                out.add((al.asname or al.name).split(".")[0])
        elif isinstance(st, (ast.FunctionDef, ast.AsyncFunctionDef, ast.ClassDef)):
            out.add(st.name)
            return out
    # walrus targets that are evaluated unconditionally are hard to tell; a
    # walrus in the top-level test of an if/while or the leftmost operand is
    # certain; we accept all walrus targets of the node (the repository only
    # uses them as `if (x := ...) is not None`).
    if scope is not None:
        for x in walk_no_nested(scope):
            if isinstance(x, ast.NamedExpr) and isinstance(x.target, ast.Name):
                out.add(x.target.id)
    return out


def used_names(node: Node) -> List[ast.Name]:
    st = node.stmt
    if st is None or node.kind in ("except", "try", "finally-exc"):
        return []
    if node.kind in ("if", "while", "for", "with"):
        scope: ast.AST = node.expr  # type: ignore[assignment]
    else:
        scope = st
        if isinstance(st, (ast.FunctionDef, ast.AsyncFunctionDef, ast.ClassDef)):
            return []
    out: List[ast.Name] = []
    comp_bound: Set[str] = set()
    for x in ast.walk(scope):
        if isinstance(x, ast.comprehension):
            comp_bound |= set(_targets(x.target))
        if isinstance(x, ast.Lambda):
            comp_bound |= {a.arg for a in x.args.args}
    for x in ast.walk(scope):
        if isinstance(x, ast.Name) and isinstance(x.ctx, ast.Load) and x.id not in comp_bound:
            out.append(x)
    if isinstance(st, ast.AugAssign) and isinstance(st.target, ast.Name) and node.kind == "stmt":
        out.append(ast.copy_location(ast.Name(st.target.id, ast.Load()), st.target))
    return out


def local_names(fn: ast.AST) -> Set[str]:
    """Names that are local to fn (assigned somewhere, not declared global)."""
    out: Set[str] = set()
    glob: Set[str] = set()
    for x in walk_no_nested(fn):
        if isinstance(x, (ast.Global, ast.Nonlocal)):
            glob |= set(x.names)
        elif isinstance(x, ast.Name) and isinstance(x.ctx, (ast.Store, ast.Del)):
            out.add(x.id)
        elif isinstance(x, ast.ExceptHandler) and x.name:
            out.add(x.name)
        elif isinstance(x, (ast.Import, ast.ImportFrom)) and x is not fn:
            for al in x.names:
                out.add((al.asname or al.name).split(".")[0])
        elif isinstance(x, ast.AnnAssign) and isinstance(x.target, ast.Name):
            out.add(x.target.id)
    # comprehension variables are not function locals
    return out - glob


def use_before_def(fn: ast.AST, cfg: Optional[CFG] = None) -> List[Tuple[str, ast.Name, Node]]:
    """(name, use, node) for every read of a local that is not definitely
    assigned on some path from the entry.  Annotation-only declarations are
    not assignments."""
    cfg = cfg or CFG(fn)
    locs = local_names(fn)
    a = fn.args  # type: ignore[attr-defined]
    params = {x.arg for x in a.posonlyargs + a.args + a.kwonlyargs}
    if a.vararg:
        params.add(a.vararg.arg)
    if a.kwarg:
        params.add(a.kwarg.arg)
    locs -= params
    if not locs:
        return []
    reach = cfg.reachable(ENTRY)
    ALL = frozenset(locs)
    IN: Dict[int, frozenset] = {n: ALL for n in reach}
    OUT: Dict[int, frozenset] = {n: ALL for n in reach}
    IN[ENTRY] = frozenset()
    OUT[ENTRY] = frozenset()
    gen = {n: frozenset(assigned_names(cfg.nodes[n]) & locs) for n in reach}
    changed = True
    order = sorted(reach)
    while changed:
        changed = False
        for n in order:
            if n == ENTRY:
                continue
            ps = [OUT[p] for p in cfg.pred[n] if p in reach]
            i = frozenset.intersection(*ps) if ps else frozenset()
            o = i | gen[n]
            if i != IN[n] or o != OUT[n]:
                IN[n], OUT[n] = i, o
                changed = True
    out: List[Tuple[str, ast.Name, Node]] = []
    for n in order:
        node = cfg.nodes[n]
        if n in (ENTRY, EXIT, RAISE):
            continue
        walrus = set()
        for u in used_names(node):
            if u.id in locs and u.id not in IN[n]:
                # a walrus inside the same node defines before later uses
                if u.id in gen[n] and not (isinstance(node.stmt, (ast.Assign, ast.AugAssign,
                                                                   ast.AnnAssign)) and
                                           node.kind == "stmt" and not _has_walrus(node, u.id)):
                    continue
                out.append((u.id, u, node))
    return out


def _has_walrus(node: Node, name: str) -> bool:
    scope = node.expr if node.kind in ("if", "while", "for", "with") else node.stmt
    for x in ast.walk(scope):  # type: ignore[arg-type]
        if isinstance(x, ast.NamedExpr) and isinstance(x.target, ast.Name) and x.target.id == name:
            return True
    return False


# ------------------------------------------------------- symbolic returns
class _Subst(ast.NodeTransformer):
    def __init__(self, env: Dict[str, ast.AST]):
        self.env = env

    def visit_Name(self, node: ast.Name) -> ast.AST:
        if isinstance(node.ctx, ast.Load) and node.id in self.env:
            return self.env[node.id]
        return node


def _subst(e: ast.AST, env: Dict[str, ast.AST]) -> ast.AST:
    import copy
    return ast.fix_missing_locations(_Subst(env).visit(copy.deepcopy(e)))


def symbolic_returns(fn: ast.AST, max_paths: int = 256
                     ) -> List[Tuple[List[Tuple[ast.expr, bool]], Optional[ast.AST], ast.Return]]:
    """Path-sensitive forward substitution for loop-free functions: for every path
    ENTRY -> return, the returned expression with all local single-name assignments inlined,
    and the branch tests (already substituted) taken on the way. Raises AnalysisError on loops
    or when there are more than ``max_paths`` paths."""
    cfg = CFG(fn)
    for n in cfg.nodes:
        if n.kind in ("while", "for"):
            raise AnalysisError("symbolic_returns: function has a loop")
    out: List[Tuple[List[Tuple[ast.expr, bool]], Optional[ast.AST], ast.Return]] = []
    count = [0]

    def go(nid: int, env: Dict[str, ast.AST], conds: List[Tuple[ast.expr, bool]],
           seen: Tuple[int, ...]) -> None:
        if nid in seen or nid in (EXIT, RAISE):
            return
        node = cfg.nodes[nid]
        seen = seen + (nid,)
        st = node.stmt
        if node.kind == "stmt" and isinstance(st, ast.Return):
            count[0] += 1
            if count[0] > max_paths:
                raise AnalysisError("symbolic_returns: too many paths")
            out.append((conds, _subst(st.value, env) if st.value is not None else None, st))
            return
        if node.kind == "stmt" and isinstance(st, (ast.Assign, ast.AnnAssign)):
            tg = st.targets[0] if isinstance(st, ast.Assign) else st.target
            val = st.value
            if isinstance(tg, ast.Name) and val is not None and (
                    not isinstance(st, ast.Assign) or len(st.targets) == 1):
                env = dict(env)
                env[tg.id] = _subst(val, env)
        elif node.kind == "stmt" and isinstance(st, ast.AugAssign) and isinstance(
                st.target, ast.Name):
            env = dict(env)
            cur = env.get(st.target.id, ast.Name(id=st.target.id, ctx=ast.Load()))
            env[st.target.id] = ast.BinOp(left=cur, op=st.op, right=_subst(st.value, env))
        for s in sorted(cfg.succ[nid]):
            lab = cfg.label.get((nid, s))
            if node.kind == "if" and lab in ("T", "F") and node.expr is not None:
                go(s, env, conds + [(_subst(node.expr, env), lab == "T")], seen)
            else:
                go(s, env, conds, seen)
    go(ENTRY, {}, [], ())
    return out


class SymPath:
    """One path through a loop-free function / block."""
    __slots__ = ("conds", "env", "trace", "ret", "retval", "stores")

    def __init__(self, conds, env, trace, ret, retval=None, stores=()):
        # subscript stores `a[i] = v` in order: (target with i substituted, v substituted)
        self.stores = list(stores)
        self.retval = retval  # the returned expression, earlier assignments substituted
        self.conds = conds    # [(test with earlier assignments substituted, polarity)]
        self.env = env        # final symbolic values: names and attribute targets by text
        self.trace = trace    # the simple statements executed, in order (original nodes)
        self.ret = ret        # the ast.Return that ended the path, or None (fell off the end)


def symbolic_paths(fn: ast.AST, max_paths: int = 512,
                   opaque: Iterable[str] = ()) -> List[SymPath]:
    """Every path ENTRY -> EXIT of a loop-free function with the branch tests taken, the final
    symbolic values of everything assigned (local names and attribute targets such as `self.x`,
    keyed by source text, earlier assignments substituted) and the statements executed.
    Paths that leave through an exception are not reported. Names in ``opaque`` are never
    substituted (they stay visible in tests and values)."""
    import copy
    opaque = set(opaque)
    cfg = CFG(fn)
    # A loop is summarised, not unrolled: everything it assigns becomes an opaque value
    # `__loop__(<line>, '<name>')` and the walk continues at the loop's exits. A loop that
    # contains a `return` cannot be summarised this way.
    loop_exits: Dict[int, Tuple[List[int], List[str]]] = {}
    for n in cfg.nodes:
        if n.kind in ("while", "for"):
            st = n.stmt
            inner = {id(x) for x in ast.walk(st)}
            if any(isinstance(x, (ast.Return, ast.Yield, ast.YieldFrom)) for x in ast.walk(st)):
                raise AnalysisError("symbolic_paths: a loop returns / yields")
            members = {m.id for m in cfg.nodes if m.stmt is not None and id(m.stmt) in inner}
            members.add(n.id)
            exits = sorted({s_ for m in members for s_ in cfg.succ[m]
                            if s_ not in members and s_ != RAISE})
            assigned: List[str] = []
            for x in ast.walk(st):
                tg = None
                if isinstance(x, (ast.Assign,)):
                    for t_ in x.targets:
                        for y in ast.walk(t_):
                            if isinstance(y, (ast.Name, ast.Attribute)) and isinstance(
                                    y.ctx, ast.Store):
                                assigned.append(ast.unparse(y))
                elif isinstance(x, (ast.AugAssign, ast.AnnAssign, ast.NamedExpr)):
                    tg = x.target
                elif isinstance(x, ast.For):
                    tg = x.target
                if tg is not None:
                    for y in ast.walk(tg):
                        if isinstance(y, (ast.Name, ast.Attribute)):
                            assigned.append(ast.unparse(y))
            loop_exits[n.id] = (exits, sorted(set(assigned)))
    out: List[SymPath] = []

    class _S(ast.NodeTransformer):
        def __init__(self, env):
            self.env = env

        def visit_Name(self, node):
            if isinstance(node.ctx, ast.Load) and node.id in self.env:
                return copy.deepcopy(self.env[node.id])
            return node

        def visit_Attribute(self, node):
            if isinstance(node.ctx, ast.Load):
                k = ast.unparse(node)
                if k in self.env:
                    return copy.deepcopy(self.env[k])
            return self.generic_visit(node)

    def sub(e, env):
        return ast.fix_missing_locations(_S(env).visit(copy.deepcopy(e)))

    def go(nid, env, conds, seen, trace, ret, retval=None, stores=()):
        if nid in seen or nid == RAISE:
            return
        if nid == EXIT:
            if len(out) >= max_paths:
                raise AnalysisError("symbolic_paths: too many paths")
            out.append(SymPath(conds, env, trace, ret, retval, stores))
            return
        node = cfg.nodes[nid]
        seen = seen + (nid,)
        st = node.stmt
        if nid in loop_exits:
            exits, assigned = loop_exits[nid]
            env = dict(env)
            for k in assigned:
                if k not in opaque:
                    env[k] = ast.Call(func=ast.Name(id="__loop__", ctx=ast.Load()),
                                      args=[ast.Constant(value=getattr(st, "lineno", 0)),
                                            ast.Constant(value=k)], keywords=[])
            trace = trace + [st]
            for s_ in exits:
                go(s_, env, conds, seen, trace, ret, retval, stores)
            return
        if node.kind == "except" and st is not None:
            trace = trace + [st]  # the ast.ExceptHandler: this path took the exception edge
        if node.kind == "stmt" and st is not None:
            trace = trace + [st]
            if isinstance(st, ast.Return):
                ret = st
                retval = sub(st.value, env) if st.value is not None else None
        if node.kind == "stmt" and isinstance(st, (ast.Assign, ast.AnnAssign)) and \
                st.value is not None:
            tgs = st.targets if isinstance(st, ast.Assign) else [st.target]
            val = sub(st.value, env)
            env = dict(env)
            for tg in tgs:
                if isinstance(tg, (ast.Name, ast.Attribute)) and ast.unparse(tg) not in opaque:
                    env[ast.unparse(tg)] = val
                elif isinstance(tg, ast.Subscript):
                    stores = tuple(stores) + ((ast.unparse(sub(tg, env)), val),)
        elif node.kind == "stmt" and isinstance(st, ast.AugAssign) and isinstance(
                st.target, (ast.Name, ast.Attribute)):
            env = dict(env)
            k = ast.unparse(st.target)
            cur = env.get(k, copy.deepcopy(st.target))
            env[k] = ast.BinOp(left=cur, op=st.op, right=sub(st.value, env))
        for s_ in sorted(cfg.succ[nid]):
            lab = cfg.label.get((nid, s_))
            if node.kind == "if" and lab in ("T", "F") and node.expr is not None:
                go(s_, env, conds + [(sub(node.expr, env), lab == "T")], seen, trace, ret,
                   retval, stores)
            else:
                go(s_, env, conds, seen, trace, ret, retval, stores)
    go(ENTRY, {}, [], (), [], None)
    return out


def symbolic_effects(fn: ast.AST, max_paths: int = 256
                     ) -> List[Tuple[List[Tuple[ast.expr, bool]], Dict[str, ast.AST]]]:
    """(conds, final env) of symbolic_paths."""
    return [(p.conds, p.env) for p in symbolic_paths(fn, max_paths)]


def _as_block_fn(stmts: List[ast.stmt]) -> ast.FunctionDef:
    import copy

    class _LoopExits(ast.NodeTransformer):
        # `continue` / `break` of the enclosing loop end the iteration: a bare return
        def visit_For(self, node):  # nested loops keep their own
            return node
        visit_While = visit_For
        visit_FunctionDef = visit_For
        visit_Lambda = visit_For

        def visit_Continue(self, node):
            return ast.copy_location(ast.Return(value=None), node)
        visit_Break = visit_Continue
    stmts = [_LoopExits().visit(copy.deepcopy(s)) for s in stmts]
    fn = ast.FunctionDef(name="_block", args=ast.arguments(posonlyargs=[], args=[], kwonlyargs=[],
                                                            kw_defaults=[], defaults=[]),
                         body=list(stmts), decorator_list=[], returns=None, type_comment=None,
                         lineno=getattr(stmts[0], "lineno", 0), col_offset=0)
    ast.fix_missing_locations(fn)
    return fn


def symbolic_block_paths(stmts: List[ast.stmt], max_paths: int = 512) -> List[SymPath]:
    """symbolic_paths for one iteration of a loop body (continue / break end the iteration).
    The traces refer to copies of the statements."""
    return symbolic_paths(_as_block_fn(stmts), max_paths)


def symbolic_block(stmts: List[ast.stmt], max_paths: int = 256):
    """symbolic_returns for a statement list (e.g. the body of a loop): loop-carried variables
    and everything defined outside stay free names; `continue` / `break` of the enclosing loop
    appear as bare returns."""
    return symbolic_returns(_as_block_fn(stmts), max_paths)
