"""Annotation-driven expression typing (good enough for the fully annotated odxtools).

Types are small tuples:
  ('cls', ClassInfo) | ('list', T) | ('dict', K, V) | ('tuple', [T...]) | ('union', [T...])
  | ('prim', name) | None (unknown)
"""
from __future__ import annotations

import ast
from typing import Dict, List, Optional, Tuple

from .src import ClassInfo, FuncInfo, Module, Program, walk_no_nested

T = Optional[tuple]

_LISTS = {"List", "list", "NamedItemList", "ItemAttributeList", "Iterable", "Sequence", "Set",
          "set", "Collection", "Iterator", "FrozenSet", "Generator", "AsyncGenerator"}
_PRIMS = {"int", "str", "bytes", "bool", "float", "bytearray", "None", "Any", "object"}


def ann_type(prog: Program, mod: Module, ann: Optional[ast.AST]) -> T:
    if ann is None:
        return None
    if isinstance(ann, ast.Constant) and isinstance(ann.value, str):
        try:
            return ann_type(prog, mod, ast.parse(ann.value, mode="eval").body)
        except SyntaxError:
            return None
    if isinstance(ann, ast.Constant) and ann.value is None:
        return ("prim", "None")
    if isinstance(ann, (ast.Name, ast.Attribute)):
        name = ast.unparse(ann)
        last = name.split(".")[-1]
        if last in _PRIMS:
            return ("prim", last)
        ci = prog.resolve_class_name(mod, name)
        if ci is not None:
            return ("cls", ci)
        return None
    if isinstance(ann, ast.Subscript):
        base = ast.unparse(ann.value).split(".")[-1]
        sl = ann.slice
        args = list(sl.elts) if isinstance(sl, ast.Tuple) else [sl]
        if base == "Optional":
            return ann_type(prog, mod, args[0])
        if base == "Union":
            ts = [ann_type(prog, mod, a) for a in args]
            ts = [t for t in ts if t is not None and t != ("prim", "None")]
            if len(ts) == 1:
                return ts[0]
            return ("union", ts) if ts else None
        if base in _LISTS:
            return ("list", ann_type(prog, mod, args[0]))
        if base in ("Dict", "dict", "Mapping", "DefaultDict", "OrderedDict"):
            return ("dict", ann_type(prog, mod, args[0]),
                    ann_type(prog, mod, args[1]) if len(args) > 1 else None)
        if base in ("Tuple", "tuple"):
            return ("tuple", [ann_type(prog, mod, a) for a in args])
        if base in ("Type", "type"):
            return ("type", ann_type(prog, mod, args[0]))
        if base in ("Final", "ClassVar", "Annotated"):
            return ann_type(prog, mod, args[0])
        ci = prog.resolve_class_name(mod, ast.unparse(ann.value))
        if ci is not None:
            return ("cls", ci)
        return None
    if isinstance(ann, ast.BinOp) and isinstance(ann.op, ast.BitOr):
        ts = [ann_type(prog, mod, ann.left), ann_type(prog, mod, ann.right)]
        ts = [t for t in ts if t is not None and t != ("prim", "None")]
        if len(ts) == 1:
            return ts[0]
        return ("union", ts) if ts else None
    return None


def classes_of(t: T) -> List[ClassInfo]:
    if t is None:
        return []
    if t[0] == "cls":
        return [t[1]]
    if t[0] == "union":
        out: List[ClassInfo] = []
        for x in t[1]:
            out += classes_of(x)
        return out
    return []


def elem_type(t: T) -> T:
    if t is None:
        return None
    if t[0] == "list":
        return t[1]
    if t[0] == "dict":
        return t[1]
    if t[0] == "union":
        es = [elem_type(x) for x in t[1]]
        es = [e for e in es if e is not None]
        return es[0] if len(es) == 1 else (("union", es) if es else None)
    return None


def attr_type(prog: Program, ci: ClassInfo, attr: str) -> T:
    fa = prog.field_annotation(ci, attr)
    if fa is not None:
        return ann_type(prog, fa[1].module, fa[0])
    m = prog.lookup(ci, attr)
    if m is not None:
        if m.is_property or "cached_property" in m.decorators:
            return ann_type(prog, m.module, m.node.returns)
        return ("method", m)
    # instance attributes assigned in methods with an annotation: self.x: T = ...
    for c in prog.mro(ci):
        for meth in c.methods.values():
            for x in walk_no_nested(meth.node):
                if isinstance(x, ast.AnnAssign) and isinstance(x.target, ast.Attribute) and \
                        x.target.attr == attr and isinstance(x.target.value, ast.Name) and \
                        x.target.value.id == "self":
                    return ann_type(prog, c.module, x.annotation)
    # ... or without one: self.x = <typed expression>
    key = (id(ci), attr)
    if key in _ATTR_GUARD:
        return None
    _ATTR_GUARD.add(key)
    try:
        for c in prog.mro(ci):
            for meth in c.methods.values():
                for x in walk_no_nested(meth.node):
                    if isinstance(x, ast.Assign) and len(x.targets) == 1 and isinstance(
                            x.targets[0], ast.Attribute) and x.targets[0].attr == attr and \
                            isinstance(x.targets[0].value, ast.Name) and \
                            x.targets[0].value.id == "self" and not (
                                isinstance(x.value, ast.Constant) and x.value.value is None):
                        t = _env_for(prog, meth).type_of(x.value)
                        if t is not None and t != ("list", None):
                            return t
    finally:
        _ATTR_GUARD.discard(key)
    return None


_ATTR_GUARD: set = set()
_ENV_CACHE: Dict[str, "TypeEnv"] = {}


def _env_for(prog: Program, f: FuncInfo) -> "TypeEnv":
    if f.key not in _ENV_CACHE:
        _ENV_CACHE[f.key] = TypeEnv(prog, f)
    return _ENV_CACHE[f.key]


class TypeEnv:
    """Flow-insensitive local type environment of one function."""

    def __init__(self, prog: Program, f: FuncInfo):
        self.prog = prog
        self.f = f
        self.mod = f.module
        self.vars: Dict[str, T] = {}
        a = f.node.args
        allargs = a.posonlyargs + a.args + a.kwonlyargs
        for i, x in enumerate(allargs):
            if i == 0 and f.cls is not None and not f.is_static and x.arg in ("self", "cls"):
                self.vars[x.arg] = ("cls", f.cls) if x.arg == "self" else ("type", ("cls", f.cls))
            else:
                self.vars[x.arg] = ann_type(prog, self.mod, x.annotation)
        # two passes so that later definitions can use earlier ones
        for _ in range(2):
            for x in walk_no_nested(f.node):
                if isinstance(x, ast.AnnAssign) and isinstance(x.target, ast.Name):
                    self.vars[x.target.id] = ann_type(prog, self.mod, x.annotation)
                elif isinstance(x, ast.Assign) and len(x.targets) == 1:
                    t = x.targets[0]
                    if isinstance(t, ast.Name) and self.vars.get(t.id) in (None, ("list", None)):
                        nt = self.type_of(x.value)
                        if nt is not None or t.id not in self.vars:
                            self.vars[t.id] = nt
                    elif isinstance(t, ast.Tuple):
                        vt = self.type_of(x.value)
                        if vt is not None and vt[0] == "tuple":
                            for e, et in zip(t.elts, vt[1]):
                                if isinstance(e, ast.Name) and self.vars.get(e.id) is None:
                                    self.vars[e.id] = et
                elif isinstance(x, (ast.For, ast.AsyncFor)):
                    self._bind_target(x.target, elem_type(self.type_of(x.iter)), x.iter)
                elif isinstance(x, ast.comprehension):
                    self._bind_target(x.target, elem_type(self.type_of(x.iter)), x.iter)
                elif isinstance(x, ast.NamedExpr) and isinstance(x.target, ast.Name):
                    if self.vars.get(x.target.id) is None:
                        self.vars[x.target.id] = self.type_of(x.value)
            # comprehension variables live in nested scopes that walk_no_nested does visit
            # (comprehensions are not function definitions)

    def _bind_target(self, target: ast.AST, et: T, it: ast.AST) -> None:
        if isinstance(target, ast.Name):
            if self.vars.get(target.id) is None and et is not None:
                self.vars[target.id] = et
            elif target.id not in self.vars:
                self.vars[target.id] = et
        elif isinstance(target, ast.Tuple):
            # enumerate(x) / zip / items()
            if isinstance(it, ast.Call) and isinstance(it.func, ast.Name) and \
                    it.func.id == "enumerate" and it.args and len(target.elts) == 2:
                self._bind_target(target.elts[0], ("prim", "int"), it)
                self._bind_target(target.elts[1], elem_type(self.type_of(it.args[0])), it)
            elif et is not None and et[0] == "tuple":
                for e, t in zip(target.elts, et[1]):
                    self._bind_target(e, t, it)

    def type_of(self, e: ast.AST) -> T:
        prog = self.prog
        if isinstance(e, ast.Name):
            if e.id in self.vars:
                return self.vars[e.id]
            ci = prog.resolve_class_name(self.mod, e.id)
            if ci is not None:
                return ("type", ("cls", ci))
            return None
        if isinstance(e, ast.Attribute):
            bt = self.type_of(e.value)
            outs = []
            if bt is not None and bt[0] == "type":
                bt = bt[1]  # static / class method or class attribute access through the class
            for ci in classes_of(bt):
                t = attr_type(prog, ci, e.attr)
                if t is not None:
                    outs.append(t)
            if len(outs) == 1:
                return outs[0]
            if outs:
                if all(o == outs[0] for o in outs):
                    return outs[0]
                return ("union", outs)
            return None
        if isinstance(e, ast.Call):
            ft = self.type_of(e.func)
            if ft is not None and ft[0] == "type":
                return ft[1]
            if ft is not None and ft[0] == "method":
                m: FuncInfo = ft[1]
                return ann_type(prog, m.module, m.node.returns)
            if isinstance(e.func, ast.Name):
                n = e.func.id
                if n in ("odxrequire", "cast"):
                    if n == "cast" and len(e.args) == 2:
                        return ann_type(prog, self.mod, e.args[0])
                    return self.type_of(e.args[0]) if e.args else None
                if n in ("list", "sorted", "reversed", "tuple", "set"):
                    return self.type_of(e.args[0]) if e.args else None
                if n == "NamedItemList":
                    return self.type_of(e.args[0]) if e.args else ("list", None)
                if n in ("len", "int", "id"):
                    return ("prim", "int")
                if n == "str":
                    return ("prim", "str")
                g = prog.module_func(self.mod, n)
                if g is not None:
                    return ann_type(prog, g.module, g.node.returns)
            if isinstance(e.func, ast.Attribute) and e.func.attr in ("get", "pop"):
                bt = self.type_of(e.func.value)
                if bt is not None and bt[0] == "dict":
                    return bt[2]
                if bt is not None and bt[0] == "list":
                    return bt[1]
            if isinstance(e.func, ast.Attribute) and e.func.attr in ("values",):
                bt = self.type_of(e.func.value)
                if bt is not None and bt[0] == "dict":
                    return ("list", bt[2])
                if bt is not None and bt[0] == "list":
                    return bt
            if isinstance(e.func, ast.Attribute) and e.func.attr == "items":
                bt = self.type_of(e.func.value)
                if bt is not None and bt[0] == "dict":
                    return ("list", ("tuple", [bt[1], bt[2]]))
            return None
        if isinstance(e, ast.Subscript):
            bt = self.type_of(e.value)
            if bt is None:
                return None
            if isinstance(e.slice, ast.Slice):
                return bt
            if bt[0] == "list":
                return bt[1]
            if bt[0] == "dict":
                return bt[2]
            if bt[0] == "tuple":
                k = e.slice
                if isinstance(k, ast.Constant) and isinstance(k.value, int) and \
                        -len(bt[1]) <= k.value < len(bt[1]):
                    return bt[1][k.value]
            return None
        if isinstance(e, (ast.List, ast.ListComp, ast.GeneratorExp, ast.SetComp)):
            if isinstance(e, ast.List):
                return ("list", self.type_of(e.elts[0]) if e.elts else None)
            return ("list", self.type_of(e.elt))
        if isinstance(e, ast.IfExp):
            return self.type_of(e.body) or self.type_of(e.orelse)
        if isinstance(e, ast.BoolOp):
            for v in e.values:
                t = self.type_of(v)
                if t is not None:
                    return t
            return None
        if isinstance(e, ast.NamedExpr):
            return self.type_of(e.value)
        if isinstance(e, ast.Constant):
            return ("prim", type(e.value).__name__)
        if isinstance(e, ast.Await):
            return self.type_of(e.value)
        return None


_OWN_ATTRS: Dict[int, set] = {}


def _own_attrs(c: ClassInfo) -> set:
    s = _OWN_ATTRS.get(id(c))
    if s is None:
        s = set(c.methods) | {n for n, _a, _d in c.fields}
        for m in c.methods.values():
            for x in walk_no_nested(m.node):
                if isinstance(x, ast.Attribute) and isinstance(x.ctx, ast.Store) and \
                        isinstance(x.value, ast.Name) and x.value.id == "self":
                    s.add(x.attr)
        _OWN_ATTRS[id(c)] = s
    return s


def class_has_attr(prog: Program, ci: ClassInfo, name: str) -> bool:
    """``name`` is a field, property, method or self-assigned attribute of ci (MRO)."""
    return any(name in _own_attrs(c) for c in prog.mro(ci))


# ------------------------------------------------------------ Optional value types (G5)
_VALUE_TOKENS = {"int", "float", "str", "bytes", "bytearray", "AtomicOdxType", "ParameterValue",
                 "ComplexValue"}


def _members(ann: ast.AST) -> List[ast.AST]:
    if isinstance(ann, ast.Constant) and isinstance(ann.value, str):
        try:
            return _members(ast.parse(ann.value, mode="eval").body)
        except SyntaxError:
            return [ann]
    if isinstance(ann, ast.Subscript):
        base = ast.unparse(ann.value).split(".")[-1]
        sl = ann.slice
        args = list(sl.elts) if isinstance(sl, ast.Tuple) else [sl]
        if base == "Optional":
            return _members(args[0]) + [ast.Constant(None)]
        if base == "Union":
            out: List[ast.AST] = []
            for a in args:
                out += _members(a)
            return out
    if isinstance(ann, ast.BinOp) and isinstance(ann.op, ast.BitOr):
        return _members(ann.left) + _members(ann.right)
    return [ann]


def is_optional_value_annotation(ann: Optional[ast.AST]) -> bool:
    """Optional[T] where T admits falsy *values* (0, 0.0, '', b'')."""
    if ann is None:
        return False
    ms = _members(ann)
    has_none = any(isinstance(m, ast.Constant) and m.value is None for m in ms)
    has_value = any(isinstance(m, (ast.Name, ast.Attribute)) and
                    ast.unparse(m).split(".")[-1] in _VALUE_TOKENS for m in ms)
    return has_none and has_value


def annotation_of(env: "TypeEnv", e: ast.AST, depth: int = 0) -> Optional[ast.AST]:
    """Declared annotation (AST) of an expression, if it can be determined."""
    prog, f = env.prog, env.f
    if depth > 4:
        return None
    if isinstance(e, ast.NamedExpr):
        return annotation_of(env, e.value, depth + 1)
    if isinstance(e, ast.IfExp):
        parts = [e.body, e.orelse]
        none = [p for p in parts if isinstance(p, ast.Constant) and p.value is None]
        rest = [p for p in parts if p not in none]
        if rest:
            a = annotation_of(env, rest[0], depth + 1)
            if a is not None and none and not is_optional_value_annotation(a):
                return ast.Subscript(ast.Name("Optional", ast.Load()), a, ast.Load())
            return a
        return None
    if isinstance(e, ast.Name):
        a = f.param_annotation(e.id)
        if a is not None:
            return a
        defs = []
        for x in walk_no_nested(f.node):
            if isinstance(x, ast.AnnAssign) and isinstance(x.target, ast.Name) and \
                    x.target.id == e.id:
                return x.annotation
            if isinstance(x, ast.Assign) and len(x.targets) == 1 and isinstance(
                    x.targets[0], ast.Name) and x.targets[0].id == e.id:
                defs.append(x.value)
            if isinstance(x, ast.NamedExpr) and isinstance(x.target, ast.Name) and \
                    x.target.id == e.id:
                defs.append(x.value)
        if len(defs) == 1:
            return annotation_of(env, defs[0], depth + 1)
        if len(defs) > 1:
            # several definitions (e.g. the two arms of an if/else): the declared type of the
            # non-None ones, made Optional when one arm assigns None
            none = [d for d in defs if isinstance(d, ast.Constant) and d.value is None]
            anns = [annotation_of(env, d, depth + 1) for d in defs if d not in none]
            anns = [a for a in anns if a is not None]
            if anns and all(ast.unparse(a) == ast.unparse(anns[0]) for a in anns):
                a = anns[0]
                if none and not is_optional_value_annotation(a):
                    return ast.Subscript(ast.Name("Optional", ast.Load()), a, ast.Load())
                return a
        return None
    if isinstance(e, ast.Attribute):
        for ci in classes_of(env.type_of(e.value)):
            fa = prog.field_annotation(ci, e.attr)
            if fa is not None:
                return fa[0]
            m = prog.lookup(ci, e.attr)
            if m is not None and (m.is_property or "cached_property" in m.decorators):
                return m.node.returns
        # an attribute that is only ever assigned (`self._x = None` ... `self._x = f(...)`):
        # the union of what is assigned to it
        if isinstance(e.value, ast.Name) and e.value.id == "self" and depth < 3:
            for ci in classes_of(env.type_of(e.value)):
                defs = []
                for c in prog.mro(ci):
                    for m in c.methods.values():
                        for st in walk_no_nested(m.node):
                            if isinstance(st, (ast.Assign, ast.AnnAssign)) and getattr(
                                    st, "value", None) is not None:
                                tg = st.targets[0] if isinstance(st, ast.Assign) else st.target
                                if isinstance(tg, ast.Attribute) and tg.attr == e.attr and \
                                        isinstance(tg.value, ast.Name) and tg.value.id == "self":
                                    if isinstance(st, ast.AnnAssign):
                                        return st.annotation
                                    defs.append((m, st.value))
                none = [d for _m, d in defs if isinstance(d, ast.Constant) and d.value is None]
                anns = []
                for m, d in defs:
                    if isinstance(d, ast.Constant) and d.value is None:
                        continue
                    a = annotation_of(TypeEnv(prog, m), d, depth + 1)
                    if a is not None:
                        anns.append(a)
                if anns and all(ast.unparse(a) == ast.unparse(anns[0]) for a in anns):
                    a = anns[0]
                    if none and not is_optional_value_annotation(a):
                        return ast.Subscript(ast.Name("Optional", ast.Load()), a, ast.Load())
                    return a
        return None
    if isinstance(e, ast.Call):
        if isinstance(e.func, ast.Attribute) and e.func.attr == "get" and len(e.args) <= 1:
            bt = annotation_of(env, e.func.value, depth + 1)
            if bt is not None and isinstance(bt, ast.Subscript) and ast.unparse(
                    bt.value).split(".")[-1] in ("Dict", "dict", "Mapping"):
                sl = bt.slice
                if isinstance(sl, ast.Tuple) and len(sl.elts) == 2:
                    return ast.Subscript(ast.Name("Optional", ast.Load()), sl.elts[1], ast.Load())
            if ast.unparse(e.func.value) in ("physical_value", "param_dict", "kwargs"):
                return ast.parse("Optional[ParameterValue]", mode="eval").body
        ft = env.type_of(e.func)
        if ft is not None and ft[0] == "method":
            return ft[1].node.returns
        if isinstance(e.func, ast.Name):
            g = prog.module_func(env.mod, e.func.id)
            if g is not None:
                return g.node.returns
    return None
