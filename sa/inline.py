"""Undoing extract-refactorings before the rules run.

``sa/local_names.json`` records, for the tree the rules were written for, every function
(``functions``), the locals of each function (``locals``) and the module-level names of each
module (``globals``). Whatever a later tree has *in addition* and what is a pure naming device is
folded back, so that a rule sees the shape it was written for:

* a **new local** with a single simple definition (`n = a + b`, `(x, y) = d[k]`) is substituted
  into its uses and the assignment is dropped (hoisted sub-expressions, explaining temporaries);
* a **new module-level constant** (`_INTEGER_TYPES = (...)`) is substituted into its uses;
* a call of a **new helper** (module function, method or nested function that the reference
  tree does not have) is replaced by the helper's body when the helper is an expression
  (`return <expr>`, optionally behind `if c: return …` steps) or a straight-line procedure whose
  only `return` is its last statement.

All of this is analysis-only: evaluation order and multiplicity of sub-expressions change, which
no rule looks at. A construct that does not fit one of the shapes above is left alone.
"""
from __future__ import annotations

import ast
import copy
import re
from typing import Dict, List, Optional, Set, Tuple


# ------------------------------------------------------------------ helpers on the AST
def _blocks(node: ast.AST):
    """every statement list below node (not entering nested function / class scopes)"""
    for fld in ("body", "orelse", "finalbody"):
        b = getattr(node, fld, None)
        if isinstance(b, list) and b and isinstance(b[0], ast.stmt):
            yield b
            for st in b:
                if isinstance(st, (ast.FunctionDef, ast.AsyncFunctionDef, ast.ClassDef)):
                    continue
                yield from _blocks(st)
    if isinstance(node, ast.Try):
        for h in node.handlers:
            yield h.body
            for st in h.body:
                if not isinstance(st, (ast.FunctionDef, ast.AsyncFunctionDef, ast.ClassDef)):
                    yield from _blocks(st)


def _walk_scope(node: ast.AST):
    """ast.walk without entering nested function / class / lambda scopes"""
    todo = [node]
    while todo:
        n = todo.pop()
        yield n
        for c in ast.iter_child_nodes(n):
            if isinstance(c, (ast.FunctionDef, ast.AsyncFunctionDef, ast.ClassDef, ast.Lambda)):
                continue
            todo.append(c)


class _SubstNames(ast.NodeTransformer):
    def __init__(self, env: Dict[str, ast.AST]):
        self.env = env

    def visit_Name(self, node: ast.Name) -> ast.AST:
        if isinstance(node.ctx, ast.Load) and node.id in self.env:
            return copy.deepcopy(self.env[node.id])
        return node

    def _skip(self, node: ast.AST) -> ast.AST:
        return node
    visit_FunctionDef = _skip
    visit_AsyncFunctionDef = _skip
    visit_ClassDef = _skip


def _uses_in_nested(fn: ast.AST, name: str) -> bool:
    for n in ast.walk(fn):
        if n is fn:
            continue
        if isinstance(n, (ast.FunctionDef, ast.AsyncFunctionDef, ast.ClassDef, ast.Lambda)):
            for x in ast.walk(n):
                if isinstance(x, ast.Name) and x.id == name:
                    return True
    return False


_PURE_CALLS = {"len", "int", "str", "bytes", "bytearray", "range", "isinstance", "min", "max",
               "sorted", "list", "tuple", "set", "dict", "bool", "abs", "repr", "float",
               "enumerate", "zip", "sum", "any", "all", "getattr", "hasattr", "cast", "type",
               "id", "round", "hex", "frozenset", "reversed", "iter", "chain", "startswith",
               "endswith", "get", "keys", "values", "items", "index", "count", "join", "split",
               "strip", "lower", "upper", "format", "hex", "is_integer", "bit_length",
               "to_bytes", "from_bytes", "odxrequire", "issubclass", "find", "findtext",
               "iterfind", "findall", "copy", "isidentifier", "replace", "odxstr_to_bool"}


def _root(e: ast.AST) -> Optional[str]:
    while isinstance(e, (ast.Attribute, ast.Subscript, ast.Call)):
        e = e.func if isinstance(e, ast.Call) else e.value
    return e.id if isinstance(e, ast.Name) else None


def _effects(node: ast.AST, roots: Set[str], attrs: Set[str]) -> bool:
    """May evaluating ``node`` change what a definition with the given root objects / attribute
    names reads?  A store to an attribute or item of a root (or to an attribute of that name of
    anything), a call -- outside a short list of pure ones -- that is made on a root or is
    handed a root object, a yield."""
    for x in ast.walk(node):
        if isinstance(x, ast.Call):
            nm = x.func.attr if isinstance(x.func, ast.Attribute) else (
                x.func.id if isinstance(x.func, ast.Name) else "")
            if nm in _PURE_CALLS:
                continue
            if isinstance(x.func, ast.Attribute) and _root(x.func.value) in roots:
                return True
            for a_ in list(x.args) + [k.value for k in x.keywords]:
                for y in ([a_.value] if isinstance(a_, ast.Starred) else [a_]):
                    ys = y.elts if isinstance(y, (ast.Tuple, ast.List)) else [y]
                    if any(isinstance(z, ast.Name) and z.id in roots for z in ys):
                        return True
        if isinstance(x, (ast.Attribute, ast.Subscript)) and isinstance(
                x.ctx, (ast.Store, ast.Del)):
            if _root(x) in roots or (isinstance(x, ast.Attribute) and x.attr in attrs):
                return True
        if isinstance(x, (ast.Yield, ast.YieldFrom, ast.Await)):
            return True
    return False


def _moved_across_effects(stmts: List[ast.stmt], names: Set[str], roots: Set[str],
                          attrs: Set[str]) -> bool:
    dirty = False
    for s2 in stmts:
        loads = [x for x in _walk_scope(s2) if isinstance(x, ast.Name) and x.id in names and
                 isinstance(x.ctx, ast.Load)]
        if loads:
            if dirty:
                return True
            if isinstance(s2, (ast.If, ast.While, ast.For, ast.With, ast.Try)):
                header = [getattr(s2, a) for a in ("test", "iter") if hasattr(s2, a)]
                header += [it.context_expr for it in getattr(s2, "items", [])]
                in_header = {id(x) for h in header for x in ast.walk(h)}
                body_loads = [x for x in loads if id(x) not in in_header]
                parts: List[ast.stmt] = []
                for a in ("body", "orelse", "finalbody"):
                    parts += getattr(s2, a, []) or []
                for h in getattr(s2, "handlers", []) or []:
                    parts += h.body
                if body_loads:
                    if any(_effects(h, roots, attrs) for h in header):
                        return True
                    if isinstance(s2, ast.If):
                        # the two branches are alternatives, not a sequence
                        if _moved_across_effects(s2.body, names, roots, attrs) or \
                                _moved_across_effects(s2.orelse, names, roots, attrs):
                            return True
                    elif _moved_across_effects(parts, names, roots, attrs):
                        return True
                    if isinstance(s2, (ast.While, ast.For)) and any(
                            _effects(p_, roots, attrs) for p_ in parts):
                        return True  # a later iteration reads after this one's effects
                elif isinstance(s2, ast.While) and any(_effects(p_, roots, attrs) for p_ in parts):
                    return True  # the loop test is evaluated again after the body
        if _effects_reaching_next(s2, roots, attrs):
            dirty = True
    return False


def _effects_reaching_next(st: ast.stmt, roots: Set[str], attrs: Set[str]) -> bool:
    """Effects of ``st`` that the statement after it can observe: a branch that ends in
    return / raise / continue / break does not reach it."""
    if isinstance(st, ast.If):
        if _effects(st.test, roots, attrs):
            return True
        for br in (st.body, st.orelse):
            if br and isinstance(br[-1], (ast.Return, ast.Raise, ast.Continue, ast.Break)):
                continue
            if any(_effects_reaching_next(s_, roots, attrs) for s_ in br):
                return True
        return False
    return _effects(st, roots, attrs)


# ------------------------------------------------------------------ new temporaries
def inline_temporaries(fn: ast.AST, new_names: Set[str]) -> int:
    """Substitute every name of ``new_names`` that has exactly one simple definition."""
    done = 0
    progress = True
    while progress:
        progress = False
        for block in list(_blocks(fn)):
            for i, st in enumerate(block):
                tgt = val = None
                if isinstance(st, ast.Assign) and len(st.targets) == 1:
                    tgt, val = st.targets[0], st.value
                elif isinstance(st, ast.AnnAssign) and st.value is not None:
                    tgt, val = st.target, st.value
                if tgt is None:
                    continue
                env: Dict[str, ast.AST] = {}
                if isinstance(tgt, ast.Name) and tgt.id in new_names:
                    env[tgt.id] = val
                elif isinstance(tgt, (ast.Tuple, ast.List)) and tgt.elts and all(
                        isinstance(e, ast.Name) and e.id in new_names for e in tgt.elts):
                    if isinstance(val, (ast.Tuple, ast.List)) and len(val.elts) == len(tgt.elts):
                        for e, v in zip(tgt.elts, val.elts):
                            env[e.id] = v  # type: ignore[attr-defined]
                    else:
                        for k, e in enumerate(tgt.elts):
                            env[e.id] = ast.Subscript(  # type: ignore[attr-defined]
                                value=copy.deepcopy(val), slice=ast.Constant(value=k),
                                ctx=ast.Load())
                if not env:
                    continue
                ok = True
                for nm in env:
                    stores = [x for x in _walk_scope(fn) if isinstance(x, ast.Name) and
                              x.id == nm and isinstance(x.ctx, (ast.Store, ast.Del))]
                    if len(stores) != 1 or _uses_in_nested(fn, nm):
                        ok = False
                        break
                    loads = [x for x in _walk_scope(fn) if isinstance(x, ast.Name) and
                             x.id == nm and isinstance(x.ctx, ast.Load)]
                    later = set()
                    for s2 in block[i + 1:]:
                        for x in _walk_scope(s2):
                            later.add(id(x))
                        # nested scopes were excluded above
                    if not loads or any(id(x) not in later for x in loads):
                        ok = False
                        break
                    # a fresh container that is used more than once (or mutated) has an
                    # identity: `acc = []; acc.append(a); f(acc)` is not `[].append(a); f([])`
                    if isinstance(env[nm], (ast.List, ast.Dict, ast.Set, ast.ListComp,
                                            ast.DictComp, ast.SetComp)) and len(loads) > 1:
                        ok = False
                        break
                    # ... and so has what a constructor hands out (`ctx = Ctx() if c is None
                    # else c` used three times is ONE object)
                    if len(loads) > 1 and any(
                            isinstance(x, ast.Call) and isinstance(x.func, ast.Name) and
                            x.func.id.lstrip("_")[:1].isupper()
                            for x in ast.walk(env[nm])):
                        ok = False
                        break
                if not ok:
                    continue
                # names of the definition that are rebound later would change its meaning
                rhs_names = {x.id for v in env.values() for x in ast.walk(v)
                             if isinstance(x, ast.Name)}
                # unsafe only if a use of the temporary comes after (or loops around) a
                # rebinding of a name its definition mentions
                rebound = False
                stored_before = False
                for s2 in block[i + 1:]:
                    has_store = any(isinstance(x, ast.Name) and isinstance(x.ctx, ast.Store) and
                                    x.id in rhs_names for x in _walk_scope(s2))
                    has_load = any(isinstance(x, ast.Name) and isinstance(x.ctx, ast.Load) and
                                   x.id in env for x in _walk_scope(s2))
                    if has_load and stored_before:
                        rebound = True
                    if has_load and has_store and isinstance(s2, (ast.For, ast.While)):
                        rebound = True
                    if has_store:
                        stored_before = True
                if rebound:
                    continue
                # a definition that reads the heap (attribute, item, call result) must not be
                # moved across something that may change the heap: `c = s.cursor; item.decode(s);
                # if s.cursor <= c` compares two different values
                if any(isinstance(x, (ast.Attribute, ast.Subscript, ast.Call))
                       for v in env.values() for x in ast.walk(v)) and \
                        _moved_across_effects(
                            block[i + 1:], set(env), rhs_names,
                            {x.attr for v in env.values() for x in ast.walk(v)
                             if isinstance(x, ast.Attribute)}):
                    continue
                sub = _SubstNames(env)
                for j in range(i + 1, len(block)):
                    block[j] = sub.visit(block[j])
                del block[i]
                if not block:
                    block.append(ast.Pass())
                done += 1
                progress = True
                break
            if progress:
                break
    if done:
        ast.fix_missing_locations(fn)
    return done


# ------------------------------------------------------------------ enumerate / zip loops
def normalise_index_loops(fn: ast.AST, new_names: Set[str]) -> int:
    """`for i, x in enumerate(L)` (x a new local) -> `for i in range(len(L))` with x := L[i];
    `for a, b in zip(L, L[1:])` -> `for i in range(0, len(L) - 1): a = L[i]; b = L[i + 1]`
    (also under enumerate). Pure loop-header idioms; the rules were written for index loops."""
    n = 0
    used = {x.id for x in _walk_scope(fn) if isinstance(x, ast.Name)}

    def adjacent(call: ast.AST):
        if isinstance(call, ast.Call) and isinstance(call.func, ast.Name) and \
                call.func.id == "zip" and len(call.args) == 2 and not call.keywords:
            a, b = call.args
            if isinstance(b, ast.Subscript) and isinstance(b.slice, ast.Slice) and \
                    b.slice.upper is None and b.slice.step is None and isinstance(
                        b.slice.lower, ast.Constant) and b.slice.lower.value == 1 and \
                    ast.unparse(b.value) == ast.unparse(a):
                return a
        return None
    for block in list(_blocks(fn)):
        for k, st in enumerate(block):
            if not isinstance(st, ast.For) or st.orelse:
                continue
            it = st.iter
            tgt = st.target
            seq = None
            idx = None
            pair = None
            if isinstance(it, ast.Call) and isinstance(it.func, ast.Name) and \
                    it.func.id == "enumerate" and len(it.args) == 1 and not it.keywords and \
                    isinstance(tgt, ast.Tuple) and len(tgt.elts) == 2 and isinstance(
                        tgt.elts[0], ast.Name):
                idx = tgt.elts[0].id
                inner = it.args[0]
                adj = adjacent(inner)
                if adj is not None and isinstance(tgt.elts[1], ast.Tuple) and len(
                        tgt.elts[1].elts) == 2 and all(isinstance(e, ast.Name)
                                                       for e in tgt.elts[1].elts):
                    seq, pair = adj, [e.id for e in tgt.elts[1].elts]
                elif isinstance(tgt.elts[1], ast.Name) and tgt.elts[1].id in new_names:
                    # plain enumerate: substitute the element variable
                    x = tgt.elts[1].id
                    if any(isinstance(y, ast.Name) and y.id == x and isinstance(y.ctx, ast.Store)
                           for b_ in st.body for y in _walk_scope(b_)):
                        continue
                    elem = ast.Subscript(value=copy.deepcopy(inner),
                                         slice=ast.Name(id=idx, ctx=ast.Load()), ctx=ast.Load())
                    sub = _SubstNames({x: elem})
                    st.body = [sub.visit(b_) for b_ in st.body]
                    st.target = ast.Name(id=idx, ctx=ast.Store())
                    st.iter = ast.Call(func=ast.Name(id="range", ctx=ast.Load()), args=[
                        ast.Call(func=ast.Name(id="len", ctx=ast.Load()),
                                 args=[copy.deepcopy(inner)], keywords=[])], keywords=[])
                    n += 1
                    continue
            else:
                adj = adjacent(it)
                if adj is not None and isinstance(tgt, ast.Tuple) and len(tgt.elts) == 2 and all(
                        isinstance(e, ast.Name) for e in tgt.elts):
                    seq, pair = adj, [e.id for e in tgt.elts]
                    idx = "i" if "i" not in used else "_zi"
                    used.add(idx)
            if seq is None or pair is None or idx is None:
                continue
            pre = [ast.Assign(targets=[ast.Name(id=pair[0], ctx=ast.Store())],
                              value=ast.Subscript(value=copy.deepcopy(seq), slice=ast.Name(
                                  id=idx, ctx=ast.Load()), ctx=ast.Load())),
                   ast.Assign(targets=[ast.Name(id=pair[1], ctx=ast.Store())],
                              value=ast.Subscript(value=copy.deepcopy(seq), slice=ast.BinOp(
                                  left=ast.Name(id=idx, ctx=ast.Load()), op=ast.Add(),
                                  right=ast.Constant(value=1)), ctx=ast.Load()))]
            for p_ in pre:
                ast.copy_location(p_, st)
            st.body = pre + st.body
            st.target = ast.Name(id=idx, ctx=ast.Store())
            st.iter = ast.Call(func=ast.Name(id="range", ctx=ast.Load()), args=[
                ast.Constant(value=0),
                ast.BinOp(left=ast.Call(func=ast.Name(id="len", ctx=ast.Load()),
                                        args=[copy.deepcopy(seq)], keywords=[]),
                          op=ast.Sub(), right=ast.Constant(value=1))], keywords=[])
            n += 1
    if n:
        ast.fix_missing_locations(fn)
    return n


def normalise_filter_loops(fn: ast.AST, new_names: Set[str], ref_names: Set[str]) -> int:
    """`for x in [y for y in L if c(y)]: body`  ->  `for x in L: if c(x): body` (the filtered
    list only existed to be iterated). When x is a new local and y is a name the reference
    function uses, the loop variable takes the name y (unless y is read after the loop)."""
    n = 0
    for block in list(_blocks(fn)):
        for st in block:
            if not isinstance(st, ast.For) or st.orelse or not isinstance(st.target, ast.Name):
                continue
            it = st.iter
            while isinstance(it, ast.Call) and isinstance(it.func, ast.Name) and it.func.id in (
                    "list", "tuple") and len(it.args) == 1 and not it.keywords:
                it = it.args[0]
            if not isinstance(it, (ast.ListComp, ast.GeneratorExp)) or len(it.generators) != 1:
                continue
            g = it.generators[0]
            if not isinstance(g.target, ast.Name) or not isinstance(it.elt, ast.Name) or \
                    it.elt.id != g.target.id or not g.ifs or g.is_async:
                continue
            x, y = st.target.id, g.target.id
            name = x
            if x in new_names and y in ref_names and y != x:
                end = getattr(st, "end_lineno", st.lineno)
                later = any(isinstance(z, ast.Name) and z.id == y and isinstance(z.ctx, ast.Load)
                            and getattr(z, "lineno", 0) > end for z in _walk_scope(fn))
                inside = any(isinstance(z, ast.Name) and z.id == y for b_ in st.body
                             for z in ast.walk(b_))
                if not later and not inside:
                    name = y
            test: ast.AST = g.ifs[0] if len(g.ifs) == 1 else ast.BoolOp(op=ast.And(),
                                                                       values=list(g.ifs))
            test = _SubstNames({y: ast.Name(id=name, ctx=ast.Load())}).visit(copy.deepcopy(test))
            body = st.body
            if name != x:
                body = [_SubstNames({x: ast.Name(id=name, ctx=ast.Load())}).visit(b_)
                        for b_ in body]
                if any(isinstance(z, ast.Name) and z.id == x and isinstance(z.ctx, ast.Store)
                       for b_ in body for z in ast.walk(b_)):
                    continue
            guard = ast.If(test=test, body=body, orelse=[])
            ast.copy_location(guard, st)
            st.target = ast.Name(id=name, ctx=ast.Store())
            st.iter = g.iter
            st.body = [guard]
            n += 1
    if n:
        ast.fix_missing_locations(fn)
    return n


# ------------------------------------------------------------------ new module constants
_MUTATORS = {"append", "extend", "add", "update", "setdefault", "pop", "popitem", "clear",
             "remove", "insert", "discard", "sort", "reverse", "__setitem__", "__delitem__"}


def _mutated(tree: ast.Module, name: str, val: ast.AST) -> bool:
    """a module-level list / dict / set that is written to is state (a memo, a registry), not a
    constant: it must stay visible to the rules"""
    if not isinstance(val, (ast.List, ast.Set, ast.Dict)):
        return False
    if isinstance(val, ast.Dict) and not val.keys or isinstance(val, (ast.List, ast.Set)) and \
            not val.elts:
        return True  # an empty container at module level exists to be filled
    for x in ast.walk(tree):
        if isinstance(x, ast.Subscript) and isinstance(x.value, ast.Name) and \
                x.value.id == name and isinstance(x.ctx, (ast.Store, ast.Del)):
            return True
        if isinstance(x, ast.Call) and isinstance(x.func, ast.Attribute) and isinstance(
                x.func.value, ast.Name) and x.func.value.id == name and \
                x.func.attr in _MUTATORS:
            return True
        if isinstance(x, ast.AugAssign) and isinstance(x.target, ast.Name) and \
                x.target.id == name:
            return True
        if isinstance(x, ast.Global) and name in x.names:
            return True
    return False


def inline_module_constants(tree: ast.Module, new_names: Set[str]) -> int:
    env: Dict[str, ast.AST] = {}
    keep = []
    for st in tree.body:
        tgt = val = None
        if isinstance(st, ast.Assign) and len(st.targets) == 1:
            tgt, val = st.targets[0], st.value
        elif isinstance(st, ast.AnnAssign) and st.value is not None:
            tgt, val = st.target, st.value
        if isinstance(tgt, ast.Name) and tgt.id in new_names and isinstance(
                val, (ast.Tuple, ast.List, ast.Set, ast.Dict, ast.Constant)) and not any(
                    isinstance(x, ast.Name) and x.id in new_names for x in ast.walk(val)):
            stores = [x for x in ast.walk(tree) if isinstance(x, ast.Name) and x.id == tgt.id and
                      isinstance(x.ctx, (ast.Store, ast.Del))]
            if len(stores) == 1 and not _mutated(tree, tgt.id, val):
                env[tgt.id] = val
                continue
        keep.append(st)
    if not env:
        return 0

    class _All(ast.NodeTransformer):
        def visit_Name(self, node: ast.Name) -> ast.AST:
            if isinstance(node.ctx, ast.Load) and node.id in env:
                return copy.deepcopy(env[node.id])
            return node
    tree.body = [_All().visit(st) for st in keep]
    ast.fix_missing_locations(tree)
    return len(env)


# ------------------------------------------------------------------ comprehensions over tables
class _UnrollComps(ast.NodeTransformer):
    """{k: v for a, b in (<literal rows>)} -> {k1: v1, k2: v2, ...}; f(**{'a': x}) -> f(a=x)"""

    def __init__(self) -> None:
        self.n = 0

    @staticmethod
    def _rows(gen: ast.comprehension) -> Optional[List[Dict[str, ast.AST]]]:
        if gen.ifs or gen.is_async or not isinstance(gen.iter, (ast.Tuple, ast.List)) or \
                len(gen.iter.elts) > 16:
            return None
        out = []
        for row in gen.iter.elts:
            if isinstance(gen.target, ast.Name):
                out.append({gen.target.id: row})
            elif isinstance(gen.target, (ast.Tuple, ast.List)) and all(
                    isinstance(e, ast.Name) for e in gen.target.elts) and isinstance(
                        row, (ast.Tuple, ast.List)) and len(row.elts) == len(gen.target.elts):
                out.append({e.id: r for e, r in zip(gen.target.elts, row.elts)})  # type: ignore
            else:
                return None
        return out

    def visit_DictComp(self, node: ast.DictComp) -> ast.AST:
        self.generic_visit(node)
        if len(node.generators) != 1:
            return node
        rows = self._rows(node.generators[0])
        if rows is None:
            return node
        self.n += 1
        b = _Beta()
        return ast.copy_location(ast.Dict(
            keys=[b.visit(_SubstNames(r).visit(copy.deepcopy(node.key))) for r in rows],
            values=[b.visit(_SubstNames(r).visit(copy.deepcopy(node.value))) for r in rows]),
            node)

    def visit_ListComp(self, node: ast.ListComp) -> ast.AST:
        self.generic_visit(node)
        if len(node.generators) != 1:
            return node
        rows = self._rows(node.generators[0])
        if rows is None or not isinstance(node.generators[0].target, (ast.Tuple, ast.List)):
            return node
        self.n += 1
        b = _Beta()
        return ast.copy_location(ast.List(
            elts=[b.visit(_SubstNames(r).visit(copy.deepcopy(node.elt))) for r in rows],
            ctx=ast.Load()), node)

    def visit_Call(self, node: ast.Call) -> ast.AST:
        self.generic_visit(node)
        # next((E for a, b in (<literal rows>) if C), D)  ->  E1 if C1 else (E2 if C2 else D)
        if isinstance(node.func, ast.Name) and node.func.id == "next" and len(node.args) == 2 \
                and not node.keywords and isinstance(node.args[0], ast.GeneratorExp) and len(
                    node.args[0].generators) == 1 and len(node.args[0].generators[0].ifs) == 1:
            g = node.args[0].generators[0]
            cond = g.ifs[0]
            g2 = ast.comprehension(target=g.target, iter=g.iter, ifs=[], is_async=0)
            rows = self._rows(g2)
            if rows is not None:
                self.n += 1
                out: ast.AST = node.args[1]
                b = _Beta()
                for r in reversed(rows):
                    out = ast.IfExp(
                        test=b.visit(_SubstNames(r).visit(copy.deepcopy(cond))),
                        body=b.visit(_SubstNames(r).visit(copy.deepcopy(node.args[0].elt))),
                        orelse=out)
                return ast.copy_location(out, node)
        kws = []
        changed = False
        for k in node.keywords:
            if k.arg is None and isinstance(k.value, ast.Dict) and k.value.keys and all(
                    isinstance(kk, ast.Constant) and isinstance(kk.value, str) and
                    kk.value.isidentifier() for kk in k.value.keys):
                kws += [ast.keyword(arg=kk.value, value=vv)  # type: ignore[union-attr]
                        for kk, vv in zip(k.value.keys, k.value.values)]
                changed = True
            else:
                kws.append(k)
        if changed:
            self.n += 1
            node.keywords = kws
        return node


def unroll_table_comprehensions(tree: ast.Module) -> int:
    tr = _UnrollComps()
    tree.body = [tr.visit(s_) for s_ in tree.body]
    if tr.n:
        ast.fix_missing_locations(tree)
    return tr.n


# ------------------------------------------------------------------ flag tests
def fold_flag_tests(fn: ast.AST) -> int:
    """`if c: X; v = K1  else: Y; v = K2` directly followed by `if <test of v>: S [else: T]`:
    the second test is decided at the end of every branch of the first statement, so S / T move
    there (tail duplication).  This turns the flag / Optional protocol of an inlined helper
    (`ok = helper(); if not ok: return`) back into the early exits it replaced."""
    done = 0

    def leaf_blocks(st: ast.stmt, facts: List[Tuple[str, bool]]):
        """(block whose last statement decides, block to extend, facts) for every way in which
        control leaves `st` at its end.  What is appended behind the body of a `try` goes into
        its `else` part: it must not come under the handlers."""
        if isinstance(st, ast.If):
            t = ast.unparse(st.test)
            for br, pol in ((st.body, True), (st.orelse, False)):
                f2 = facts + [(t, pol)]
                if not br:
                    yield None, None, f2  # empty else: falls through without assignment
                elif isinstance(br[-1], (ast.If, ast.Try)):
                    yield from leaf_blocks(br[-1], f2)
                else:
                    yield br, br, f2
        elif isinstance(st, ast.Try) and not st.finalbody:
            for h in st.handlers:
                br = h.body
                if not br:
                    yield None, None, facts
                elif isinstance(br[-1], (ast.If, ast.Try)):
                    yield from leaf_blocks(br[-1], facts)
                else:
                    yield br, br, facts
            br = st.orelse or st.body
            if not br:
                yield None, None, facts
            elif isinstance(br[-1], (ast.If, ast.Try)) and st.orelse:
                yield from leaf_blocks(br[-1], facts)
            elif isinstance(br[-1], (ast.If, ast.Try)):
                yield None, None, facts  # nested statement at the end of a try body: leave it
            else:
                yield br, st.orelse, facts  # st.orelse is extended in place (created empty)

    def decide(test: ast.AST, v: str, last: Optional[ast.stmt],
               facts: List[Tuple[str, bool]]) -> Optional[bool]:
        if last is None or not (isinstance(last, ast.Assign) and len(last.targets) == 1 and
                                isinstance(last.targets[0], ast.Name) and
                                last.targets[0].id == v):
            return None
        val = last.value
        neg = False
        t = test
        while isinstance(t, ast.UnaryOp) and isinstance(t.op, ast.Not):
            t, neg = t.operand, not neg
        res: Optional[bool] = None

        def member(e: ast.AST) -> Optional[str]:
            # `Kind.MEMBER`: a constant of a class (enum member)
            if isinstance(e, ast.Attribute) and isinstance(e.value, ast.Name) and \
                    e.value.id.lstrip("_")[:1].isupper() and e.attr.isupper():
                return ast.unparse(e)
            return None
        if member(val) is not None and isinstance(t, ast.Compare) and len(t.ops) == 1 and \
                isinstance(t.left, ast.Name) and t.left.id == v:
            other = t.comparators[0]
            if member(other) is not None and isinstance(t.ops[0], (ast.Is, ast.Eq)):
                res = member(other) == member(val)
            elif member(other) is not None and isinstance(t.ops[0], (ast.IsNot, ast.NotEq)):
                res = member(other) != member(val)
            elif isinstance(other, (ast.Tuple, ast.List, ast.Set)) and all(
                    member(e_) is not None for e_ in other.elts) and isinstance(
                        t.ops[0], (ast.In, ast.NotIn)):
                res = (member(val) in {member(e_) for e_ in other.elts}) == isinstance(
                    t.ops[0], ast.In)
            if res is not None:
                return (not res) if neg else res
        is_ctor = isinstance(val, ast.Call) and isinstance(val.func, ast.Name) and \
            val.func.id.lstrip("_")[:1].isupper()
        if (is_ctor or isinstance(val, (ast.JoinedStr, ast.List, ast.Tuple, ast.Dict, ast.Set,
                                        ast.ListComp, ast.DictComp, ast.SetComp))) and \
                isinstance(t, ast.Compare) and \
                len(t.ops) == 1 and isinstance(t.left, ast.Name) and t.left.id == v and \
                isinstance(t.comparators[0], ast.Constant) and t.comparators[0].value is None \
                and isinstance(t.ops[0], (ast.Is, ast.IsNot)):
            res = isinstance(t.ops[0], ast.IsNot)  # such a value is never None
        elif isinstance(val, ast.Constant):
            if isinstance(t, ast.Name) and t.id == v:
                res = bool(val.value)
            elif isinstance(t, ast.Compare) and len(t.ops) == 1 and isinstance(
                    t.left, ast.Name) and t.left.id == v and isinstance(
                        t.comparators[0], ast.Constant) and t.comparators[0].value is None:
                if isinstance(t.ops[0], ast.Is):
                    res = val.value is None
                elif isinstance(t.ops[0], ast.IsNot):
                    res = val.value is not None
        elif isinstance(val, ast.Name):
            txt = ast.unparse(_SubstNames({v: val}).visit(copy.deepcopy(t)))
            for ft, pol in facts:
                if ft == txt:
                    res = pol
                elif ft == f"not {txt}" or ft == f"not ({txt})":
                    res = not pol
        if res is None:
            return None
        return (not res) if neg else res

    for block in list(_blocks(fn)):
        i = 0
        while i + 1 < len(block):
            a, b = block[i], block[i + 1]
            if isinstance(a, ast.Assign) and len(a.targets) == 1 and isinstance(
                    a.targets[0], ast.Name) and isinstance(b, ast.If):
                d0 = decide(b.test, a.targets[0].id, a, [])
                nm0 = {x.id for x in ast.walk(b.test) if isinstance(x, ast.Name)
                       and not x.id.lstrip("_")[:1].isupper()}
                if d0 is not None and nm0 == {a.targets[0].id}:
                    new0 = b.body if d0 else b.orelse
                    block[i + 1:i + 2] = new0
                    done += 1
                    continue
            if not (isinstance(a, (ast.If, ast.Try)) and isinstance(b, ast.If)):
                i += 1
                continue
            names = {x.id for x in ast.walk(b.test) if isinstance(x, ast.Name)
                     and not x.id.lstrip("_")[:1].isupper()}
            if len(names) != 1:
                i += 1
                continue
            v = next(iter(names))
            leaves = list(leaf_blocks(a, []))
            if not leaves or any(lb is None for lb, _x, _f in leaves):
                i += 1
                continue
            decisions = [decide(b.test, v, lb[-1] if lb else None, f_) for lb, _x, f_ in leaves]
            if not any(d is not None for d in decisions):
                i += 1
                continue
            # leaves that end in return / raise / continue / break never reach b
            for (lb, ext, _f), d in zip(leaves, decisions):
                if isinstance(lb[-1], (ast.Return, ast.Raise, ast.Continue, ast.Break)):
                    continue
                if d is None:
                    ext.append(copy.deepcopy(b))
                else:
                    ext.extend(copy.deepcopy(b.body if d else b.orelse))
            del block[i + 1]
            done += 1
        # (no increment: the merged statement may be followed by another flag test)
            i += 1
    if done:
        # a generated flag that is computed and tested on the spot: `_t = E; if [not] _t:`
        for block in list(_blocks(fn)):
            j = 0
            while j + 1 < len(block):
                a, b = block[j], block[j + 1]
                if isinstance(a, ast.Assign) and len(a.targets) == 1 and isinstance(
                        a.targets[0], ast.Name) and re.fullmatch(r"_t\d+", a.targets[0].id) and \
                        isinstance(b, ast.If) and not isinstance(a.value, ast.Constant):
                    nm = a.targets[0].id
                    uses = [x for x in _walk_scope(fn) if isinstance(x, ast.Name) and
                            x.id == nm and isinstance(x.ctx, ast.Load)]
                    in_test = [x for x in ast.walk(b.test) if isinstance(x, ast.Name) and
                               x.id == nm]
                    if len(uses) == 1 and len(in_test) == 1:
                        b.test = _SubstNames({nm: a.value}).visit(b.test)
                        del block[j]
                        continue
                j += 1
        # flags that are no longer read
        loads = {x.id for x in _walk_scope(fn) if isinstance(x, ast.Name) and
                 isinstance(x.ctx, ast.Load)}

        class _Drop(ast.NodeTransformer):
            def visit_Assign(self, node: ast.Assign):
                if len(node.targets) == 1 and isinstance(node.targets[0], ast.Name) and \
                        node.targets[0].id not in loads and isinstance(
                            node.value, (ast.Constant, ast.Name)) and re.fullmatch(
                                r"_t\d+", node.targets[0].id):
                    return ast.Pass()
                return node

            def visit_FunctionDef(self, node):
                return node
        fn.body = [_Drop().visit(s_) for s_ in fn.body]  # type: ignore[attr-defined]
        ast.fix_missing_locations(fn)
    return done


# ------------------------------------------------------------------ records
def scalarise_records(fn: ast.AST, records: Dict[str, List[str]]) -> int:
    """`v = Rec(a=x, b=e)` with a NEW record class (NamedTuple / dataclass without methods) whose
    only uses are `v.a` / `v.b`: the record is dissolved into its fields again."""
    done = 0
    names = {x.id for x in _walk_scope(fn) if isinstance(x, ast.Name) and
             isinstance(x.ctx, ast.Store)}
    for v in sorted(names):
        stores = [x for x in _walk_scope(fn) if isinstance(x, (ast.Assign, ast.AnnAssign)) and
                  any(isinstance(t, ast.Name) and t.id == v for t in (
                      x.targets if isinstance(x, ast.Assign) else [x.target]))]
        all_stores = [x for x in _walk_scope(fn) if isinstance(x, ast.Name) and x.id == v and
                      isinstance(x.ctx, (ast.Store, ast.Del))]
        if len(stores) != len(all_stores) or not stores:
            continue
        ctors = [s_ for s_ in stores if isinstance(getattr(s_, "value", None), ast.Call) and
                 isinstance(s_.value.func, ast.Name) and s_.value.func.id in records]
        nones = [s_ for s_ in stores if isinstance(getattr(s_, "value", None), ast.Constant) and
                 s_.value.value is None]
        if len(ctors) != 1 or len(ctors) + len(nones) != len(stores):
            continue
        c = ctors[0].value
        fields = records[c.func.id]
        if any(isinstance(a, ast.Starred) for a in c.args) or any(k.arg is None
                                                                  for k in c.keywords):
            continue
        vals: Dict[str, ast.AST] = dict(zip(fields, c.args))
        for k in c.keywords:
            vals[k.arg] = k.value  # type: ignore[index]
        if set(vals) != set(fields):
            continue
        loads = [x for x in _walk_scope(fn) if isinstance(x, ast.Name) and x.id == v and
                 isinstance(x.ctx, ast.Load)]
        attr_loads = [x for x in _walk_scope(fn) if isinstance(x, ast.Attribute) and isinstance(
            x.value, ast.Name) and x.value.id == v and isinstance(x.ctx, ast.Load) and
                      x.attr in fields]
        if len(loads) != len(attr_loads) or _uses_in_nested(fn, v):
            continue
        pre: List[ast.stmt] = []
        repl: Dict[str, ast.AST] = {}
        for f_ in fields:
            e = vals[f_]
            if isinstance(e, (ast.Name, ast.Constant)):
                repl[f_] = e
            else:
                nm = f"{v}_{f_}"
                pre.append(ast.copy_location(ast.Assign(
                    targets=[ast.Name(id=nm, ctx=ast.Store())], value=e), ctors[0]))
                repl[f_] = ast.Name(id=nm, ctx=ast.Load())

        class _R(ast.NodeTransformer):
            def visit_Attribute(self, node: ast.Attribute) -> ast.AST:
                if isinstance(node.value, ast.Name) and node.value.id == v and \
                        node.attr in repl and isinstance(node.ctx, ast.Load):
                    return ast.copy_location(copy.deepcopy(repl[node.attr]), node)
                self.generic_visit(node)
                return node

            def visit_FunctionDef(self, node):
                return node
        drop = {id(s_) for s_ in stores}
        for block in list(_blocks(fn)):
            j = 0
            while j < len(block):
                if id(block[j]) in drop:
                    new = pre if block[j] is ctors[0] else []
                    block[j:j + 1] = new or [ast.Pass()]
                    j += len(new) or 1
                    continue
                j += 1
        fn.body = [_R().visit(s_) for s_ in fn.body]  # type: ignore[attr-defined]
        done += 1
    if done:
        ast.fix_missing_locations(fn)
    return done


def record_classes(tree: ast.Module, modname: str, ref_functions: Set[str]) -> Dict[str, List[str]]:
    out: Dict[str, List[str]] = {}
    for st in tree.body:
        if not isinstance(st, ast.ClassDef):
            continue
        if any(k.startswith(f"{modname}:{st.name}.") for k in ref_functions):
            continue
        is_rec = any(ast.unparse(b).split(".")[-1] == "NamedTuple" for b in st.bases) or any(
            ast.unparse(d).split(".")[-1].split("(")[0] == "dataclass"
            for d in st.decorator_list)
        body = _strip_doc(st.body)
        if is_rec and body and all(isinstance(b, ast.AnnAssign) and isinstance(b.target, ast.Name)
                                   for b in body):
            out[st.name] = [b.target.id for b in body]  # type: ignore[union-attr]
    return out


# ------------------------------------------------------------------ table-driven dispatch
class _Beta(ast.NodeTransformer):
    """(lambda a, b: E)(x, y)  ->  E[a := x, b := y]"""

    def __init__(self) -> None:
        self.n = 0

    def visit_Call(self, node: ast.Call) -> ast.AST:
        self.generic_visit(node)
        f = node.func
        if isinstance(f, ast.Lambda) and not node.keywords and not any(
                isinstance(a, ast.Starred) for a in node.args):
            a = f.args
            if a.vararg or a.kwarg or a.kwonlyargs or a.defaults or a.posonlyargs:
                return node
            params = [x.arg for x in a.args]
            if len(params) != len(node.args):
                return node
            self.n += 1
            return _SubstNames(dict(zip(params, node.args))).visit(copy.deepcopy(f.body))
        return node


def _loop_level_jumps(body: List[ast.stmt]) -> List[ast.AST]:
    out: List[ast.AST] = []

    def rec(stmts: List[ast.stmt]) -> None:
        for st in stmts:
            if isinstance(st, (ast.Break, ast.Continue)):
                out.append(st)
            elif isinstance(st, (ast.For, ast.While, ast.FunctionDef, ast.AsyncFunctionDef,
                                 ast.ClassDef)):
                # break / continue in a nested loop belong to that loop (its else part not)
                if isinstance(st, (ast.For, ast.While)):
                    rec(st.orelse)
            else:
                for fld in ("body", "orelse", "finalbody"):
                    rec(getattr(st, fld, []) or [])
                for h in getattr(st, "handlers", []) or []:
                    rec(h.body)
    rec(body)
    return out


def unroll_table_loops(tree: ast.Module, new_globals: Set[str]) -> int:
    """`for pred, handler in TABLE: if pred(x): y = handler(x); break  else: <fallback>` over a
    NEW module-level table of literal rows is the if/elif chain it replaced: unroll the loop
    (sequentially when the body has no break / continue, as a chain when the only jump is a
    `break` that ends a top-level `if` of the body), substitute the row into the body and
    beta-reduce lambdas."""
    tables: Dict[str, ast.AST] = {}
    for st in tree.body:
        tgt = val = None
        if isinstance(st, ast.Assign) and len(st.targets) == 1:
            tgt, val = st.targets[0], st.value
        elif isinstance(st, ast.AnnAssign) and st.value is not None:
            tgt, val = st.target, st.value
        if isinstance(tgt, ast.Name) and tgt.id in new_globals and isinstance(
                val, (ast.Tuple, ast.List)) and val.elts and not any(
                    isinstance(e, ast.Starred) for e in val.elts):
            stores = [x for x in ast.walk(tree) if isinstance(x, ast.Name) and x.id == tgt.id and
                      isinstance(x.ctx, (ast.Store, ast.Del))]
            if len(stores) == 1 and not _mutated(tree, tgt.id, val):
                tables[tgt.id] = val
    if not tables:
        return 0
    done = 0

    def rows_for(target: ast.AST, table: ast.AST) -> Optional[List[Dict[str, ast.AST]]]:
        out = []
        for row in table.elts:  # type: ignore[attr-defined]
            if isinstance(target, ast.Name):
                out.append({target.id: row})
            elif isinstance(target, (ast.Tuple, ast.List)) and all(
                    isinstance(e, ast.Name) for e in target.elts) and isinstance(
                        row, (ast.Tuple, ast.List)) and len(row.elts) == len(target.elts):
                out.append({e.id: r for e, r in zip(target.elts, row.elts)})  # type: ignore
            else:
                return None
        return out

    def inst(stmts: List[ast.stmt], env: Dict[str, ast.AST]) -> List[ast.stmt]:
        b = _Beta()
        return [b.visit(_SubstNames(env).visit(copy.deepcopy(s))) for s in stmts]

    def rewrite(block: List[ast.stmt]) -> None:
        nonlocal done
        i = 0
        while i < len(block):
            st = block[i]
            for fld in ("body", "orelse", "finalbody"):
                sub_ = getattr(st, fld, None)
                if isinstance(sub_, list) and not isinstance(st, (ast.ClassDef,)):
                    rewrite(sub_)
            for h in getattr(st, "handlers", []) or []:
                rewrite(h.body)
            if isinstance(st, ast.For) and isinstance(st.iter, ast.Name) and \
                    st.iter.id in tables and len(tables[st.iter.id].elts) <= 16:
                rows = rows_for(st.target, tables[st.iter.id])
                tnames = {n.id for n in ast.walk(st.target) if isinstance(n, ast.Name)}
                # the loop variables must not be used after the loop or assigned in the body
                assigned = any(isinstance(x, ast.Name) and x.id in tnames and isinstance(
                    x.ctx, (ast.Store, ast.Del)) for s in st.body for x in ast.walk(s))
                later = any(isinstance(x, ast.Name) and x.id in tnames
                            for s in block[i + 1:] + st.orelse for x in ast.walk(s))
                jumps = _loop_level_jumps(st.body)
                # `if not c: continue` + S + `break`  ==  `if c: S; break`
                if len(jumps) == 2 and isinstance(st.body[0], ast.If) and not st.body[0].orelse \
                        and len(st.body[0].body) == 1 and st.body[0].body[0] is jumps[0] and \
                        isinstance(jumps[0], ast.Continue) and st.body[-1] is jumps[1] and \
                        isinstance(jumps[1], ast.Break) and len(st.body) >= 2:
                    t0 = st.body[0].test
                    neg = t0.operand if isinstance(t0, ast.UnaryOp) and isinstance(
                        t0.op, ast.Not) else ast.UnaryOp(op=ast.Not(), operand=t0)
                    st.body = [ast.copy_location(ast.If(test=neg, body=st.body[1:], orelse=[]),
                                                 st.body[0])]
                    ast.fix_missing_locations(st)
                    jumps = _loop_level_jumps(st.body)
                new: Optional[List[ast.stmt]] = None
                if rows is not None and not assigned and not later:
                    if not jumps:
                        new = []
                        for env in rows:
                            new += inst(st.body, env)
                        new += st.orelse
                    elif len(jumps) == 1 and isinstance(jumps[0], ast.Break) and isinstance(
                            st.body[-1], ast.If) and not st.body[-1].orelse and \
                            st.body[-1].body and st.body[-1].body[-1] is jumps[0]:
                        tail: List[ast.stmt] = list(st.orelse)
                        for env in reversed(rows):
                            body_i = inst(st.body, env)
                            cond = body_i[-1]
                            assert isinstance(cond, ast.If)
                            cond.body = cond.body[:-1] or [ast.Pass()]
                            cond.orelse = tail
                            tail = body_i
                        new = tail
                if new is not None:
                    for s in new:
                        for x in ast.walk(s):
                            if not hasattr(x, "lineno"):
                                ast.copy_location(x, st)
                    block[i:i + 1] = new or [ast.Pass()]
                    done += 1
                    i += len(new) or 1
                    continue
            i += 1

    for node in ast.walk(tree):
        if isinstance(node, (ast.FunctionDef, ast.AsyncFunctionDef)):
            rewrite(node.body)
    if done:
        ast.fix_missing_locations(tree)
    return done


# ------------------------------------------------------------------ new helpers
def _strip_doc(body: List[ast.stmt]) -> List[ast.stmt]:
    if body and isinstance(body[0], ast.Expr) and isinstance(body[0].value, ast.Constant) and \
            isinstance(body[0].value.value, str):
        return body[1:]
    return body


def _as_expression(body: List[ast.stmt]) -> Optional[ast.AST]:
    """A side-effect-free body made of simple assignments, (nested) ifs and returns as ONE
    expression: `if c: return A` + rest  ->  `A if c else <rest>`; fall-through of a branch
    continues with what follows the `if`. None when anything else occurs or a path falls off the
    end."""
    body = _strip_doc(body)
    budget = [200]

    def expr_of(stmts: List[ast.stmt], cont: Optional[ast.AST]) -> Optional[ast.AST]:
        budget[0] -= 1
        if budget[0] < 0:
            return None
        if not stmts:
            return copy.deepcopy(cont) if cont is not None else None
        st, rest = stmts[0], stmts[1:]
        if isinstance(st, ast.Return):
            return copy.deepcopy(st.value) if st.value is not None else None
        if isinstance(st, ast.Pass):
            return expr_of(rest, cont)
        if isinstance(st, (ast.Assign, ast.AnnAssign)) and getattr(st, "value", None) is not None:
            tg = st.targets[0] if isinstance(st, ast.Assign) else st.target
            if not isinstance(tg, ast.Name) or (isinstance(st, ast.Assign) and
                                                len(st.targets) != 1):
                return None
            e = expr_of(rest, cont)
            if e is None:
                return None
            return _SubstNames({tg.id: st.value}).visit(e)
        if isinstance(st, ast.If):
            after = expr_of(rest, cont)
            b_ = expr_of(st.body, after)
            o_ = expr_of(st.orelse, after) if st.orelse else after
            if b_ is None or o_ is None:
                return None
            return ast.IfExp(test=copy.deepcopy(st.test), body=b_, orelse=copy.deepcopy(o_))
        return None
    if not body or not any(isinstance(x, ast.Return) for st in body for x in _walk_scope(st)):
        return None
    return expr_of(body, None)


def _all_paths_return(block: List[ast.stmt]) -> bool:
    if not block:
        return False
    last = block[-1]
    if isinstance(last, (ast.Return, ast.Raise)):
        return True
    if isinstance(last, ast.If) and last.orelse:
        return _all_paths_return(last.body) and _all_paths_return(last.orelse)
    if isinstance(last, ast.With):
        return _all_paths_return(last.body)
    if isinstance(last, ast.Try) and last.orelse and not last.finalbody:
        return _all_paths_return(last.orelse) and all(
            _all_paths_return(h.body) for h in last.handlers)
    if isinstance(last, ast.Try) and not last.orelse and not last.finalbody:
        return _all_paths_return(last.body) and all(
            _all_paths_return(h.body) for h in last.handlers)
    return False


def _structure_returns(block: List[ast.stmt]) -> Optional[List[ast.stmt]]:
    """Rewrite early returns as if/else nesting so that every `return` ends up as the last
    statement of a tail block; None when a return sits inside a loop / try / with."""
    out: List[ast.stmt] = []
    for i, st in enumerate(block):
        if isinstance(st, ast.With) and any(isinstance(x, ast.Return) for x in _walk_scope(st)):
            # `with ctx: ...; return v` as the tail of the helper: the returns stay inside
            if not _all_paths_return(st.body):
                return None
            body = _structure_returns(st.body)
            if body is None:
                return None
            out.append(ast.copy_location(ast.With(items=st.items, body=body), st))
            return out
        if isinstance(st, ast.Try) and any(isinstance(x, ast.Return) for x in _walk_scope(st)):
            # try: <no return> except E: ...return v   followed by the rest of the helper:
            # the rest only runs when no handler returned, i.e. it is the try's `else` part
            if not st.finalbody and not st.orelse and _all_paths_return([st]):
                # `try: ...; return a  except E: ...; return b` as the tail: every path returns
                tb = _structure_returns(st.body)
                hs_ = []
                for h in st.handlers:
                    hb = _structure_returns(h.body)
                    if hb is None:
                        return None
                    hs_.append(ast.copy_location(ast.ExceptHandler(type=h.type, name=h.name,
                                                                   body=hb), h))
                if tb is None:
                    return None
                out.append(ast.copy_location(ast.Try(body=tb, handlers=hs_, orelse=[],
                                                     finalbody=[]), st))
                return out
            if st.finalbody or any(isinstance(x, ast.Return) for b_ in st.body
                                   for x in _walk_scope(b_)):
                return None
            handlers = []
            all_ret = True
            for h in st.handlers:
                hb = _structure_returns(h.body)
                if hb is None:
                    return None
                if not _all_paths_return(h.body):
                    all_ret = False
                handlers.append(ast.copy_location(ast.ExceptHandler(type=h.type, name=h.name,
                                                                    body=hb), h))
            rest = list(st.orelse) + block[i + 1:]
            if not all_ret and any(isinstance(x, ast.Return) for h in st.handlers
                                   for b_ in h.body for x in _walk_scope(b_)):
                return None  # a handler that returns on some paths only
            tail = _structure_returns(rest)
            if tail is None:
                return None
            out.append(ast.copy_location(ast.Try(body=st.body, handlers=handlers,
                                                 orelse=tail or [ast.Pass()], finalbody=[]), st))
            return out
        if isinstance(st, (ast.For, ast.While, ast.Try, ast.With)):
            if any(isinstance(x, ast.Return) for x in _walk_scope(st)):
                return None
            out.append(st)
            continue
        if isinstance(st, ast.If):
            has_ret = any(isinstance(x, ast.Return) for x in _walk_scope(st))
            if not has_ret:
                out.append(st)
                continue
            rest = block[i + 1:]
            body = _structure_returns(st.body)
            if body is None:
                return None
            if _all_paths_return(st.body):
                orelse = _structure_returns(list(st.orelse) + rest)
                if orelse is None:
                    return None
                new = ast.copy_location(ast.If(test=st.test, body=body, orelse=orelse), st)
                out.append(new)
                return out
            orelse0 = _structure_returns(list(st.orelse)) if st.orelse else []
            if orelse0 is None:
                return None
            if st.orelse and _all_paths_return(st.orelse):
                body2 = _structure_returns(list(st.body) + rest)
                if body2 is None:
                    return None
                out.append(ast.copy_location(ast.If(test=st.test, body=body2, orelse=orelse0),
                                             st))
                return out
            # a return on some but not all paths of both branches: continue each branch with
            # what follows the `if` (tail duplication)
            if sum(1 for s_ in rest for _x in ast.walk(s_)) > 400:
                return None
            b2 = _structure_returns(list(st.body) + copy.deepcopy(rest))
            o2 = _structure_returns(list(st.orelse) + rest)
            if b2 is None or o2 is None:
                return None
            out.append(ast.copy_location(ast.If(test=st.test, body=b2, orelse=o2), st))
            return out
        out.append(st)
    return out


def _returns_to_assign(block: List[ast.stmt], make) -> List[ast.stmt]:
    """replace the tail returns of a structured block by `make(value)` statements"""
    if not block:
        return block
    out = list(block[:-1])
    last = block[-1]
    if isinstance(last, ast.Return):
        out.extend(make(last.value))
    elif isinstance(last, ast.If) and any(isinstance(x, ast.Return) for x in _walk_scope(last)):
        out.append(ast.copy_location(ast.If(test=last.test,
                                            body=_returns_to_assign(last.body, make) or
                                            [ast.Pass()],
                                            orelse=_returns_to_assign(last.orelse, make)), last))
    elif isinstance(last, ast.With) and any(isinstance(x, ast.Return) for x in _walk_scope(last)):
        out.append(ast.copy_location(ast.With(items=last.items,
                                              body=_returns_to_assign(last.body, make) or
                                              [ast.Pass()]), last))
    elif isinstance(last, ast.Try) and any(isinstance(x, ast.Return) for x in _walk_scope(last)):
        hs = [ast.copy_location(ast.ExceptHandler(
            type=h.type, name=h.name, body=_returns_to_assign(h.body, make) or [ast.Pass()]), h)
            for h in last.handlers]
        tb_ = last.body
        if any(isinstance(x, ast.Return) for b_ in last.body for x in _walk_scope(b_)):
            tb_ = _returns_to_assign(last.body, make) or [ast.Pass()]
            out.append(ast.copy_location(ast.Try(body=tb_, handlers=hs, orelse=[],
                                                 finalbody=[]), last))
        else:
            out.append(ast.copy_location(ast.Try(
                body=tb_, handlers=hs,
                orelse=_returns_to_assign(last.orelse, make) or [ast.Pass()],
                finalbody=[]), last))
    else:
        out.append(last)
        # falling off the end returns None
        out.extend(make(None))
    return out


def _loop_const_shape(body: List[ast.stmt]) -> bool:
    """`...; for/while ...: (if c: return K)*; ...; return W` with constants K, W and the early
    returns directly in one top-level loop: inlined as `t = W; ...; loop with t = K; break`."""
    if not body or not isinstance(body[-1], ast.Return) or not isinstance(
            body[-1].value, ast.Constant):
        return False
    loops_with_ret = []
    for st in body[:-1]:
        rets = [x for x in _walk_scope(st) if isinstance(x, ast.Return)]
        if not rets:
            continue
        if not isinstance(st, (ast.For, ast.While)) or st.orelse:
            return False
        if not all(isinstance(r.value, ast.Constant) for r in rets):
            return False
        # no return inside a nested loop / try / with (break would bind differently)
        for inner in _walk_scope(st):
            if inner is not st and isinstance(inner, (ast.For, ast.While, ast.Try, ast.With)) \
                    and any(isinstance(x, ast.Return) for x in _walk_scope(inner)):
                return False
        loops_with_ret.append(st)
    # must be the last statement before the final return: a break skips what follows the loop
    return len(loops_with_ret) == 1 and body[-2] is loops_with_ret[0]


def _loop_ret_shape(body: List[ast.stmt]) -> Optional[int]:
    """pre; LOOP (returns directly in it, no break of its own, no else); post -- inlined as
    `pre; LOOP with (v = X; break) ... else: post'`: the index of LOOP, or None."""
    idx = None
    for i, st in enumerate(body):
        rets = [x for x in _walk_scope(st) if isinstance(x, ast.Return)]
        if not rets:
            continue
        if isinstance(st, (ast.For, ast.While)):
            if idx is not None or st.orelse:
                return None
            if _loop_level_jumps_kind(st.body, ast.Break):
                return None
            for inner in _walk_scope(st):
                if inner is not st and isinstance(inner, (ast.For, ast.While)) and any(
                        isinstance(x, ast.Return) for x in _walk_scope(inner)):
                    return None
                if isinstance(inner, ast.Try) and inner.finalbody and any(
                        isinstance(x, ast.Return) for x in _walk_scope(inner)):
                    return None
            idx = i
        elif idx is None:
            return None  # a return in front of the loop
    if idx is None:
        return None
    post = body[idx + 1:]
    if post and any(isinstance(x, ast.Return) for s_ in post for x in _walk_scope(s_)):
        if _structure_returns(post) is None:
            return None
    return idx


def _loop_level_jumps_kind(body: List[ast.stmt], kind) -> List[ast.AST]:
    return [j for j in _loop_level_jumps(body) if isinstance(j, kind)]


def _is_procedure(body: List[ast.stmt]) -> bool:
    body = _strip_doc(body)
    if not body:
        return False
    for i, st in enumerate(body):
        for x in _walk_scope(st):
            if isinstance(x, ast.Return) and not (x is st and i == len(body) - 1):
                return False
            if isinstance(x, (ast.Yield, ast.YieldFrom, ast.Await)):
                return False
    return True


class _Helper:
    def __init__(self, node: ast.AST, kind: str, cls: Optional[str]):
        self.node = node
        self.kind = kind  # function | method | static | nested
        self.cls = cls
        a = node.args  # type: ignore[attr-defined]
        self.params = [x.arg for x in a.posonlyargs + a.args]
        self.kwonly = [x.arg for x in a.kwonlyargs]
        self.defaults = dict(zip(self.params[len(self.params) - len(a.defaults):], a.defaults))
        for k, d in zip(self.kwonly, a.kw_defaults):
            if d is not None:
                self.defaults[k] = d
        self.expr = _as_expression(node.body)  # type: ignore[attr-defined]
        self.proc = self.expr is None and _is_procedure(node.body)  # type: ignore[attr-defined]
        self.structured: Optional[List[ast.stmt]] = None
        # a helper with several returns is folded back as statements where it is called as a
        # statement (`v = helper(..)`), and as one conditional expression elsewhere
        if self.expr is not None and sum(1 for x in _walk_scope(node)
                                         if isinstance(x, ast.Return)) >= 2:
            st0 = _structure_returns(_strip_doc(node.body))  # type: ignore[attr-defined]
            if st0 is not None:
                self.structured = st0
                self.proc = True
        self.loopconst = False
        self.loopret: Optional[int] = None
        ys = [x for x in _walk_scope(node) if isinstance(x, (ast.Yield, ast.YieldFrom))]
        rs = [x for x in _walk_scope(node) if isinstance(x, ast.Return)]
        # a generator whose yields are statements of their own (`yield e`)
        self.gen = bool(ys) and all(r.value is None for r in rs) and not any(
            isinstance(x, ast.Await) for x in _walk_scope(node)) and all(
                any(isinstance(s_, ast.Expr) and s_.value is y for s_ in _walk_scope(node))
                for y in ys)
        self.gen_returns = bool(rs)
        # bare returns that sit directly in the generator's last top-level loop only stop that
        # loop: they are breaks once the body is put in place
        self.gen_ret_as_break = False
        if self.gen and rs:
            body_g = _strip_doc(node.body)  # type: ignore[attr-defined]
            if body_g and isinstance(body_g[-1], (ast.For, ast.While)) and not body_g[-1].orelse:
                lp = body_g[-1]
                in_loop = [x for x in _walk_scope(lp) if isinstance(x, ast.Return)]
                nested = [x for inner in _walk_scope(lp) if inner is not lp and isinstance(
                    inner, (ast.For, ast.While)) for x in _walk_scope(inner)
                    if isinstance(x, ast.Return)]
                if len(in_loop) == len(rs) and not nested and not _loop_level_jumps_kind(
                        lp.body, ast.Break):
                    self.gen_ret_as_break = True
        # a sub-generator that hands back a value (`v = yield from helper(..)`): folded back like
        # a statement-bodied helper, its yields staying yields of the caller
        self.genret: Optional["_Helper"] = None
        if ys and any(r.value is not None for r in rs) and not any(
                isinstance(x, ast.Await) for x in _walk_scope(node)):
            g = copy.copy(self)
            g.expr, g.proc, g.structured, g.loopconst, g.loopret = None, False, None, False, None
            body_ = _strip_doc(node.body)  # type: ignore[attr-defined]
            st_ = _structure_returns(body_)
            if st_ is not None:
                g.structured, g.proc = st_, True
            elif _loop_const_shape(body_):
                g.loopconst, g.proc = True, True
            else:
                g.loopret = _loop_ret_shape(body_)
                g.proc = g.loopret is not None
            if g.proc:
                self.genret = g
        if self.expr is None and not self.proc and not any(
                isinstance(x, (ast.Yield, ast.YieldFrom, ast.Await))
                for x in _walk_scope(node)):
            st = _structure_returns(_strip_doc(node.body))  # type: ignore[attr-defined]
            if st is not None:
                self.structured = st
                self.proc = True
            else:
                self.loopconst = _loop_const_shape(_strip_doc(node.body))  # type: ignore
                if self.loopconst:
                    self.proc = True
                else:
                    self.loopret = _loop_ret_shape(_strip_doc(node.body))  # type: ignore
                    if self.loopret is not None:
                        self.proc = True

    def bind(self, call: ast.Call, recv: Optional[ast.AST]) -> Optional[Dict[str, ast.AST]]:
        params = list(self.params)
        env: Dict[str, ast.AST] = {}
        if self.kind == "method":
            if not params:
                return None
            env[params[0]] = recv if recv is not None else ast.Name(id="self", ctx=ast.Load())
            params = params[1:]
        if any(isinstance(a, ast.Starred) for a in call.args) or any(
                k.arg is None for k in call.keywords) or len(call.args) > len(params):
            return None
        for p, a in zip(params, call.args):
            env[p] = a
        for k in call.keywords:
            if k.arg in env or k.arg not in params + self.kwonly:
                return None
            env[k.arg] = k.value  # type: ignore[index]
        for p in params + self.kwonly:
            if p not in env:
                if p in self.defaults:
                    env[p] = self.defaults[p]
                else:
                    return None
        return env


def _helper_of_call(call: ast.Call, helpers: Dict[Tuple[str, str], _Helper],
                    cls: Optional[str]) -> Tuple[Optional[_Helper], Optional[ast.AST]]:
    f = call.func
    if isinstance(f, ast.Name):
        h = helpers.get(("", f.id))
        if h is not None:
            return h, None
    if isinstance(f, ast.Attribute) and isinstance(f.value, ast.Name):
        base = f.value.id
        name = f.attr
        cands = [name]
        if cls is not None and name.startswith(f"_{cls}__"):
            cands.append(name[len(cls) + 1:])
        for nm in cands:
            if base in ("self", "cls") and cls is not None:
                h = helpers.get((cls, nm))
                if h is not None:
                    return h, (f.value if h.kind == "method" else None)
            h = helpers.get((base, nm))
            if h is not None and h.kind == "static":
                return h, None
    return None, None


class _InlineExprCalls(ast.NodeTransformer):
    def __init__(self, helpers, cls):
        self.helpers = helpers
        self.cls = cls
        self.n = 0

    def visit_Call(self, node: ast.Call) -> ast.AST:
        self.generic_visit(node)
        h, recv = _helper_of_call(node, self.helpers, self.cls)
        if h is None or h.expr is None:
            return node
        env = h.bind(node, recv)
        if env is None:
            return node
        self.n += 1
        return ast.copy_location(_SubstNames(env).visit(copy.deepcopy(h.expr)), node)

    def _skip(self, node):
        return node
    visit_ClassDef = _skip


def _inline_accumulator(h: "_Helper", recv, call: ast.Call, acc: str,
                        counter: List[int]) -> Optional[List[ast.stmt]]:
    body = _strip_doc(h.node.body)  # type: ignore[attr-defined]
    if len(body) < 2 or not isinstance(body[-1], ast.Return) or not isinstance(
            body[-1].value, ast.Name):
        return None
    loc = body[-1].value.id
    first = body[0]
    tg = first.targets[0] if isinstance(first, ast.Assign) and len(first.targets) == 1 else (
        first.target if isinstance(first, ast.AnnAssign) else None)
    val = getattr(first, "value", None)
    if not (isinstance(tg, ast.Name) and tg.id == loc and isinstance(val, ast.List)
            and not val.elts):
        return None
    mid = body[1:-1]
    if any(isinstance(x, (ast.Return, ast.Yield, ast.YieldFrom, ast.Await))
           for s_ in mid for x in _walk_scope(s_)):
        return None
    # the local list is only appended to
    parents: Dict[int, ast.AST] = {}
    for s_ in mid:
        for x in ast.walk(s_):
            for c in ast.iter_child_nodes(x):
                parents[id(c)] = x
    for s_ in mid:
        for x in ast.walk(s_):
            if isinstance(x, ast.Name) and x.id == loc:
                p_ = parents.get(id(x))
                ok = isinstance(p_, ast.Attribute) and p_.attr in ("append", "extend") and \
                    isinstance(parents.get(id(p_)), ast.Call) and parents[id(p_)].func is p_
                ok = ok or (isinstance(p_, ast.AugAssign) and p_.target is x and
                            isinstance(p_.op, ast.Add))
                if not ok:
                    return None
    env = h.bind(call, recv)
    if env is None:
        return None
    counter[0] += 1
    suffix = f"_h{counter[0]}"
    mid = copy.deepcopy(mid)
    stored = {x.id for s_ in mid for x in _walk_scope(s_)
              if isinstance(x, ast.Name) and isinstance(x.ctx, ast.Store)}
    pre: List[ast.stmt] = []
    for p_ in list(env):
        if p_ in stored:
            pre.append(ast.Assign(targets=[ast.Name(id=p_ + suffix, ctx=ast.Store())],
                                  value=copy.deepcopy(env[p_])))
            env[p_] = ast.Name(id=p_ + suffix, ctx=ast.Load())
    ren = {nm: nm + suffix for nm in stored if nm != loc}
    ren[loc] = acc

    class _Ren(ast.NodeTransformer):
        def visit_Name(self, node: ast.Name) -> ast.AST:
            if node.id in ren and node.id not in env:
                return ast.copy_location(ast.Name(id=ren[node.id], ctx=node.ctx), node)
            return node
    return pre + [_SubstNames(env).visit(_Ren().visit(s_)) for s_ in mid]


def _inline_star(h: "_Helper", recv, st: ast.Expr, star: ast.Starred,
                 counter: List[int]) -> Optional[List[ast.stmt]]:
    body = _strip_doc(h.node.body)  # type: ignore[attr-defined]
    if not body or not isinstance(body[-1], ast.Return) or body[-1].value is None:
        return None
    if any(isinstance(x, (ast.Return, ast.Yield, ast.YieldFrom, ast.Await))
           for s_ in body[:-1] for x in _walk_scope(s_)):
        return None
    env = h.bind(star.value, recv)  # type: ignore[arg-type]
    if env is None:
        return None
    counter[0] += 1
    suffix = f"_h{counter[0]}"
    body = copy.deepcopy(body)
    stored = {x.id for s_ in body for x in _walk_scope(s_)
              if isinstance(x, ast.Name) and isinstance(x.ctx, ast.Store)}
    pre: List[ast.stmt] = []
    for p_ in list(env):
        if p_ in stored:
            pre.append(ast.Assign(targets=[ast.Name(id=p_ + suffix, ctx=ast.Store())],
                                  value=copy.deepcopy(env[p_])))
            env[p_] = ast.Name(id=p_ + suffix, ctx=ast.Load())
    ren = {nm: nm + suffix for nm in stored}

    class _Ren(ast.NodeTransformer):
        def visit_Name(self, node: ast.Name) -> ast.AST:
            if node.id in ren and node.id not in env:
                return ast.copy_location(ast.Name(id=ren[node.id], ctx=node.ctx), node)
            return node
    body = [_SubstNames(env).visit(_Ren().visit(s_)) for s_ in body]
    ret = body[-1].value
    call = copy.deepcopy(st.value)
    new_args: List[ast.AST] = []
    for a_, orig in zip(call.args, st.value.args):  # type: ignore[attr-defined]
        if orig is star:
            if isinstance(ret, (ast.Tuple, ast.List)):
                new_args.extend(ret.elts)
            else:
                new_args.append(ast.Starred(value=ret, ctx=ast.Load()))
        else:
            new_args.append(a_)
    call.args = new_args  # type: ignore[attr-defined]
    return pre + body[:-1] + [ast.Expr(value=call)]


def _hoist_test_calls(fn: ast.AST, helpers, cls, counter: List[int]) -> int:
    """`if [not] helper(...):` with a statement-bodied helper -> `_t = helper(...); if [not] _t:`
    (only when the call is the whole test, so the evaluation order is unchanged)"""
    n = 0
    for block in list(_blocks(fn)):
        i = 0
        while i < len(block):
            st = block[i]
            if isinstance(st, ast.If):
                t = st.test
                # `if A and [not] helper(..): S` (no else) == `if A: if [not] helper(..): S`
                if isinstance(t, ast.BoolOp) and isinstance(t.op, ast.And) and not st.orelse \
                        and len(t.values) >= 2:
                    last = t.values[-1]
                    lc = last.operand if isinstance(last, ast.UnaryOp) and isinstance(
                        last.op, ast.Not) else last
                    if isinstance(lc, ast.Call):
                        h0, _r0 = _helper_of_call(lc, helpers, cls)
                        if h0 is not None and h0.proc and h0.expr is None:
                            inner_if = ast.copy_location(ast.If(test=last, body=st.body,
                                                                orelse=[]), st)
                            st.test = t.values[0] if len(t.values) == 2 else ast.copy_location(
                                ast.BoolOp(op=ast.And(), values=t.values[:-1]), t)
                            st.body = [inner_if]
                            n += 1
                            # the new inner `if` is a block of its own: handled next round
                            i += 1
                            continue
                # `if helper(..) <op> K:` -> `_t = helper(..); if _t <op> K:`
                if isinstance(t, ast.Compare) and len(t.ops) == 1 and isinstance(
                        t.left, ast.Call) and isinstance(t.comparators[0], (ast.Constant,
                                                                             ast.Name)):
                    hc, _rc = _helper_of_call(t.left, helpers, cls)
                    if hc is not None and hc.proc and hc.expr is None:
                        counter[0] += 1
                        nm = f"_t{counter[0]}"
                        asg = ast.copy_location(ast.Assign(
                            targets=[ast.Name(id=nm, ctx=ast.Store())], value=t.left), st)
                        t.left = ast.copy_location(ast.Name(id=nm, ctx=ast.Load()), t.left)
                        block.insert(i, asg)
                        ast.fix_missing_locations(asg)
                        n += 1
                        i += 2
                        continue
                neg = isinstance(t, ast.UnaryOp) and isinstance(t.op, ast.Not)
                c = t.operand if neg else t
                if isinstance(c, ast.Call):
                    h, _recv = _helper_of_call(c, helpers, cls)
                    if h is not None and h.proc and h.expr is None:
                        counter[0] += 1
                        nm = f"_t{counter[0]}"
                        asg = ast.copy_location(ast.Assign(
                            targets=[ast.Name(id=nm, ctx=ast.Store())], value=c), st)
                        ref = ast.copy_location(ast.Name(id=nm, ctx=ast.Load()), c)
                        st.test = ast.copy_location(ast.UnaryOp(op=ast.Not(), operand=ref),
                                                    t) if neg else ref
                        block.insert(i, asg)
                        ast.fix_missing_locations(asg)
                        n += 1
                        i += 1
            i += 1
    return n


class _FoldConst(ast.NodeTransformer):
    """what substituting literal arguments into a helper body leaves behind:
    getattr(x, "name") -> x.name; f"{'lit'}..." -> f"lit..."."""

    def visit_Call(self, node: ast.Call) -> ast.AST:
        self.generic_visit(node)
        if isinstance(node.func, ast.Name) and node.func.id == "getattr" and len(
                node.args) == 2 and not node.keywords and isinstance(
                    node.args[1], ast.Constant) and isinstance(node.args[1].value, str) and \
                node.args[1].value.isidentifier():
            return ast.copy_location(ast.Attribute(value=node.args[0], attr=node.args[1].value,
                                                   ctx=ast.Load()), node)
        return node

    def visit_JoinedStr(self, node: ast.JoinedStr) -> ast.AST:
        self.generic_visit(node)
        vals: List[ast.AST] = []
        for v in node.values:
            if isinstance(v, ast.FormattedValue) and isinstance(v.value, ast.Constant) and \
                    isinstance(v.value.value, str) and v.conversion == -1 and \
                    v.format_spec is None:
                v = ast.Constant(value=v.value.value)
            if isinstance(v, ast.Constant) and vals and isinstance(vals[-1], ast.Constant):
                vals[-1] = ast.Constant(value=vals[-1].value + v.value)
            else:
                vals.append(v)
        if len(vals) == 1 and isinstance(vals[0], ast.Constant):
            return ast.copy_location(vals[0], node)
        node.values = vals
        return node


# helpers that are called more than once in the function being rewritten: every instance gets
# fresh names (one instance keeping the helper's names and the other not would break the
# alignment with the reference names)
_MULTI: Set[int] = set()


def _comp_only_names(body: List[ast.stmt]) -> Set[str]:
    """names that are bound by comprehensions only (scoped to the comprehension)"""
    comp: Set[int] = set()
    for s_ in body:
        for x in _walk_scope(s_):
            if isinstance(x, ast.comprehension):
                for y in ast.walk(x.target):
                    comp.add(id(y))
    names_c: Set[str] = set()
    names_o: Set[str] = set()
    for s_ in body:
        for x in _walk_scope(s_):
            if isinstance(x, ast.Name) and isinstance(x.ctx, (ast.Store, ast.Del)):
                (names_c if id(x) in comp else names_o).add(x.id)
    return names_c - names_o


def _instantiate(h: "_Helper", env: Dict[str, ast.AST], caller_names: Set[str],
                 counter: List[int], force: Optional[Dict[str, str]] = None
                 ) -> Tuple[List[ast.stmt], List[ast.stmt]]:
    """(pre-assignments, body) of helper ``h`` for the argument binding ``env``: locals that clash
    with a name of the caller get a fresh suffix, parameters that are assigned to are copied."""
    counter[0] += 1
    suffix = f"_h{counter[0]}"
    body = copy.deepcopy(_strip_doc(h.node.body))  # type: ignore[attr-defined]
    stored = {x.id for s_ in body for x in _walk_scope(s_)
              if isinstance(x, ast.Name) and isinstance(x.ctx, ast.Store)}
    env = dict(env)
    pre: List[ast.stmt] = []
    for p_ in list(env):
        uses = sum(1 for s_ in body for x in ast.walk(s_)
                   if isinstance(x, ast.Name) and x.id == p_ and isinstance(x.ctx, ast.Load))
        if p_ in stored or (uses > 1 and any(isinstance(x, ast.Call)
                                             for x in ast.walk(env[p_]))):
            # assigned parameters, and call results that are used more than once, get a local
            nm_ = p_ + suffix if (p_ in stored or p_ in caller_names) else p_
            pre.append(ast.Assign(targets=[ast.Name(id=nm_, ctx=ast.Store())],
                                  value=copy.deepcopy(env[p_])))
            env[p_] = ast.Name(id=nm_, ctx=ast.Load())
            caller_names.add(nm_)
    force = force or {}
    comp_only = {c_ for c_ in _comp_only_names(body) if c_ not in env}
    multi = id(h.node) in _MULTI
    ren = {nm: (force[nm] if nm in force else
                (nm + suffix if nm in caller_names or nm in env or multi else nm))
           for nm in stored if nm not in comp_only}
    caller_names |= set(ren.values())

    class _Ren(ast.NodeTransformer):
        def visit_Name(self, node: ast.Name) -> ast.AST:
            if node.id in ren and (isinstance(node.ctx, (ast.Store, ast.Del)) or
                                   node.id not in env):
                return ast.copy_location(ast.Name(id=ren[node.id], ctx=node.ctx), node)
            return node
    lit = any(isinstance(v, ast.Constant) for v in env.values())
    body = [_SubstNames(env).visit(_Ren().visit(s_)) for s_ in body]
    if lit:
        body = [_FoldConst().visit(s_) for s_ in body]
    return pre, body


def _is_tail(fn: ast.AST, st: ast.stmt) -> bool:
    """Nothing of ``fn`` runs after ``st`` (last statement of its block, through enclosing ifs)."""
    def rec(block: List[ast.stmt]) -> Optional[bool]:
        for i, s_ in enumerate(block):
            if s_ is st:
                return i == len(block) - 1
            if isinstance(s_, ast.If):
                for br in (s_.body, s_.orelse):
                    r = rec(br)
                    if r is not None:
                        return r and i == len(block) - 1
            elif any(x is st for x in ast.walk(s_)):
                return False  # inside a loop / try / with
        return None
    return bool(rec(fn.body))  # type: ignore[attr-defined]


def _inline_generators(fn: ast.AST, helpers, cls, counter: List[int],
                       caller_names: Set[str]) -> int:
    """Consumers of a NEW generator helper: `for t in g(..): body`, `x.extend(g(..))`,
    `x += g(..)`, `v = list(g(..))` (tuple / dict / NamedItemList alike) and `yield from g(..)`:
    the generator's body is put in place, each `yield e` becoming the consumer's action."""
    n = 0

    class _Y(ast.NodeTransformer):
        def __init__(self, make):
            self.make = make

        def visit_Expr(self, node: ast.Expr):
            if isinstance(node.value, ast.Yield):
                return self.make(node.value.value if node.value.value is not None
                                 else ast.Constant(value=None))
            if isinstance(node.value, ast.YieldFrom) and not self.keep_from:
                # `yield from it`  ==  `for v in it: yield v`
                counter[0] += 1
                v = self.loopvar or f"item_h{counter[0]}"
                return [ast.For(target=ast.Name(id=v, ctx=ast.Store()), iter=node.value.value,
                                body=self.make(ast.Name(id=v, ctx=ast.Load())) or [ast.Pass()],
                                orelse=[])]
            return node
        keep_from = False
        loopvar: Optional[str] = None

        def visit_FunctionDef(self, node):
            return node
        visit_Lambda = visit_FunctionDef

    # `for p in takewhile(pred, it): B`  ==  `for p in it: if not pred(p): break; B`
    for block in list(_blocks(fn)):
        for st in block:
            if isinstance(st, ast.For) and isinstance(st.iter, ast.Call) and call_name_(
                    st.iter) == "takewhile" and len(st.iter.args) == 2 and not st.orelse and \
                    isinstance(st.target, ast.Name):
                pred, it = st.iter.args
                test = _Beta().visit(ast.Call(func=pred, args=[ast.Name(id=st.target.id,
                                                                         ctx=ast.Load())],
                                              keywords=[]))
                guard = ast.copy_location(ast.If(
                    test=ast.UnaryOp(op=ast.Not(), operand=test), body=[ast.Break()],
                    orelse=[]), st)
                st.iter = it
                st.body = [guard] + st.body
                ast.fix_missing_locations(st)
                n += 1
    for block in list(_blocks(fn)):
        i = 0
        while i < len(block):
            st = block[i]
            gcall = None
            kind = ""
            extra: Dict[str, object] = {}
            if isinstance(st, ast.For) and isinstance(st.iter, ast.Call) and not st.orelse:
                gcall, kind = st.iter, "for"
            elif isinstance(st, ast.Expr) and isinstance(st.value, ast.YieldFrom) and isinstance(
                    st.value.value, ast.Call):
                gcall, kind = st.value.value, "yieldfrom"
            elif isinstance(st, ast.Expr) and isinstance(st.value, ast.Call) and isinstance(
                    st.value.func, ast.Attribute) and st.value.func.attr == "extend" and len(
                        st.value.args) == 1 and isinstance(st.value.args[0], ast.Call):
                gcall, kind = st.value.args[0], "extend"
                extra["acc"] = st.value.func.value
            elif isinstance(st, ast.AugAssign) and isinstance(st.op, ast.Add) and isinstance(
                    st.value, ast.Call):
                gcall, kind = st.value, "extend"
                extra["acc"] = st.target
            elif isinstance(st, (ast.Assign, ast.AnnAssign)) and isinstance(
                    getattr(st, "value", None), ast.Call) and len(st.value.args) == 1 and \
                    not st.value.keywords and isinstance(st.value.args[0], ast.Call) and \
                    call_name_(st.value) in ("list", "tuple", "dict", "NamedItemList", "set",
                                             "frozenset") and (
                        isinstance(st, ast.AnnAssign) or len(st.targets) == 1):
                gcall, kind = st.value.args[0], "collect"
                extra["ctor"] = call_name_(st.value)
                extra["target"] = st.targets[0] if isinstance(st, ast.Assign) else st.target
            if gcall is None:
                i += 1
                continue
            # list(g()) wrapped once more by the consumer forms above
            if isinstance(gcall, ast.Call) and call_name_(gcall) in ("list", "tuple") and len(
                    gcall.args) == 1 and isinstance(gcall.args[0], ast.Call) and kind in (
                        "for", "extend"):
                gcall = gcall.args[0]
            h, recv = _helper_of_call(gcall, helpers, cls)
            if h is None or not getattr(h, "gen", False):
                i += 1
                continue
            structured_gen = None
            if h.gen_returns and not (kind == "yieldfrom" and _is_tail(fn, st)) and not \
                    h.gen_ret_as_break:
                # guard-style returns (`if not x: return` in front of the loop) structure away
                structured_gen = _structure_returns(
                    copy.deepcopy(_strip_doc(h.node.body)))  # type: ignore[attr-defined]
                if structured_gen is None:
                    i += 1
                    continue
                structured_gen = _returns_to_assign(structured_gen, lambda v: [])
            env = h.bind(gcall, recv)
            if env is None:
                i += 1
                continue
            if kind == "for":
                if _loop_level_jumps(st.body):
                    i += 1
                    continue
                tg, fbody = st.target, st.body

                def make(v, tg=tg, fbody=fbody):
                    if isinstance(v, ast.Name) and isinstance(tg, ast.Name) and v.id == tg.id:
                        return copy.deepcopy(fbody)
                    return [ast.Assign(targets=[copy.deepcopy(tg)], value=v)] + \
                        copy.deepcopy(fbody)
                head: List[ast.stmt] = []
                # every yield hands out the same helper local: it is the loop variable
                yv = {y.value.id if isinstance(y.value, ast.Name) else None
                      for y in _walk_scope(h.node) if isinstance(y, ast.Yield)}
                if isinstance(tg, ast.Name) and len(yv) == 1 and None not in yv:
                    y0 = yv.pop()
                    hnames = {x.id for x in _walk_scope(h.node) if isinstance(x, ast.Name)}
                    if y0 not in h.params and (tg.id == y0 or tg.id not in hnames):
                        extra["force"] = {y0: tg.id}
            elif kind == "yieldfrom":
                def make(v):
                    return [ast.Expr(value=ast.Yield(value=v))]
                head = []
            elif kind == "extend":
                acc = extra["acc"]

                def make(v, acc=acc):
                    return [ast.Expr(value=ast.Call(
                        func=ast.Attribute(value=copy.deepcopy(acc), attr="append",
                                           ctx=ast.Load()), args=[v], keywords=[]))]
                head = []
            else:
                tgt = extra["target"]
                ctor = extra["ctor"]
                if not isinstance(tgt, ast.Name):
                    i += 1
                    continue
                if ctor == "dict":
                    def make(v, tgt=tgt):
                        if isinstance(v, ast.Tuple) and len(v.elts) == 2:
                            return [ast.Assign(targets=[ast.Subscript(
                                value=ast.Name(id=tgt.id, ctx=ast.Load()), slice=v.elts[0],
                                ctx=ast.Store())], value=v.elts[1])]
                        return [ast.Expr(value=ast.Call(
                            func=ast.Attribute(value=ast.Name(id=tgt.id, ctx=ast.Load()),
                                               attr="update", ctx=ast.Load()),
                            args=[ast.List(elts=[v], ctx=ast.Load())], keywords=[]))]
                    init: ast.AST = ast.Dict(keys=[], values=[])
                else:
                    def make(v, tgt=tgt):
                        return [ast.Expr(value=ast.Call(
                            func=ast.Attribute(value=ast.Name(id=tgt.id, ctx=ast.Load()),
                                               attr="append", ctx=ast.Load()),
                            args=[v], keywords=[]))]
                    init = ast.List(elts=[], ctx=ast.Load()) if ctor in (
                        "list", "tuple", "set", "frozenset") else ast.Call(
                            func=ast.Name(id=ctor, ctx=ast.Load()), args=[], keywords=[])
                head = [ast.Assign(targets=[ast.Name(id=tgt.id, ctx=ast.Store())], value=init)]
            if structured_gen is not None:
                h = copy.copy(h)
                node2 = copy.copy(h.node)
                node2.body = structured_gen or [ast.Pass()]  # type: ignore[attr-defined]
                h.node = node2
            pre, body = _instantiate(h, env, caller_names, counter,
                                     extra.get("force"))  # type: ignore[arg-type]
            if h.gen_returns and h.gen_ret_as_break and not (kind == "yieldfrom"):
                class _RB(ast.NodeTransformer):
                    def visit_Return(self, node: ast.Return):
                        return ast.copy_location(ast.Break(), node)

                    def visit_FunctionDef(self, node):
                        return node
                    visit_Lambda = visit_FunctionDef
                body = [_RB().visit(s_) for s_ in body]
            tr_ = _Y(make)
            tr_.keep_from = kind == "yieldfrom"
            if kind == "for" and isinstance(st.target, ast.Name):
                tr_.loopvar = st.target.id
            body = [x for s_ in body for x in (lambda r: r if isinstance(r, list) else [r])(
                tr_.visit(s_))]
            if kind == "yieldfrom":
                # nested `yield from` of the helper stay as they are
                pass
            new = head + pre + body
            for s_ in new:
                for x in ast.walk(s_):
                    if not hasattr(x, "lineno"):
                        ast.copy_location(x, st)
            block[i:i + 1] = new or [ast.Pass()]
            n += 1
            i += len(new) or 1
    if n:
        ast.fix_missing_locations(fn)
    return n


def call_name_(c: ast.AST) -> str:
    if not isinstance(c, ast.Call):
        return ""
    f = c.func
    if isinstance(f, ast.Subscript):
        f = f.value
    return f.attr if isinstance(f, ast.Attribute) else (f.id if isinstance(f, ast.Name) else "")


def _decomprehend(fn: ast.AST, helpers, cls, counter: List[int]) -> int:
    """`v = [x for x in [helper(y) for y in L] if c(x)]` with a statement-bodied NEW helper inside:
    a comprehension cannot take statements, so it is written as the loop it abbreviates
    (`v = []; for y in L: x = helper(y); if c(x): v.append(x)`), nested comprehensions fused."""
    n = 0

    def has_proc_call(e: ast.AST) -> bool:
        for x in ast.walk(e):
            if isinstance(x, ast.Call):
                h, _r = _helper_of_call(x, helpers, cls)
                if h is not None and h.proc and h.expr is None:
                    return True
        return False
    for block in list(_blocks(fn)):
        i = 0
        while i < len(block):
            st = block[i]
            tgt = None
            if isinstance(st, ast.Assign) and len(st.targets) == 1 and isinstance(
                    st.targets[0], ast.Name):
                tgt = st.targets[0].id
            elif isinstance(st, ast.AnnAssign) and isinstance(st.target, ast.Name) and \
                    st.value is not None:
                tgt = st.target.id
            val = getattr(st, "value", None)
            if tgt is None or not isinstance(val, ast.ListComp) or len(val.generators) != 1 or \
                    not has_proc_call(val):
                i += 1
                continue
            g = val.generators[0]
            if g.is_async or not isinstance(g.target, ast.Name):
                i += 1
                continue
            body: List[ast.stmt]
            app = ast.Expr(value=ast.Call(func=ast.Attribute(
                value=ast.Name(id=tgt, ctx=ast.Load()), attr="append", ctx=ast.Load()),
                args=[val.elt], keywords=[]))
            inner: List[ast.stmt] = [app]
            for c in reversed(g.ifs):
                inner = [ast.If(test=c, body=inner, orelse=[])]
            it = g.iter
            if isinstance(it, ast.ListComp) and len(it.generators) == 1 and not \
                    it.generators[0].ifs and isinstance(it.generators[0].target, ast.Name):
                # fuse: for y in L: x = E(y); <inner>
                g2 = it.generators[0]
                loop = ast.For(target=ast.Name(id=g2.target.id + "_c", ctx=ast.Store())
                               if g2.target.id == g.target.id else g2.target,
                               iter=g2.iter, body=[], orelse=[])
                elt2 = it.elt
                if g2.target.id == g.target.id:
                    elt2 = _SubstNames({g2.target.id: ast.Name(id=g2.target.id + "_c",
                                                               ctx=ast.Load())}).visit(
                        copy.deepcopy(it.elt))
                loop.body = [ast.Assign(targets=[ast.Name(id=g.target.id, ctx=ast.Store())],
                                        value=elt2)] + inner
            else:
                loop = ast.For(target=g.target, iter=it, body=inner, orelse=[])
            init = ast.Assign(targets=[ast.Name(id=tgt, ctx=ast.Store())],
                              value=ast.List(elts=[], ctx=ast.Load()))
            new = [init, loop]
            for s_ in new:
                ast.copy_location(s_, st)
                for x in ast.walk(s_):
                    if not hasattr(x, "lineno"):
                        ast.copy_location(x, st)
            ast.fix_missing_locations(loop)
            block[i:i + 1] = new
            n += 1
            i += 2
    return n


def _inline_proc_calls(fn: ast.AST, helpers, cls, counter: List[int]) -> int:
    n = _hoist_test_calls(fn, helpers, cls, counter)
    n += _decomprehend(fn, helpers, cls, counter)
    # names the caller already uses: a local of an inlined helper keeps its own name unless it
    # clashes with one of these
    caller_names: Set[str] = {x.id for x in _walk_scope(fn) if isinstance(x, ast.Name)}
    a_ = fn.args  # type: ignore[attr-defined]
    caller_names |= {x.arg for x in a_.posonlyargs + a_.args + a_.kwonlyargs}
    for v_ in (a_.vararg, a_.kwarg):
        if v_ is not None:
            caller_names.add(v_.arg)
    _MULTI.clear()
    seen_h: Dict[int, int] = {}
    for x in _walk_scope(fn):
        if isinstance(x, ast.Call):
            h_, _r = _helper_of_call(x, helpers, cls)
            if h_ is not None:
                seen_h[id(h_.node)] = seen_h.get(id(h_.node), 0) + 1
    _MULTI.update(k for k, v in seen_h.items() if v > 1)
    n += _inline_generators(fn, helpers, cls, counter, caller_names)
    for block in list(_blocks(fn)):
        i = 0
        while i < len(block):
            st = block[i]
            call = None
            how = None
            if isinstance(st, ast.Expr) and isinstance(st.value, ast.Call):
                call, how = st.value, "stmt"
            elif isinstance(st, ast.Assign) and isinstance(st.value, ast.Call):
                call, how = st.value, "assign"
            elif isinstance(st, ast.Return) and isinstance(st.value, ast.Call):
                call, how = st.value, "return"
            from_gen = False
            if isinstance(st, ast.Assign) and isinstance(st.value, ast.YieldFrom) and \
                    isinstance(st.value.value, ast.Call):
                call, how, from_gen = st.value.value, "assign", True
            # `acc += helper(...)` / `acc.extend(helper(...))` where the helper builds and
            # returns a fresh list: the helper's list is the caller's accumulator
            acc_call = None
            acc_name = None
            if isinstance(st, ast.AugAssign) and isinstance(st.op, ast.Add) and isinstance(
                    st.target, ast.Name) and isinstance(st.value, ast.Call):
                acc_call, acc_name = st.value, st.target.id
            elif isinstance(st, ast.Expr) and isinstance(st.value, ast.Call) and isinstance(
                    st.value.func, ast.Attribute) and st.value.func.attr == "extend" and \
                    isinstance(st.value.func.value, ast.Name) and len(st.value.args) == 1 and \
                    isinstance(st.value.args[0], ast.Call):
                acc_call, acc_name = st.value.args[0], st.value.func.value.id
            if acc_call is not None:
                h_a, recv_a = _helper_of_call(acc_call, helpers, cls)
                new_a = _inline_accumulator(h_a, recv_a, acc_call, acc_name, counter) \
                    if h_a is not None else None
                if new_a is not None:
                    for s_ in new_a:
                        for x in ast.walk(s_):
                            if not hasattr(x, "lineno"):
                                ast.copy_location(x, st)
                    block[i:i + 1] = new_a or [ast.Pass()]
                    n += 1
                    i += len(new_a) or 1
                    continue
            # f(*helper(...)): the helper computes the argument tuple
            if isinstance(st, ast.Expr) and isinstance(st.value, ast.Call):
                stars = [a_ for a_ in st.value.args if isinstance(a_, ast.Starred) and
                         isinstance(a_.value, ast.Call)]
                if len(stars) == 1:
                    h_s, recv_s = _helper_of_call(stars[0].value, helpers, cls)
                    new_s = _inline_star(h_s, recv_s, st, stars[0], counter) \
                        if h_s is not None else None
                    if new_s is not None:
                        for s_ in new_s:
                            for x in ast.walk(s_):
                                if not hasattr(x, "lineno"):
                                    ast.copy_location(x, st)
                        block[i:i + 1] = new_s
                        n += 1
                        i += len(new_s)
                        continue
            h = recv = None
            if call is not None:
                h, recv = _helper_of_call(call, helpers, cls)
                if from_gen:
                    h = h.genret if h is not None else None
                elif h is not None and getattr(h, "genret", None) is not None and not h.proc:
                    h = None
                if (h is None or not h.proc) and how == "stmt" and call.args and isinstance(
                        call.func, ast.Attribute) and isinstance(call.args[0], ast.Call):
                    # x.extend(helper(...)) / x.append(helper(...))
                    h2, recv2 = _helper_of_call(call.args[0], helpers, cls)
                    if h2 is not None and h2.proc:
                        h, recv, how = h2, recv2, "arg0"
            if h is None or not h.proc or call is None:
                i += 1
                continue
            target_call = call.args[0] if how == "arg0" else call
            env = h.bind(target_call, recv)  # type: ignore[arg-type]
            if env is None:
                i += 1
                continue
            counter[0] += 1
            suffix = f"_h{counter[0]}"
            if h.structured is not None:
                body = copy.deepcopy(h.structured)
            else:
                body = copy.deepcopy(_strip_doc(h.node.body))  # type: ignore[attr-defined]
            # the helper's own locals get a fresh name, parameters that are assigned to as well
            stored = {x.id for s_ in body for x in _walk_scope(s_)
                      if isinstance(x, ast.Name) and isinstance(x.ctx, ast.Store)}
            pre: List[ast.stmt] = []
            # `x = helper(x, ...)`: the helper's parameter is the caller's variable
            same: Dict[str, str] = {}
            if how == "assign" and len(st.targets) == 1 and isinstance(
                    st.targets[0], ast.Tuple) and all(isinstance(e_, ast.Name)
                                                      for e_ in st.targets[0].elts):
                # `a, b = helper(...)` where every return of the helper is `return x, y` with
                # helper locals x, y: x is the caller's a, y the caller's b
                tnames = [e_.id for e_ in st.targets[0].elts]
                rets_ = [x for b_ in body for x in _walk_scope(b_) if isinstance(x, ast.Return)]
                shapes = {tuple(e_.id for e_ in r_.value.elts) if isinstance(
                    r_.value, ast.Tuple) and all(isinstance(e_, ast.Name) for e_ in r_.value.elts)
                    else None for r_ in rets_}
                if len(shapes) == 1 and None not in shapes:
                    rn = list(shapes.pop())
                    inner = {x.id for b_ in body for x in _walk_scope(b_)
                             if isinstance(x, ast.Name)}
                    if len(rn) == len(tnames) == len(set(rn)) and all(
                            r_ in stored and r_ not in env for r_ in rn) and all(
                                t_ == r_ or t_ not in inner for t_, r_ in zip(tnames, rn)) and \
                            not any(isinstance(x, ast.Name) and x.id in tnames
                                    for v in env.values() for x in ast.walk(v)):
                        for t_, r_ in zip(tnames, rn):
                            same[r_] = t_
            if how == "assign" and len(st.targets) == 1 and isinstance(st.targets[0], ast.Name):
                # `v = helper(...)` where every return of the helper is `return r` with one
                # helper local r: r is the caller's v
                rets_ = [x for b_ in body for x in _walk_scope(b_) if isinstance(x, ast.Return)]
                rn_ = {x.value.id if isinstance(x.value, ast.Name) else None for x in rets_}
                if len(rn_) == 1 and None not in rn_:
                    r_ = rn_.pop()
                    t_ = st.targets[0].id
                    inner = {x.id for b_ in body for x in _walk_scope(b_)
                             if isinstance(x, ast.Name)}
                    if r_ in stored and r_ not in env and (t_ == r_ or t_ not in inner) and \
                            not any(isinstance(x, ast.Name) and x.id == t_
                                    for v in env.values() for x in ast.walk(v)):
                        same[r_] = t_
            if how == "assign" and len(st.targets) == 1 and isinstance(st.targets[0], ast.Name):
                tname = st.targets[0].id
                for p in list(env):
                    if isinstance(env[p], ast.Name) and env[p].id == tname:
                        same[p] = tname
                if h.structured is not None:
                    returned = {x.value.id for b_ in body for x in _walk_scope(b_)
                                if isinstance(x, ast.Return) and isinstance(x.value, ast.Name)}
                    for pr in list(env):
                        if pr in returned and pr not in same and not isinstance(
                                env[pr], (ast.Name, ast.Constant)) and not any(
                                    isinstance(x, ast.Name) and x.id == tname
                                    for v in env.values() for x in ast.walk(v)
                                    if v is not env[pr]):
                            pre.append(ast.Assign(targets=[ast.Name(id=tname, ctx=ast.Store())],
                                                  value=copy.deepcopy(env[pr])))
                            same[pr] = tname
                            break
                # `x = helper(<expr>, ...)` where the helper ends in `return <that parameter>`:
                # the parameter is the caller's x, initialised with <expr>
                if h.structured is None and body and isinstance(body[-1], ast.Return) and \
                        isinstance(body[-1].value, ast.Name) and body[-1].value.id in env and \
                        body[-1].value.id not in same and not any(
                            isinstance(x, ast.Name) and x.id == tname
                            for v in env.values() for x in ast.walk(v)
                            if v is not env[body[-1].value.id]):
                    pr = body[-1].value.id
                    pre.append(ast.Assign(targets=[ast.Name(id=tname, ctx=ast.Store())],
                                          value=copy.deepcopy(env[pr])))
                    same[pr] = tname
            for p in list(env):
                if p in same:
                    continue
                if p in stored:
                    pre.append(ast.Assign(targets=[ast.Name(id=p + suffix, ctx=ast.Store())],
                                          value=copy.deepcopy(env[p])))
                    env[p] = ast.Name(id=p + suffix, ctx=ast.Load())
            comp_only = {c_ for c_ in _comp_only_names(body) if c_ not in env}
            multi = id(h.node) in _MULTI
            ren = {nm: (same[nm] if nm in same else
                        (nm + suffix if nm in caller_names or nm in env or multi else nm))
                   for nm in stored if nm not in comp_only or nm in same}
            caller_names |= set(ren.values())
            for p in same:
                env.pop(p, None)
                if p not in stored:
                    ren[p] = same[p]

            class _Ren(ast.NodeTransformer):
                def visit_Name(self, node: ast.Name) -> ast.AST:
                    if node.id in ren and isinstance(node.ctx, (ast.Store, ast.Del)):
                        return ast.copy_location(ast.Name(id=ren[node.id], ctx=node.ctx), node)
                    if node.id in ren and node.id not in env:
                        return ast.copy_location(ast.Name(id=ren[node.id], ctx=node.ctx), node)
                    return node
            lit_ = any(isinstance(v, ast.Constant) for v in env.values())
            body = [_SubstNames(env).visit(_Ren().visit(s_)) for s_ in body]
            if lit_:
                body = [_FoldConst().visit(s_) for s_ in body]
            ret = None
            if h.structured is not None:
                if how == "assign":
                    tg = st.targets

                    def make(v, tg=tg):
                        return [ast.Assign(targets=copy.deepcopy(tg), value=v if v is not None
                                           else ast.Constant(value=None))]
                elif how == "return":
                    def make(v):
                        return [ast.Return(value=v)]
                elif how == "arg0":
                    def make(v, call=call):
                        c2 = copy.deepcopy(call)
                        c2.args[0] = v if v is not None else ast.Constant(value=None)
                        # x.extend([a]) is x.append(a); x.extend([]) is nothing
                        if isinstance(c2.func, ast.Attribute) and c2.func.attr == "extend" and \
                                isinstance(c2.args[0], ast.List) and not any(
                                    isinstance(e_, ast.Starred) for e_ in c2.args[0].elts):
                            return [ast.Expr(value=ast.Call(
                                func=ast.Attribute(value=c2.func.value, attr="append",
                                                   ctx=ast.Load()), args=[e_], keywords=[]))
                                    for e_ in c2.args[0].elts]
                        return [ast.Expr(value=c2)]
                else:
                    def make(v):
                        return [ast.Expr(value=v)] if v is not None and not isinstance(
                            v, ast.Constant) else []
                new = pre + _returns_to_assign(body, make)

                class _DropSelf(ast.NodeTransformer):
                    def visit_Assign(self, node: ast.Assign):
                        if len(node.targets) == 1 and isinstance(node.targets[0], ast.Name) and \
                                isinstance(node.value, ast.Name) and \
                                node.value.id == node.targets[0].id:
                            return ast.Pass()
                        if len(node.targets) == 1 and isinstance(
                                node.targets[0], ast.Tuple) and isinstance(
                                    node.value, ast.Tuple) and [
                                        ast.unparse(e_) for e_ in node.targets[0].elts] == [
                                            ast.unparse(e_) for e_ in node.value.elts]:
                            return ast.Pass()
                        return node
                new = [_DropSelf().visit(s_) for s_ in new]
                for s_ in new:
                    for x in ast.walk(s_):
                        if not hasattr(x, "lineno"):
                            ast.copy_location(x, st)
                block[i:i + 1] = new or [ast.Pass()]
                n += 1
                i += len(new) or 1
                continue
            if h.loopret is not None:
                if how == "arg0":
                    i += 1
                    continue
                if how == "assign":
                    tgs = st.targets

                    def mk(v, tgs=tgs):
                        return [ast.Assign(targets=copy.deepcopy(tgs), value=v if v is not None
                                           else ast.Constant(value=None))]
                elif how == "return":
                    def mk(v):
                        return [ast.Return(value=v)]
                else:
                    def mk(v):
                        return []
                is_ret = how == "return"

                class _RetBreak2(ast.NodeTransformer):
                    def visit_Return(self, node: ast.Return):
                        return mk(node.value) + ([] if is_ret else [ast.Break()])

                    def visit_FunctionDef(self, node):
                        return node
                    visit_Lambda = visit_FunctionDef
                k = h.loopret
                loop = _RetBreak2().visit(body[k])
                post = body[k + 1:]
                if post and any(isinstance(x, ast.Return) for s_ in post
                                for x in _walk_scope(s_)):
                    post = _returns_to_assign(_structure_returns(post) or post, mk)
                elif how != "stmt":
                    post = post + mk(None)  # falling off the end returns None
                if is_ret:
                    new = pre + body[:k] + [loop] + post
                else:
                    loop.orelse = post
                    new = pre + body[:k] + [loop]
                for s_ in new:
                    for x in ast.walk(s_):
                        if not hasattr(x, "lineno"):
                            ast.copy_location(x, st)
                block[i:i + 1] = new
                n += 1
                i += len(new)
                continue
            if h.loopconst:
                if how != "assign":
                    i += 1
                    continue
                tg = st.targets

                class _RetBreak(ast.NodeTransformer):
                    def visit_Return(self, node: ast.Return):
                        return [ast.Assign(targets=copy.deepcopy(tg), value=node.value),
                                ast.Break()]

                    def visit_FunctionDef(self, node):
                        return node
                    visit_Lambda = visit_FunctionDef
                first = ast.Assign(targets=copy.deepcopy(tg), value=body[-1].value)
                new = [first] + pre + body[:-2] + [_RetBreak().visit(body[-2])]
                for s_ in new:
                    for x in ast.walk(s_):
                        if not hasattr(x, "lineno"):
                            ast.copy_location(x, st)
                block[i:i + 1] = new
                n += 1
                i += len(new)
                continue
            if body and isinstance(body[-1], ast.Return):
                ret = body[-1].value
                body = body[:-1]
            new: List[ast.stmt] = pre + body
            if how == "stmt":
                pass
            elif how == "assign":
                tg_txt = [ast.unparse(e_) for e_ in getattr(st.targets[0], "elts", [st.targets[0]])]
                rt_txt = [ast.unparse(e_) for e_ in getattr(ret, "elts", [ret])] \
                    if ret is not None else None
                if not (len(st.targets) == 1 and tg_txt == rt_txt):
                    new.append(ast.Assign(targets=st.targets, value=ret if ret is not None else
                                          ast.Constant(value=None)))
            elif how == "return":
                new.append(ast.Return(value=ret))
            elif how == "arg0":
                c2 = copy.deepcopy(call)
                c2.args[0] = ret if ret is not None else ast.Constant(value=None)
                new.append(ast.Expr(value=c2))
            for s_ in new:
                ast.copy_location(s_, st)
                for x in ast.walk(s_):
                    if not hasattr(x, "lineno"):
                        ast.copy_location(x, st)
            block[i:i + 1] = new or [ast.Pass()]
            n += 1
            i += len(new) or 1
    return n


def inline_helpers(tree: ast.Module, modname: str, ref_functions: Set[str]) -> int:
    """Inline calls of functions that are not part of the reference tree."""
    helpers: Dict[Tuple[str, str], _Helper] = {}

    def collect(body, prefix: str, cls: Optional[str]) -> None:
        for st in body:
            if isinstance(st, (ast.FunctionDef, ast.AsyncFunctionDef)):
                key = f"{modname}:{prefix}{st.name}"
                if key not in ref_functions and not st.name.startswith("__") or (
                        key not in ref_functions and not st.name.endswith("__")):
                    decs = {ast.unparse(d).split(".")[-1].split("(")[0] for d in st.decorator_list}
                    if decs - {"staticmethod", "classmethod", "override"}:
                        continue
                    if cls is None:
                        kind = "function"
                    elif "staticmethod" in decs:
                        kind = "static"
                    else:
                        kind = "method"
                    helpers[(cls or "", st.name)] = _Helper(st, kind, cls)
            elif isinstance(st, ast.ClassDef) and cls is None:
                collect(st.body, f"{prefix}{st.name}.", st.name)
    collect(tree.body, "", None)
    n = 0
    counter = [0]

    def process(fn: ast.AST, cls: Optional[str], local: Dict[Tuple[str, str], _Helper]) -> None:
        nonlocal n
        hs = dict(helpers)
        hs.update(local)
        # nested helpers of this function (also those defined inside a with / if / try block)
        for st in [s_ for b_ in _blocks(fn) for s_ in b_]:
            if isinstance(st, ast.FunctionDef):
                key = None
                for k, f2 in _fkeys.items():
                    if f2 is st:
                        key = k
                if key is not None and key not in ref_functions:
                    hs[("", st.name)] = _Helper(st, "nested", None)
        if not hs:
            return
        for _round in range(4):
            # closures that came in with an inlined helper
            for st in [s_ for b_ in _blocks(fn) for s_ in b_]:
                if isinstance(st, ast.FunctionDef) and ("", st.name) not in hs and not any(
                        f2 is st for f2 in _fkeys.values()):
                    hs[("", st.name)] = _Helper(st, "nested", None)
            k = _inline_proc_calls(fn, hs, cls, counter)
            tr = _InlineExprCalls(hs, cls)
            fn.body = [tr.visit(s_) if not isinstance(  # type: ignore[attr-defined]
                s_, (ast.FunctionDef, ast.AsyncFunctionDef)) else s_
                for s_ in fn.body]  # type: ignore[attr-defined]
            n += k + tr.n
            if not k and not tr.n:
                break
        if n:
            for _r in range(8):
                if not fold_flag_tests(fn) + (scalarise_records(fn, recs) if recs else 0):
                    break
            # statements behind a return / raise / break / continue, and `pass` among others
            for b_ in list(_blocks(fn)):
                for j_, s_ in enumerate(b_):
                    if isinstance(s_, (ast.Return, ast.Raise, ast.Break, ast.Continue)):
                        del b_[j_ + 1:]
                        break
                if len(b_) > 1:
                    b_[:] = [s_ for s_ in b_ if not isinstance(s_, ast.Pass)] or [ast.Pass()]
        # drop nested helper definitions that are no longer referenced
        used = {x.id for x in _walk_scope(fn) if isinstance(x, ast.Name) and
                isinstance(x.ctx, ast.Load)}
        for b_ in list(_blocks(fn)):
            b_[:] = [s_ for s_ in b_ if not (
                isinstance(s_, ast.FunctionDef) and ("", s_.name) in hs and
                hs[("", s_.name)].kind == "nested" and s_.name not in used)] or [ast.Pass()]

    from .localnames import function_keys
    _fkeys = dict(function_keys(tree, modname))
    recs = record_classes(tree, modname, ref_functions)
    for key, fn in list(_fkeys.items()):
        if key not in ref_functions:
            continue  # helpers themselves are not rewritten (they may be inlined elsewhere)
        parts = key.split(":", 1)[1].split(".")
        cls = parts[0] if len(parts) >= 2 and parts[0][:1].isupper() else None
        process(fn, cls, {})
    if n:
        # helpers whose every use was folded back are no longer part of the program: rules that
        # scan all functions would otherwise see their bodies a second time, out of context
        hnodes = {id(h.node): h for h in helpers.values()}
        inside: Set[int] = set()
        for h in helpers.values():
            for x in ast.walk(h.node):
                inside.add(id(x))
        used: Set[str] = set()
        for x in ast.walk(tree):
            if id(x) in inside:
                continue
            if isinstance(x, ast.Name):
                used.add(x.id)
            elif isinstance(x, ast.Attribute):
                used.add(x.attr)
        # a helper used by another helper that stays is kept as well
        changed_ = True
        keep = {id(h.node) for h in helpers.values() if h.node.name in used}  # type: ignore
        while changed_:
            changed_ = False
            for h in helpers.values():
                if id(h.node) in keep:
                    for x in ast.walk(h.node):
                        nm = x.id if isinstance(x, ast.Name) else (
                            x.attr if isinstance(x, ast.Attribute) else None)
                        for h2 in helpers.values():
                            if nm == h2.node.name and id(h2.node) not in keep:  # type: ignore
                                keep.add(id(h2.node))
                                changed_ = True

        def prune(body: List[ast.stmt]) -> List[ast.stmt]:
            out = []
            for st in body:
                if id(st) in hnodes and id(st) not in keep:
                    continue
                if isinstance(st, ast.ClassDef):
                    st.body = prune(st.body) or [ast.Pass()]
                out.append(st)
            return out
        tree.body = prune(tree.body)
        ast.fix_missing_locations(tree)
    return n
