"""Tiny evaluator of boolean tests over a finite assignment (decision-table analysis).

``eval_test(test, env)`` evaluates an ``ast`` test when every atom is a comparison of an
expression found in ``env`` (keyed by its unparsed text) with enum-like constants
(``Encoding.UCS2``), ``None``, literals, or a plain truth value found in ``env``. Returns
True / False, or None when the test contains something the environment does not decide.
Used to read decision tables off if/elif chains and conditional expressions independently of how
they are written.
"""
from __future__ import annotations

import ast
from typing import Any, Dict, Optional

_UNKNOWN = object()


def _val(e: ast.AST, env: Dict[str, Any]) -> Any:
    txt = ast.unparse(e)
    if txt in env:
        return env[txt]
    if isinstance(e, ast.IfExp):
        c = eval_test(e.test, env)
        if c is None:
            return _UNKNOWN
        return _val(e.body if c else e.orelse, env)
    if isinstance(e, ast.Constant):
        return e.value
    if isinstance(e, ast.Attribute) and isinstance(e.value, ast.Name) and \
            e.value.id[:1].isupper():
        return txt  # enum member, compared by name
    return _UNKNOWN


def eval_test(test: ast.AST, env: Dict[str, Any], leaf=None) -> Optional[bool]:
    """``leaf(node) -> True / False / None`` gets the first shot at every sub-test (used to
    decide atoms the scenario describes semantically, e.g. "the sign test")."""
    if leaf is not None:
        r0 = leaf(test)
        if r0 is not None:
            return r0
    if isinstance(test, ast.UnaryOp) and isinstance(test.op, ast.Not):
        r = eval_test(test.operand, env, leaf)
        return None if r is None else not r
    if isinstance(test, ast.IfExp):
        c = eval_test(test.test, env, leaf)
        if c is None:
            a, b = eval_test(test.body, env, leaf), eval_test(test.orelse, env, leaf)
            return a if a == b else None
        return eval_test(test.body if c else test.orelse, env, leaf)
    if isinstance(test, ast.BoolOp):
        rs = [eval_test(v, env, leaf) for v in test.values]
        if isinstance(test.op, ast.And):
            if any(r is False for r in rs):
                return False
            return None if any(r is None for r in rs) else True
        if any(r is True for r in rs):
            return True
        return None if any(r is None for r in rs) else False
    if isinstance(test, ast.Compare) and len(test.ops) == 1:
        op, r = test.ops[0], test.comparators[0]
        # a scenario may decide a whole atom (`x in known`, `a == b`) given in its positive form
        pos = {ast.NotIn: ast.In, ast.NotEq: ast.Eq, ast.IsNot: ast.Is}.get(type(op))
        forms = [(test.left, r)]
        if isinstance(op, (ast.Eq, ast.NotEq, ast.Is, ast.IsNot)):
            forms.append((r, test.left))
        for l_, r_ in forms:
            txt = ast.unparse(ast.Compare(left=l_, ops=[(pos or type(op))()], comparators=[r_]))
            if txt in env and isinstance(env[txt], bool):
                return (not env[txt]) if pos else env[txt]
        lv = _val(test.left, env)
        if lv is _UNKNOWN:
            return None
        if isinstance(op, (ast.In, ast.NotIn)) and isinstance(r, (ast.Tuple, ast.List, ast.Set)):
            vs = [_val(x, env) for x in r.elts]
            if any(v is _UNKNOWN for v in vs):
                return None
            res = any(lv is v or lv == v for v in vs)
            return res if isinstance(op, ast.In) else not res
        rv = _val(r, env)
        if rv is _UNKNOWN:
            return None
        if isinstance(op, (ast.In, ast.NotIn)) and isinstance(rv, (list, tuple, set, frozenset)):
            # membership in a named table whose content the scenario supplies
            res = any(lv is v or lv == v for v in rv)
            return res if isinstance(op, ast.In) else not res
        if isinstance(op, (ast.Eq, ast.Is)):
            return lv is rv or lv == rv
        if isinstance(op, (ast.NotEq, ast.IsNot)):
            return not (lv is rv or lv == rv)
        if isinstance(lv, (int, float)) and isinstance(rv, (int, float)) and not isinstance(
                lv, bool) and not isinstance(rv, bool):
            # a finite set of orderings: scenario values stand for <, ==, >
            if isinstance(op, ast.Lt):
                return lv < rv
            if isinstance(op, ast.LtE):
                return lv <= rv
            if isinstance(op, ast.Gt):
                return lv > rv
            if isinstance(op, ast.GtE):
                return lv >= rv
        return None
    if isinstance(test, ast.Call) and isinstance(test.func, ast.Name) and \
            test.func.id == "isinstance" and len(test.args) == 2 and \
            ast.unparse(test) not in env:
        v0 = _val(test.args[0], env)
        ttxt = ast.unparse(test.args[1])
        if v0 is None and "NoneType" not in ttxt and "object" not in ttxt:
            return False  # a missing value is an instance of no ordinary class
    v = _val(test, env)
    if v is _UNKNOWN:
        return None
    return bool(v)


def select_path(paths, env: Dict[str, Any]):
    """The first (conds, expr, node) of ``symbolic_returns`` whose conditions all hold under
    env; None if some condition is undecided before a decided path is found."""
    for conds, e, r in paths:
        verdicts = [eval_test(t, env) for t, _p in conds]
        if any(v is None for v in verdicts):
            return None
        if all(v == p for v, (_t, p) in zip(verdicts, conds)):
            return conds, e, r
    return None


def consistent_paths(paths, env: Dict[str, Any]):
    """All (conds, expr, node) whose decidable conditions hold under env (undecided conditions
    do not exclude a path)."""
    out = []
    for conds, e, r in paths:
        ok = True
        for t, p in conds:
            v = eval_test(t, env)
            if v is not None and v != p:
                ok = False
                break
        if ok:
            out.append((conds, e, r))
    return out


def specialise(expr: Optional[ast.AST], env: Dict[str, Any], leaf=None) -> Optional[ast.AST]:
    """``expr`` with every conditional expression whose test the scenario decides replaced by
    the selected arm (at any depth)."""
    import copy
    if expr is None:
        return None

    class Tr(ast.NodeTransformer):
        def visit_IfExp(self, node: ast.IfExp) -> ast.AST:
            c = eval_test(node.test, env, leaf)
            if c is None:
                return self.generic_visit(node)
            return self.visit(node.body if c else node.orelse)
    return ast.fix_missing_locations(Tr().visit(copy.deepcopy(expr)))
