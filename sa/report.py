"""Verdicts, evidence files, known-findings matching.

A *rule instance* is one obligation a rule discharges on one construct of the
current tree.  ``Run.ok`` records a discharged instance, ``Run.violation`` a
failed one.  Findings are keyed ``<rule>/<construct>/<aspect>``; keys never
contain line numbers.
"""
from __future__ import annotations

import json
import os
import sys
import time
from typing import Any, Dict, List, Optional

VERIF = os.path.dirname(os.path.dirname(os.path.abspath(__file__)))
KNOWN_FILE = os.path.join(VERIF, "known_findings.json")
EVIDENCE_DIR = os.path.join(VERIF, "evidence")
REPLAY_DIR = os.path.join(EVIDENCE_DIR, "replay")


def load_known() -> Dict[str, Dict[str, Any]]:
    if not os.path.exists(KNOWN_FILE):
        return {}
    with open(KNOWN_FILE) as f:
        recs = json.load(f)
    return {r["key"]: r for r in recs if r.get("status") == "known"}


class Run:

    def __init__(self, prop: str, tier: str, explanation: str, assumptions: List[str]):
        self.prop = prop
        self.tier = tier
        self.t0 = time.time()
        self.explanation = explanation
        self.assumptions = assumptions
        self.instances: List[Dict[str, Any]] = []
        self.violations: List[Dict[str, Any]] = []
        self.rule_counts: Dict[str, int] = {}
        self.rule_text: Dict[str, str] = {}
        self.floors: Dict[str, int] = {}
        self.notes: List[str] = []
        self.analysed: Dict[str, Any] = {}
        self.errors: List[str] = []
        self.only_key: Optional[str] = None  # replay mode

    # ------------------------------------------------------------ recording
    def rule(self, rule: str, text: str, floor: int = 1) -> None:
        self.rule_text[rule] = text
        self.floors[rule] = floor
        self.rule_counts.setdefault(rule, 0)

    def ok(self, rule: str, construct: str, what: str, loc: str = "") -> None:
        self.rule_counts[rule] = self.rule_counts.get(rule, 0) + 1
        self.instances.append({"rule": rule, "construct": construct, "obligation": what,
                               "loc": loc, "verdict": "holds"})

    def violation(self, rule: str, construct: str, aspect: str, what: str, loc: str = "",
                  stmt: str = "", path: Optional[List[str]] = None) -> None:
        self.rule_counts[rule] = self.rule_counts.get(rule, 0) + 1
        key = f"{rule}/{construct}/{aspect}"
        rec = {"rule": rule, "construct": construct, "aspect": aspect, "key": key,
               "obligation": what, "loc": loc, "stmt": stmt, "verdict": "violated"}
        if path:
            rec["path"] = path
        # the same key reported twice (e.g. by two rules walking the same site)
        if any(v["key"] == key for v in self.violations):
            return
        self.instances.append(rec)
        self.violations.append(rec)

    def note(self, text: str) -> None:
        self.notes.append(text)

    def error(self, text: str, more: str = "") -> None:
        """The analysis could not see what it needs (exit 2).  `error(rule, text)` is accepted
        too."""
        self.errors.append(f"{text}: {more}" if more else text)

    def info(self, key: str, value: Any) -> None:
        self.analysed[key] = value

    # -------------------------------------------------------------- finish
    def finish(self) -> int:
        known = load_known()
        for r, fl in self.floors.items():
            if self.rule_counts.get(r, 0) < fl:
                self.errors.append(
                    f"rule {r} matched {self.rule_counts.get(r, 0)} instance(s), below its "
                    f"hand-confirmed floor of {fl}: an anchor moved or a shape is no longer "
                    f"recognised")
        new = []
        kn = []
        for v in self.violations:
            if self.only_key and v["key"] != self.only_key:
                continue
            if v["key"] in known:
                kn.append(v)
            else:
                new.append(v)
        os.makedirs(REPLAY_DIR, exist_ok=True)
        # a listed finding that this run does not observe: either it was repaired in the tree
        # under analysis or the rule lost sight of it; say so (it never fails the run)
        seen_keys = {v["key"] for v in kn}
        if not self.only_key:
            for k, rec in known.items():
                if rec.get("property") == self.prop and k not in seen_keys:
                    print(f"NOTE: listed known finding not observed on this tree: {k}")
        for v in kn:
            print(f"KNOWN-FINDING: property={self.prop} {v['key']} :: {known[v['key']].get('what', v['obligation'])}")
        code = 0
        for v in new:
            fn = os.path.join(REPLAY_DIR, f"{self.prop}_" + "".join(
                c if c.isalnum() or c in "._-" else "_" for c in v["key"])[:150] + ".json")
            if not os.environ.get("SA_NO_EVIDENCE"):
                with open(fn, "w") as f:
                    json.dump({"property": self.prop, **v}, f, indent=1)
            print(f"VIOLATION property={self.prop} replay={fn}")
            print(f"  rule {v['rule']}: {self.rule_text.get(v['rule'], '')}")
            print(f"  at {v['loc']} {v['construct']} [{v['aspect']}]: {v['obligation']}")
            if v.get("stmt"):
                print(f"  statement: {v['stmt']}")
            if v.get("path"):
                print(f"  path: {' -> '.join(v['path'])}")
            code = 1
        if self.errors and code == 0:
            for e in self.errors:
                print(f"ANALYSIS-ERROR property={self.prop} {e}")
            code = 2
        elif self.errors:
            for e in self.errors:
                print(f"ANALYSIS-ERROR property={self.prop} {e}")
        self._write_evidence(len(new), kn)
        n_ok = sum(1 for i in self.instances if i["verdict"] == "holds")
        print(f"{self.prop} [{self.tier}]: {len(self.instances)} rule instances over "
              f"{len(self.rule_counts)} rules; {n_ok} hold, {len(kn)} known finding(s), "
              f"{len(new)} new violation(s), {len(self.errors)} analysis error(s); "
              f"{time.time() - self.t0:.2f}s")
        return code

    def _write_evidence(self, n_new: int, kn: List[Dict[str, Any]]) -> None:
        if os.environ.get("SA_NO_EVIDENCE"):
            return  # used by the self-test / seed runner on scratch copies only
        os.makedirs(EVIDENCE_DIR, exist_ok=True)
        holds = [i for i in self.instances if i["verdict"] == "holds"]
        distinct = {(i["rule"], i["construct"], i["obligation"]) for i in self.instances}
        samples: List[Dict[str, Any]] = []
        per_rule: Dict[str, int] = {}
        for i in self.instances:
            c = per_rule.get(i["rule"], 0)
            if c < 3 or i["verdict"] != "holds":
                samples.append(i)
            per_rule[i["rule"]] = c + 1
        ev = {
            "property_id": self.prop,
            "tier": self.tier,
            "seed": int(os.environ.get("VERIF_SEED", "0") or 0),
            "level": "other",
            "coverage": {
                "explanation": self.explanation,
                "obligations": len(self.instances),
                "discharged": len(holds),
                "known_findings": [v["key"] for v in kn],
                "evaluations": len(self.instances),
                "distinct_nontrivial": len(distinct),
                "rule": "one evaluation = one rule instance (rule x construct of the current "
                        "tree); distinct = distinct (rule, construct, obligation) triples",
                "rules": {r: {"text": self.rule_text.get(r, ""), "instances": n,
                              "floor": self.floors.get(r, 0)}
                          for r, n in sorted(self.rule_counts.items())},
                "samples": samples[:120],
                "analysed": self.analysed,
                "notes": self.notes,
                "checker_cmd": f"/venv/bin/python -m sa.check {self.prop} --tier {self.tier}",
                "trusted_base": ["CPython ast parser", "jinja2 parser (C11 only)",
                                 "the rule tables in /verif/sa/rules"],
                "exhaustive": True,
            },
            "assumptions": self.assumptions,
            "wall_s": round(time.time() - self.t0, 3),
            "violations": n_new,
        }
        with open(os.path.join(EVIDENCE_DIR, f"{self.prop}.json"), "w") as f:
            json.dump(ev, f, indent=1, default=str)


def fail_analysis(prop: str, msg: str) -> int:
    print(f"ANALYSIS-ERROR property={prop} {msg}")
    return 2
