"""Source model: modules, import maps, class table, MRO, fields, methods.

Everything is computed from the syntax trees of ``$ODXTOOLS_REPO`` (default
``/repo``) on every run.
"""
from __future__ import annotations

import ast
import os
from dataclasses import dataclass, field
from typing import Dict, Iterator, List, Optional, Tuple, Union

REPO = os.environ.get("ODXTOOLS_REPO", "/repo")
PKG = "odxtools"


class AnalysisError(Exception):
    """The analysis cannot see what it needs (vanished anchor, unknown shape)."""


@dataclass(eq=False)
class Module:
    name: str  # dotted, e.g. odxtools.codec
    path: str  # absolute
    rel: str  # relative to repo root
    source: str
    tree: ast.Module
    # local name -> (module dotted name, attribute or None)
    imports: Dict[str, Tuple[str, Optional[str]]] = field(default_factory=dict)
    is_pkg: bool = False


@dataclass(eq=False)
class FuncInfo:
    name: str
    qual: str  # Class.method or function
    module: Module
    cls: Optional["ClassInfo"]
    node: Union[ast.FunctionDef, ast.AsyncFunctionDef]
    decorators: List[str]

    @property
    def is_property(self) -> bool:
        return "property" in self.decorators or any(d.endswith(".setter") for d in self.decorators)

    @property
    def is_static(self) -> bool:
        return "staticmethod" in self.decorators

    @property
    def key(self) -> str:
        return f"{self.module.name}:{self.qual}"

    @property
    def loc(self) -> str:
        return f"{self.module.rel}:{self.node.lineno}"

    def params(self) -> List[str]:
        a = self.node.args
        return [x.arg for x in a.posonlyargs + a.args + a.kwonlyargs]

    def param_annotation(self, name: str) -> Optional[ast.expr]:
        a = self.node.args
        for x in a.posonlyargs + a.args + a.kwonlyargs:
            if x.arg == name:
                return x.annotation
        return None


@dataclass(eq=False)
class ClassInfo:
    name: str
    module: Module
    node: ast.ClassDef
    base_names: List[str]
    bases: List["ClassInfo"] = field(default_factory=list)
    methods: Dict[str, FuncInfo] = field(default_factory=dict)
    # own annotated class-level names, in order: (name, annotation, default)
    fields: List[Tuple[str, Optional[ast.expr], Optional[ast.expr]]] = field(default_factory=list)
    is_dataclass: bool = False
    is_enum: bool = False
    enum_members: Dict[str, ast.expr] = field(default_factory=dict)

    @property
    def loc(self) -> str:
        return f"{self.module.rel}:{self.node.lineno}"


def _dec_name(d: ast.expr) -> str:
    if isinstance(d, ast.Call):
        d = d.func
    try:
        return ast.unparse(d)
    except Exception:  # pragma: no cover
        return "?"


class Program:

    def __init__(self, repo: str = REPO, extra_dirs: Tuple[str, ...] = ()):
        self.repo = repo
        self.modules: Dict[str, Module] = {}
        self.classes: Dict[str, ClassInfo] = {}
        self.classes_by_mod: Dict[Tuple[str, str], ClassInfo] = {}
        self.functions: Dict[str, FuncInfo] = {}  # module:qual -> info
        self._mro_cache: Dict[int, List[ClassInfo]] = {}
        self.class_aliases: Dict[Tuple[str, str], ClassInfo] = {}
        self._subs: Dict[str, List[ClassInfo]] = {}
        pkgdir = os.path.join(repo, PKG)
        if not os.path.isdir(pkgdir):
            raise AnalysisError(f"package directory {pkgdir} not found")
        self._load_dir(pkgdir, PKG)
        for d in extra_dirs:
            p = os.path.join(repo, d)
            if os.path.isdir(p):
                self._load_dir(p, d.replace("/", "."))
        self._index()

    # ------------------------------------------------------------------ load
    def _load_dir(self, d: str, dotted: str) -> None:
        for root, dirs, files in os.walk(d):
            dirs[:] = sorted(x for x in dirs if x != "__pycache__")
            for fn in sorted(files):
                if not fn.endswith(".py"):
                    continue
                path = os.path.join(root, fn)
                rel = os.path.relpath(path, self.repo)
                sub = os.path.relpath(path, d)[:-3].replace(os.sep, ".")
                is_pkg = False
                if sub.endswith("__init__"):
                    sub = sub[:-len("__init__")].rstrip(".")
                    is_pkg = True
                name = dotted + ("." + sub if sub else "")
                with open(path, encoding="utf-8") as f:
                    source = f.read()
                try:
                    tree = ast.parse(source, filename=path)
                except SyntaxError as e:
                    raise AnalysisError(f"{rel} does not parse: {e}")
                from .localnames import canonicalise, normalise_logic, orient_comparisons
                canonicalise(tree, name)
                normalise_logic(tree)
                orient_comparisons(tree)
                self.modules[name] = Module(name, path, rel, source, tree, is_pkg=is_pkg)

    def _resolve_from(self, mod: Module, level: int, modname: Optional[str]) -> str:
        if level == 0:
            return modname or ""
        parts = mod.name.split(".")
        if not mod.is_pkg:
            parts = parts[:-1]
        if level > 1:
            parts = parts[:len(parts) - (level - 1)]
        if modname:
            parts = parts + modname.split(".")
        return ".".join(parts)

    def _index(self) -> None:
        for mod in self.modules.values():
            for node in ast.walk(mod.tree):
                if isinstance(node, ast.ImportFrom):
                    base = self._resolve_from(mod, node.level, node.module)
                    for al in node.names:
                        mod.imports[al.asname or al.name] = (base, al.name)
                elif isinstance(node, ast.Import):
                    for al in node.names:
                        if al.asname:
                            mod.imports[al.asname] = (al.name, None)
                        else:
                            mod.imports[al.name.split(".")[0]] = (al.name.split(".")[0], None)
            for node in mod.tree.body:
                self._index_stmt(mod, node)
        # module-level class aliases:  CompuInverseValue = CompuConst
        for mod in self.modules.values():
            for st in mod.tree.body:
                if isinstance(st, ast.Assign) and len(st.targets) == 1 and isinstance(
                        st.targets[0], ast.Name) and isinstance(st.value, ast.Name):
                    tgt = self.resolve_class_name(mod, st.value.id)
                    if tgt is not None and (mod.name, st.targets[0].id) not in self.classes_by_mod:
                        self.class_aliases[(mod.name, st.targets[0].id)] = tgt
        for (m, n), tgt in self.class_aliases.items():
            self.classes_by_mod.setdefault((m, n), tgt)
            self.classes.setdefault(n, tgt)
        # resolve bases
        for ci in list({id(c): c for c in self.classes_by_mod.values()}.values()):
            for bn in ci.base_names:
                b = self.resolve_class_name(ci.module, bn)
                if b is not None:
                    ci.bases.append(b)
            ci.is_enum = any(b.name in ("Enum", "IntEnum") for b in ci.bases) or any(
                bn.split(".")[-1] in ("Enum", "IntEnum") for bn in ci.base_names)
        for ci in self.classes_by_mod.values():
            if any(c.is_enum for c in self.mro(ci)):
                ci.is_enum = True
            if ci.is_enum:
                for st in ci.node.body:
                    if isinstance(st, ast.Assign) and len(st.targets) == 1 and isinstance(
                            st.targets[0], ast.Name):
                        ci.enum_members[st.targets[0].id] = st.value

    def _index_stmt(self, mod: Module, node: ast.stmt) -> None:
        if isinstance(node, (ast.FunctionDef, ast.AsyncFunctionDef)):
            fi = FuncInfo(node.name, node.name, mod, None, node,
                          [_dec_name(d) for d in node.decorator_list])
            self.functions[fi.key] = fi
        elif isinstance(node, ast.ClassDef):
            ci = ClassInfo(node.name, mod, node, [ast.unparse(b) for b in node.bases])
            ci.is_dataclass = any(_dec_name(d).split(".")[-1] == "dataclass"
                                  for d in node.decorator_list)
            for st in node.body:
                if isinstance(st, (ast.FunctionDef, ast.AsyncFunctionDef)):
                    decs = [_dec_name(d) for d in st.decorator_list]
                    fi = FuncInfo(st.name, f"{node.name}.{st.name}", mod, ci, st, decs)
                    if any(d.endswith(".setter") for d in decs) and st.name in ci.methods:
                        # keep the getter as the primary entry
                        self.functions[fi.key + "@setter"] = fi
                        continue
                    ci.methods[st.name] = fi
                    self.functions[fi.key] = fi
                elif isinstance(st, ast.AnnAssign) and isinstance(st.target, ast.Name):
                    ci.fields.append((st.target.id, st.annotation, st.value))
                elif isinstance(st, ast.Assign) and len(st.targets) == 1 and isinstance(
                        st.targets[0], ast.Name):
                    ci.fields.append((st.targets[0].id, None, st.value))
            self.classes_by_mod[(mod.name, node.name)] = ci
            # first definition wins for the global name table, except that the
            # more widely used one is preferred (only `State` is duplicated)
            if node.name not in self.classes or mod.name.count(".") < self.classes[
                    node.name].module.name.count("."):
                self.classes[node.name] = ci
        elif isinstance(node, (ast.If, ast.Try)):
            for sub in ast.iter_child_nodes(node):
                if isinstance(sub, ast.stmt):
                    self._index_stmt(mod, sub)
            if isinstance(node, ast.Try):
                for h in node.handlers:
                    for sub in h.body:
                        self._index_stmt(mod, sub)

    # --------------------------------------------------------------- lookups
    def module(self, name: str) -> Module:
        if name not in self.modules:
            raise AnalysisError(f"module {name} not found")
        return self.modules[name]

    def module_by_rel(self, rel: str) -> Module:
        for m in self.modules.values():
            if m.rel == rel:
                return m
        raise AnalysisError(f"file {rel} not found")

    def resolve_class_name(self, mod: Module, name: str) -> Optional[ClassInfo]:
        """Resolve a (possibly dotted / quoted) class name as seen from ``mod``."""
        name = name.strip("\"'")
        head = name.split(".")[0]
        last = name.split(".")[-1]
        if (mod.name, name) in self.classes_by_mod:
            return self.classes_by_mod[(mod.name, name)]
        if head in mod.imports:
            src, attr = mod.imports[head]
            if attr is not None:
                if (src, attr) in self.classes_by_mod:
                    return self.classes_by_mod[(src, attr)]
                # re-exported through a package __init__
                if src in self.modules and attr in self.modules[src].imports:
                    s2, a2 = self.modules[src].imports[attr]
                    if a2 and (s2, a2) in self.classes_by_mod:
                        return self.classes_by_mod[(s2, a2)]
                # from . import module  -> module.Class
                sub = f"{src}.{attr}"
                if "." in name and (sub, last) in self.classes_by_mod:
                    return self.classes_by_mod[(sub, last)]
            else:
                if (src, last) in self.classes_by_mod:
                    return self.classes_by_mod[(src, last)]
        # TYPE_CHECKING-only or string annotations: fall back to global table
        if "." not in name and name in self.classes:
            return self.classes[name]
        return None

    def cls(self, name: str) -> ClassInfo:
        if name not in self.classes:
            raise AnalysisError(f"class {name} not found")
        return self.classes[name]

    def has_cls(self, name: str) -> bool:
        return name in self.classes

    def mro(self, ci: ClassInfo) -> List[ClassInfo]:
        k = id(ci)
        if k in self._mro_cache:
            return self._mro_cache[k]
        self._mro_cache[k] = [ci]  # cycle guard
        seqs = [self.mro(b)[:] for b in ci.bases] + [list(ci.bases)]
        res = [ci]
        while True:
            seqs = [s for s in seqs if s]
            if not seqs:
                break
            cand = None
            for s in seqs:
                c = s[0]
                if not any(c in t[1:] for t in seqs):
                    cand = c
                    break
            if cand is None:
                cand = seqs[0][0]
            res.append(cand)
            for s in seqs:
                if s and s[0] is cand:
                    del s[0]
        self._mro_cache[k] = res
        return res

    def is_subclass(self, ci: ClassInfo, base: Union[str, ClassInfo]) -> bool:
        bn = base if isinstance(base, str) else base.name
        return any(c.name == bn for c in self.mro(ci))

    def subclasses(self, base: Union[str, ClassInfo], strict: bool = False) -> List[ClassInfo]:
        bn = base if isinstance(base, str) else base.name
        out = []
        seen = set()
        for ci in self.classes_by_mod.values():
            if id(ci) in seen:
                continue
            seen.add(id(ci))
            if self.is_subclass(ci, bn) and not (strict and ci.name == bn):
                out.append(ci)
        return sorted(out, key=lambda c: (c.module.name, c.name))

    def lookup(self, ci: ClassInfo, attr: str) -> Optional[FuncInfo]:
        """Method/property ``attr`` as seen from class ``ci`` (MRO order)."""
        for c in self.mro(ci):
            if attr in c.methods:
                return c.methods[attr]
        return None

    def lookup_after(self, ci: ClassInfo, definer: ClassInfo, attr: str) -> Optional[FuncInfo]:
        """``super().attr`` inside ``definer`` for an object of class ``ci``."""
        m = self.mro(ci)
        if definer in m:
            for c in m[m.index(definer) + 1:]:
                if attr in c.methods:
                    return c.methods[attr]
        return None

    def all_fields(self, ci: ClassInfo) -> List[Tuple[str, Optional[ast.expr], ClassInfo]]:
        """Dataclass fields in MRO (base first) order: (name, annotation, definer)."""
        seen: Dict[str, Tuple[str, Optional[ast.expr], ClassInfo]] = {}
        for c in reversed(self.mro(ci)):
            for n, ann, _d in c.fields:
                if ann is None:
                    continue
                seen[n] = (n, ann, c)
        return list(seen.values())

    def field_annotation(self, ci: ClassInfo, name: str) -> Optional[Tuple[ast.expr, ClassInfo]]:
        for c in self.mro(ci):
            for n, ann, _d in c.fields:
                if n == name and ann is not None:
                    return ann, c
        return None

    def func(self, spec: str) -> FuncInfo:
        """``Class.method`` | ``module.path:func`` | ``func`` (unique)."""
        fi = self.find_func(spec)
        if fi is None:
            raise AnalysisError(f"function {spec} not found")
        return fi

    def find_func(self, spec: str) -> Optional[FuncInfo]:
        if ":" in spec:
            m, q = spec.split(":", 1)
            if not m.startswith(PKG):
                m = f"{PKG}.{m}"
            return self.functions.get(f"{m}:{q}")
        if "." in spec:
            c, m = spec.split(".", 1)
            ci = self.classes.get(c)
            if ci is None:
                return None
            return ci.methods.get(m)
        hits = [f for f in self.functions.values() if f.qual == spec]
        if len(hits) == 1:
            return hits[0]
        return None

    def iter_functions(self) -> Iterator[FuncInfo]:
        seen = set()
        for k, f in self.functions.items():
            if id(f) not in seen:
                seen.add(id(f))
                yield f

    def module_func(self, mod: Module, name: str) -> Optional[FuncInfo]:
        """Resolve a bare function name used in ``mod``."""
        k = f"{mod.name}:{name}"
        if k in self.functions:
            return self.functions[k]
        if name in mod.imports:
            src, attr = mod.imports[name]
            if attr is not None:
                k = f"{src}:{attr}"
                if k in self.functions:
                    return self.functions[k]
                if src in self.modules and attr in self.modules[src].imports:
                    s2, a2 = self.modules[src].imports[attr]
                    if a2 and f"{s2}:{a2}" in self.functions:
                        return self.functions[f"{s2}:{a2}"]
        return None


# ---------------------------------------------------------------- AST helpers
def norm(node: Union[ast.AST, str]) -> str:
    """Normalised source text of a node (layout independent)."""
    if isinstance(node, str):
        return node
    return ast.unparse(node)


def stmt_key(node: ast.AST, limit: int = 120) -> str:
    s = " ".join(ast.unparse(node).split())
    if isinstance(node, (ast.If, ast.While)):
        s = ("if " if isinstance(node, ast.If) else "while ") + " ".join(
            ast.unparse(node.test).split())
    elif isinstance(node, ast.For):
        s = f"for {ast.unparse(node.target)} in {ast.unparse(node.iter)}"
    return s[:limit]


def attr_chain(node: ast.AST) -> Optional[List[str]]:
    """``a.b.c`` -> ['a','b','c']; None when not a pure chain."""
    parts: List[str] = []
    while isinstance(node, ast.Attribute):
        parts.append(node.attr)
        node = node.value
    if isinstance(node, ast.Name):
        parts.append(node.id)
        return parts[::-1]
    return None


def dotted(node: ast.AST) -> Optional[str]:
    c = attr_chain(node)
    return ".".join(c) if c else None


def call_name(node: ast.AST) -> Optional[str]:
    """Name of the callee of a Call: bare name or last attribute."""
    if not isinstance(node, ast.Call):
        return None
    f = node.func
    if isinstance(f, ast.Name):
        return f.id
    if isinstance(f, ast.Attribute):
        return f.attr
    return None


def walk_no_nested(node: ast.AST) -> Iterator[ast.AST]:
    """ast.walk that does not descend into nested function/class/lambda bodies."""
    stack = [node]
    first = True
    while stack:
        n = stack.pop()
        if not first and isinstance(n, (ast.FunctionDef, ast.AsyncFunctionDef, ast.ClassDef,
                                        ast.Lambda)):
            continue
        first = False
        yield n
        stack.extend(reversed(list(ast.iter_child_nodes(n))))


def body_stmts(fn: ast.AST) -> List[ast.stmt]:
    """Function body without the docstring."""
    body = list(fn.body)  # type: ignore[attr-defined]
    if body and isinstance(body[0], ast.Expr) and isinstance(body[0].value, ast.Constant) and \
            isinstance(body[0].value.value, str):
        body = body[1:]
    return body


def const_value(node: Optional[ast.AST]):
    if isinstance(node, ast.Constant):
        return node.value
    if isinstance(node, ast.UnaryOp) and isinstance(node.op, ast.USub) and isinstance(
            node.operand, ast.Constant):
        return -node.operand.value
    return None
