"""What the ``*from_et*`` parsers read: XML names and the dataclass fields they flow into."""
from __future__ import annotations

import ast
from typing import Dict, List, Optional, Set, Tuple

from .src import FuncInfo, Program, call_name, walk_no_nested

READS = {"find", "findtext", "iterfind", "findall", "get", "iter"}


class ParserInfo:
    def __init__(self, f: FuncInfo):
        self.func = f
        self.cls = f.cls.name if f.cls is not None else f.qual
        # (xml name, kind 'elem'|'attr', lineno)
        self.reads: List[Tuple[str, str, int]] = []
        # field -> set of xml names (last path segment) that flow into it
        self.field_sources: Dict[str, Set[str]] = {}
        self.fields: Set[str] = set()
        # constructor name -> field -> xml names
        self.ctor_fields: Dict[str, Dict[str, Set[str]]] = {}


def _xml_reads(e: ast.AST) -> List[Tuple[str, str, int]]:
    out = []
    for x in ast.walk(e):
        if isinstance(x, ast.Call) and isinstance(x.func, ast.Attribute) and x.func.attr in READS \
                and x.args and isinstance(x.args[0], ast.Constant) and isinstance(
                    x.args[0].value, str):
            s = x.args[0].value
            if x.func.attr == "get":
                recv = ast.unparse(x.func.value)
                if recv.endswith("attrib") or "elem" in recv or "element" in recv or recv.endswith(
                        "el") or recv.endswith("_et") or recv in ("e", "x", "el", "sp"):
                    out.append((s, "attr", x.lineno))
                continue
            for seg in s.split("/"):
                seg = seg.strip()
                if seg and seg not in (".", "..", "*") and not seg.startswith("."):
                    out.append((seg, "elem", x.lineno))
        if isinstance(x, ast.Subscript) and isinstance(x.value, ast.Attribute) and \
                x.value.attr == "attrib" and isinstance(x.slice, ast.Constant) and isinstance(
                    x.slice.value, str):
            out.append((x.slice.value, "attr", x.lineno))
        if isinstance(x, ast.Compare) and isinstance(x.left, ast.Attribute) and \
                x.left.attr == "tag":
            for c in x.comparators:
                for k in ast.walk(c):
                    if isinstance(k, ast.Constant) and isinstance(k.value, str):
                        out.append((k.value, "elem", x.lineno))
    return out


def parser_table(prog: Program) -> List[ParserInfo]:
    out: List[ParserInfo] = []
    for f in prog.iter_functions():
        if "from_et" not in f.name:
            continue
        pi = ParserInfo(f)
        pi.reads = _xml_reads(f.node)
        # def-use: local -> xml names in its definitions (transitively)
        defs: Dict[str, List[ast.AST]] = {}
        for x in walk_no_nested(f.node):
            tg: List[ast.AST] = []
            val: Optional[ast.AST] = None
            if isinstance(x, ast.Assign):
                tg, val = list(x.targets), x.value
            elif isinstance(x, ast.AnnAssign) and x.value is not None:
                tg, val = [x.target], x.value
            elif isinstance(x, ast.NamedExpr):
                tg, val = [x.target], x.value
            elif isinstance(x, (ast.For, ast.comprehension)):
                tg, val = [x.target], x.iter
            elif isinstance(x, ast.AugAssign):
                tg, val = [x.target], x.value
            if val is None:
                continue
            for t in tg:
                for n in ast.walk(t):
                    if isinstance(n, ast.Name):
                        defs.setdefault(n.id, []).append(val)
            # x.append(<expr>) feeds the list x
        for x in walk_no_nested(f.node):
            if isinstance(x, ast.Call) and isinstance(x.func, ast.Attribute) and x.func.attr in (
                    "append", "extend", "add") and isinstance(x.func.value, ast.Name) and x.args:
                defs.setdefault(x.func.value.id, []).append(x.args[0])

        def sources(e: ast.AST, depth: int = 0, seen: Optional[Set[str]] = None) -> Set[str]:
            seen = seen or set()
            s = {n for n, _k, _l in _xml_reads(e)}
            if depth > 4:
                return s
            # names bound by a comprehension inside e refer to that comprehension's iterable
            local: Dict[str, ast.AST] = {}
            for c in ast.walk(e):
                if isinstance(c, ast.comprehension):
                    for n in ast.walk(c.target):
                        if isinstance(n, ast.Name):
                            local[n.id] = c.iter
            for n in ast.walk(e):
                if isinstance(n, ast.Name) and n.id in local:
                    continue  # its iterable is part of e and was scanned above
                if isinstance(n, ast.Name) and n.id in defs and n.id not in seen:
                    for d in defs[n.id]:
                        s |= sources(d, depth + 1, seen | {n.id})
            return s
        # constructor calls with keywords
        for x in walk_no_nested(f.node):
            if isinstance(x, ast.Call) and x.keywords and isinstance(x.func, ast.Name) and \
                    x.func.id[:1].isupper():
                for k in x.keywords:
                    if k.arg is None:
                        continue
                    pi.fields.add(k.arg)
                    src = sources(k.value)
                    if src:
                        pi.field_sources.setdefault(k.arg, set()).update(src)
                        pi.ctor_fields.setdefault(x.func.id, {}).setdefault(k.arg,
                                                                             set()).update(src)
        out.append(pi)
    return out
