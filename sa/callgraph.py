"""Class-hierarchy call graph over the source model.

A call ``e.m(...)`` resolves to ``m`` as seen from the static class of ``e`` and
from every subclass that overrides it (class-hierarchy analysis); ``self.m`` in
class C likewise; ``super().m`` to the next definer in the MRO of the enclosing
class; ``Name.m(self, ...)`` to that class; bare names to module-level
functions through the import map.  Property reads are calls.  Receivers whose
type cannot be determined fall back to *every* class defining ``m`` (counted).
"""
from __future__ import annotations

import ast
from typing import Dict, Iterable, List, Optional, Set, Tuple

from .src import ClassInfo, FuncInfo, Program, walk_no_nested
from .types import TypeEnv, classes_of

# attribute / method names that are never package methods worth a name-based fallback
_GENERIC = {"append", "extend", "get", "items", "keys", "values", "update", "pop", "copy", "find",
            "index", "encode", "decode", "hex", "upper", "lower", "strip", "split", "join",
            "format", "startswith", "endswith", "add", "remove", "insert", "sort", "clear",
            "bit_length", "to_bytes", "from_bytes", "ljust", "rjust", "count", "setdefault",
            "replace", "isdigit", "read", "write", "close", "warn", "warning", "debug", "info",
            "error", "group", "match", "search", "text", "iterfind", "findtext", "attrib", "tag"}


class CallSite:
    __slots__ = ("caller", "node", "callees", "fallback", "kind")

    def __init__(self, caller: FuncInfo, node: ast.AST, callees: List[FuncInfo], fallback: bool,
                 kind: str):
        self.caller = caller
        self.node = node
        self.callees = callees
        self.fallback = fallback
        self.kind = kind  # call | property


class CallGraph:

    def __init__(self, prog: Program):
        self.prog = prog
        self._sites: Dict[str, List[CallSite]] = {}
        self._envs: Dict[str, TypeEnv] = {}
        self.by_name: Dict[str, List[FuncInfo]] = {}
        for f in prog.iter_functions():
            if f.cls is not None:
                self.by_name.setdefault(f.name, []).append(f)
        self.n_resolved = 0
        self.n_fallback = 0

    def env(self, f: FuncInfo) -> TypeEnv:
        if f.key not in self._envs:
            self._envs[f.key] = TypeEnv(self.prog, f)
        return self._envs[f.key]

    # ------------------------------------------------------------------
    def _overrides(self, ci: ClassInfo, name: str) -> List[FuncInfo]:
        out: List[FuncInfo] = []
        m = self.prog.lookup(ci, name)
        if m is not None:
            out.append(m)
        for sub in self.prog.subclasses(ci, strict=True):
            if name in sub.methods and sub.methods[name] not in out:
                out.append(sub.methods[name])
        return out

    def sites(self, f: FuncInfo) -> List[CallSite]:
        if f.key in self._sites:
            return self._sites[f.key]
        prog = self.prog
        env = self.env(f)
        out: List[CallSite] = []
        call_funcs = set()
        for x in walk_no_nested(f.node):
            if isinstance(x, ast.Call):
                call_funcs.add(id(x.func))
        for x in walk_no_nested(f.node):
            if isinstance(x, ast.Call):
                fn = x.func
                callees: List[FuncInfo] = []
                fallback = False
                if isinstance(fn, ast.Name):
                    g = prog.module_func(f.module, fn.id)
                    if g is not None:
                        callees = [g]
                    else:
                        ci = prog.resolve_class_name(f.module, fn.id)
                        if ci is not None:
                            for nm in ("__init__", "__post_init__"):
                                m = prog.lookup(ci, nm)
                                if m is not None:
                                    callees.append(m)
                        # nested function of the same function
                        for y in ast.walk(f.node):
                            if isinstance(y, ast.FunctionDef) and y is not f.node and \
                                    y.name == fn.id:
                                pass
                elif isinstance(fn, ast.Attribute):
                    name = fn.attr
                    recv = fn.value
                    if name.startswith("__") and not name.endswith("__") and f.cls is not None:
                        m = f.cls.methods.get(name)
                        callees = [m] if m is not None else []
                    elif isinstance(recv, ast.Call) and isinstance(recv.func, ast.Name) and \
                            recv.func.id == "super" and f.cls is not None:
                        # super().m: next definer after f.cls for every concrete subclass
                        seen = []
                        for c in [f.cls] + prog.subclasses(f.cls, strict=True):
                            m = prog.lookup_after(c, f.cls, name)
                            if m is not None and m not in seen:
                                seen.append(m)
                        callees = seen
                    else:
                        t = env.type_of(recv)
                        cls = classes_of(t)
                        if t is not None and t[0] == "type":
                            cls = classes_of(t[1])
                        if cls:
                            for c in cls:
                                for m in self._overrides(c, name):
                                    if m not in callees:
                                        callees.append(m)
                        elif t is None and name not in _GENERIC and name in self.by_name:
                            callees = list(self.by_name[name])
                            fallback = True
                if callees:
                    out.append(CallSite(f, x, callees, fallback, "call"))
                    if fallback:
                        self.n_fallback += 1
                    else:
                        self.n_resolved += 1
            elif isinstance(x, ast.Attribute) and isinstance(x.ctx, ast.Load) and id(
                    x) not in call_funcs:
                # property reads
                t = env.type_of(x.value)
                callees = []
                for c in classes_of(t):
                    for m in self._overrides(c, x.attr):
                        if (m.is_property or "cached_property" in m.decorators) and \
                                m not in callees:
                            callees.append(m)
                if callees:
                    out.append(CallSite(f, x, callees, False, "property"))
        self._sites[f.key] = out
        return out

    def reachable(self, entries: Iterable[FuncInfo]) -> Dict[str, Tuple[FuncInfo, Optional[str]]]:
        """func key -> (func, predecessor key on a shortest path)."""
        seen: Dict[str, Tuple[FuncInfo, Optional[str]]] = {}
        queue: List[FuncInfo] = []
        for e in entries:
            if e.key not in seen:
                seen[e.key] = (e, None)
                queue.append(e)
        while queue:
            f = queue.pop(0)
            for s in self.sites(f):
                for g in s.callees:
                    if g.key not in seen:
                        seen[g.key] = (g, f.key)
                        queue.append(g)
        return seen

    def path_to(self, reach: Dict[str, Tuple[FuncInfo, Optional[str]]], key: str) -> List[str]:
        out = []
        cur: Optional[str] = key
        while cur is not None:
            f, prev = reach[cur]
            out.append(f.qual)
            cur = prev
        return out[::-1]
