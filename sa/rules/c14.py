"""C14 — variant identification: request/caching discipline, iteration order, first match."""
from __future__ import annotations

import ast
from typing import Dict, List, Optional, Set, Tuple

from ..absint import eval_test
from ..cfg import CFG, EXIT, symbolic_block_paths
from ..exprnorm import norm_test
from ..report import Run
from ..src import AnalysisError, FuncInfo, Program, call_name, stmt_key, walk_no_nested

EXPLANATION = (
    "CFG-based rules over VariantMatcher.request_loop / _ident_response_matches / _update_cache "
    "and MatchingParameter.matches: every yield issues the identification request of the "
    "current candidate on the cache-miss branch and is followed on every path by a cache "
    "update with the fresh response; cached and fresh responses reach the same comparison; the "
    "three loops iterate candidates, patterns and parameters in declaration order; the only "
    "exits of the candidate loop are 'match found'; all/any accumulation has the prescribed "
    "shape; every response object is tried; the value comparison dispatches on the decoded "
    "type as specified and tests absence by identity.")
ASSUMPTIONS = [
    "outcomes over concrete response histories are not executed; the rules are necessary "
    "conditions that hold for every history because they constrain every path of the generator",
]


def _loops(fn: ast.AST) -> List[ast.For]:
    return [x for x in walk_no_nested(fn) if isinstance(x, ast.For)]


def _stmt_of(fn: ast.AST, x: ast.AST) -> ast.stmt:
    best = None
    for st in walk_no_nested(fn):
        if isinstance(st, ast.stmt) and st is not fn and not isinstance(
                st, (ast.If, ast.For, ast.While, ast.Try, ast.With)):
            if any(z is x for z in ast.walk(st)):
                best = st
    if best is None:
        for st in walk_no_nested(fn):
            if isinstance(st, (ast.If, ast.While)) and any(z is x for z in ast.walk(st.test)):
                best = st
    if best is None:
        raise AnalysisError("expression without statement")
    return best


def check(prog: Program, run: Run) -> None:
    run.rule("C14.R1", "requests are issued only on a cache miss, are the identification request "
             "of the current candidate, and the response is cached before the next request; "
             "cached and fresh responses go through the same comparison", floor=5)
    run.rule("C14.R2", "candidates, patterns and parameters are tried in list order; a pattern "
             "matches iff all its parameters match, a candidate iff any pattern matches; the "
             "candidate loop is left only when a match has been recorded", floor=6)
    run.rule("C14.R3", "every response object is tried and a value is compared according to "
             "its decoded type; absence is tested by identity", floor=5)
    run.rule("C14.R4", "the pattern parsers read the addressing flag and the expected values "
             "completely: xsd:boolean text is converted for all four spellings, optional elements "
             "are read independently", floor=3)
    run.rule("C14.R5", "the value compared with the pattern is the one the shared decoder "
             "produces for the identification parameter; a BIT-MASK on a byte-field parameter is "
             "applied in the byte order the expected value is written in (shared with C02.R2)",
             floor=4)
    from . import c02
    c02.mask_byte_order(prog, run, "C14.R5")
    from . import common
    PARSERS = ["odxtools/matching*.py", "odxtools/*variantpattern.py", "odxtools/odxtypes.py"]
    common.g8_xsd_boolean(prog, run, "C14.R4", PARSERS)
    common.g7_independent_elements(prog, run, "C14.R4", PARSERS, choices=[
        {"OUT-PARAM-IF-SNREF", "OUT-PARAM-IF-SNPATHREF"}])
    f = prog.func("VariantMatcher.request_loop")
    fn = f.node
    cfg = CFG(fn)
    loops = _loops(fn)

    def find_loop(pred) -> ast.For:
        for l in loops:
            if pred(ast.unparse(l.iter)):
                return l
        raise AnalysisError("request_loop: loop not found")
    cand = find_loop(lambda s: "variant_candidates" in s)
    pat = find_loop(lambda s: "variant_patterns" in s)
    par = find_loop(lambda s: "get_matching_parameters" in s)
    variant = ast.unparse(cand.target)
    mparam = ast.unparse(par.target)
    pattern = ast.unparse(pat.target)

    # ---------------------------------------------------------- R2 iteration order
    for lp, want, what in ((cand, "self.variant_candidates", "candidates"),
                           (pat, "variant_patterns", "patterns"),
                           (par, f"{pattern}.get_matching_parameters()", "matching parameters")):
        it = ast.unparse(lp.iter)
        if it == want:
            run.ok("C14.R2", "request_loop", f"{what} iterated in declaration order (`{it}`)",
                   f"{f.module.rel}:{lp.lineno}")
        else:
            run.violation("C14.R2", "VariantMatcher.request_loop", f"iteration-{what.split()[0]}",
                          f"the {what} are iterated as `{it}` instead of `{want}`: the first "
                          "match in list order is no longer the one reported",
                          f"{f.module.rel}:{lp.lineno}", stmt_key(lp))
    # nesting
    if not (any(x is pat for x in ast.walk(cand)) and any(x is par for x in ast.walk(pat))):
        raise AnalysisError("request_loop: loops are not nested candidate > pattern > parameter")

    # ---------------------------------------------------------- R1 requests
    yields = [x for x in walk_no_nested(fn) if isinstance(x, ast.Yield)]
    if not yields:
        run.violation("C14.R1", "VariantMatcher.request_loop", "no-request",
                      "the request loop never yields a request", f.loc)
    # the request bytes variable
    req = None
    req_stmt = None
    for x in ast.walk(par):
        if isinstance(x, ast.Assign) and isinstance(x.targets[0], ast.Name) and \
                "encode_request" in ast.unparse(x.value):
            req, req_stmt = x.targets[0].id, x
    if req is None:
        raise AnalysisError("request_loop: request bytes are not bound to a local")
    want_req = f"{mparam}.get_ident_service({variant}).encode_request()"
    if ast.unparse(req_stmt.value) in (want_req, f"bytes({want_req})"):
        run.ok("C14.R1", "request_loop", "the request is the identification request of the "
               "current candidate's matching parameter", f"{f.module.rel}:{req_stmt.lineno}")
    else:
        run.violation("C14.R1", "VariantMatcher.request_loop", "foreign-request",
                      f"`{stmt_key(req_stmt)}`: the request is not `{want_req}`",
                      f"{f.module.rel}:{req_stmt.lineno}", stmt_key(req_stmt))
    # the cache key must be hashable: encode_request() is annotated `bytes`, but what it
    # actually returns is decided by its return expressions
    if not ast.unparse(req_stmt.value).startswith("bytes("):
        from ..types import TypeEnv
        enc = prog.func("DiagService.encode_request")
        env = TypeEnv(prog, enc)
        bad = []
        for r in walk_no_nested(enc.node):
            if isinstance(r, ast.Return) and r.value is not None:
                t = env.type_of(r.value)
                if t == ("prim", "bytearray"):
                    bad.append(r)
        if bad:
            run.violation("C14.R1", "VariantMatcher.request_loop", "cache-key-unhashable",
                          f"the cache key `{req}` comes from DiagService.encode_request(), whose "
                          f"`{stmt_key(bad[0])}` returns a bytearray (Request.encode): "
                          f"`{req} in self.req_resp_cache` raises TypeError (unhashable) as soon "
                          "as caching is enabled", f"{enc.module.rel}:{bad[0].lineno}",
                          stmt_key(bad[0]))
        else:
            run.ok("C14.R1", "request_loop", "the cache key is an immutable bytes object",
                   f"{f.module.rel}:{req_stmt.lineno}")
    else:
        run.ok("C14.R1", "request_loop", "the cache key is an immutable bytes object",
               f"{f.module.rel}:{req_stmt.lineno}")
    miss_test = None
    upd_nodes = []
    for n in cfg.nodes:
        if n.stmt is not None and n.kind == "stmt":
            for x in walk_no_nested(n.stmt):
                if isinstance(x, ast.Call) and call_name(x) == "_update_cache" and x.args and \
                        ast.unparse(x.args[0]) == req:
                    upd_nodes.append(n.id)
    par_head = cfg.node_of(par)
    for y in yields:
        st = _stmt_of(fn, y)
        yn = cfg.node_of(st)
        where = f"{f.module.rel}:{y.lineno}"
        v = y.value
        if not (isinstance(v, ast.Tuple) and len(v.elts) == 2 and ast.unparse(v.elts[1]) == req):
            run.violation("C14.R1", "VariantMatcher.request_loop", "yield-shape",
                          f"`{ast.unparse(y)}` does not yield (addressing, {req})", where,
                          stmt_key(st))
            continue
        if not any(z is y for z in ast.walk(par)):
            run.violation("C14.R1", "VariantMatcher.request_loop", "yield-outside-loop",
                          "a request is issued outside the matching-parameter loop", where)
            continue
        conds = cfg.branch_conditions(yn)
        texts = [norm_test(t, negate=not pol) for t, pol in conds]
        hit_t = norm_test(ast.parse(f"self.use_cache and {req} in self.req_resp_cache",
                                    mode="eval").body, negate=True)
        if hit_t in texts:
            run.ok("C14.R1", "request_loop", "request issued only on a cache miss "
                   f"(not (use_cache and {req} in cache))", where)
        else:
            run.violation("C14.R1", "VariantMatcher.request_loop", "yield-not-on-cache-miss",
                          f"`{ast.unparse(y)}` is not restricted to the cache-miss branch of "
                          f"`self.use_cache and {req} in self.req_resp_cache` (guards: {texts}): "
                          "with caching a request may be issued twice / a cached response "
                          "ignored", where, stmt_key(st))
        # after the yield: response fetched and cached before the next request / loop round
        if upd_nodes and cfg.must_pass(yn, upd_nodes, par_head) and cfg.must_pass(
                yn, upd_nodes, EXIT):
            run.ok("C14.R1", "request_loop", "every path after the request updates the cache "
                   "before the next parameter is processed", where)
        else:
            run.violation("C14.R1", "VariantMatcher.request_loop", "response-not-cached",
                          "there is a path from the request to the next loop round (or the end "
                          "of the generator) that does not store the response in the cache: the "
                          "same request is issued again later", where, stmt_key(st))
    # response value: from the cache under the key of this request, or fresh
    resp = None
    srcs = []
    for x in ast.walk(par):
        if isinstance(x, ast.Assign) and isinstance(x.targets[0], ast.Name):
            s = ast.unparse(x.value)
            if "req_resp_cache[" in s or "_get_ident_response" in s:
                resp = x.targets[0].id
                srcs.append((x, s))
    good_src = True
    for x, s in srcs:
        if "req_resp_cache[" in s and f"req_resp_cache[{req}]" not in s:
            good_src = False
            run.violation("C14.R1", "VariantMatcher.request_loop", "cache-key",
                          f"`{stmt_key(x)}` reads the cache under a key other than the request "
                          "bytes", f"{f.module.rel}:{x.lineno}", stmt_key(x))
    if len(srcs) < 2:
        good_src = False
        run.violation("C14.R1", "VariantMatcher.request_loop", "response-sources",
                      "the response is not taken from the cache on a hit and from "
                      "_get_ident_response() on a miss", f.loc)
    cmp_calls = [x for x in ast.walk(par) if isinstance(x, ast.Call) and call_name(x) ==
                 "_ident_response_matches"]
    # the names the response travels under: the targets of the two sources and plain copies
    resp_names = {x.targets[0].id for x, _s in srcs}
    grown = True
    while grown:
        grown = False
        for x in ast.walk(par):
            if isinstance(x, ast.Assign) and len(x.targets) == 1 and isinstance(
                    x.targets[0], ast.Name) and isinstance(x.value, ast.Name) and \
                    x.value.id in resp_names and x.targets[0].id not in resp_names:
                resp_names.add(x.targets[0].id)
                grown = True
    for x, s in srcs:
        if "_get_ident_response" in s:
            resp = x.targets[0].id  # the name of the fresh response (cached by the caller)
    if len(cmp_calls) == 1 and len(cmp_calls[0].args) == 3 and [
            ast.unparse(a) for a in cmp_calls[0].args[:2]] == [variant, mparam] and \
            ast.unparse(cmp_calls[0].args[2]) in resp_names:
        cn = cfg.node_of(_stmt_of(fn, cmp_calls[0]))
        src_nodes = [cfg.node_of(x) for x, _s in srcs]
        if good_src and all(cn in cfg.reachable(s) for s in src_nodes):
            run.ok("C14.R1", "request_loop", "cached and fresh responses are evaluated by the "
                   "same _ident_response_matches(variant, parameter, response)",
                   f"{f.module.rel}:{cmp_calls[0].lineno}")
    else:
        run.violation("C14.R1", "VariantMatcher.request_loop", "comparison-call",
                      "the response is not evaluated by exactly one "
                      f"_ident_response_matches({variant}, {mparam}, {resp}) shared by the cached "
                      "and the fresh path", f.loc)
    # _update_cache stores under the request key
    u = prog.func("VariantMatcher._update_cache")
    ps = u.params()
    stores = [x for x in walk_no_nested(u.node) if isinstance(x, ast.Assign) and isinstance(
        x.targets[0], ast.Subscript) and "req_resp_cache" in ast.unparse(x.targets[0].value)]
    if len(stores) == 1 and ast.unparse(stores[0].targets[0].slice) == ps[1] and \
            ps[2] in ast.unparse(stores[0].value):
        ucfg = CFG(u.node)
        dep = [t for t, _p in ucfg.branch_conditions(ucfg.node_of(stores[0])) if any(
            isinstance(y, ast.Name) and y.id in ps[1:] for y in ast.walk(t))]
        if dep:
            run.violation("C14.R1", "VariantMatcher._update_cache", "store-depends-on-content",
                          f"the response is only remembered under `{ast.unparse(dep[0])}`: for "
                          "the other responses the same request is issued again for every "
                          "further parameter or candidate that needs it (with caching no "
                          "request is issued twice)", u.loc)
        else:
            run.ok("C14.R1", "_update_cache", "cache[request] = response, whatever the "
                   "response is", u.loc)
    else:
        run.violation("C14.R1", "VariantMatcher._update_cache", "store",
                      "_update_cache does not store the response under the request bytes", u.loc)

    # the cache must hold a snapshot of the response, not an alias of the caller's buffer:
    # at least one site between evaluate(resp_bytes) and cache[request] = ... copies the value
    SNAP = ("bytes", "bytearray", "copy", "deepcopy")

    def is_snapshot(e: ast.AST, of: str) -> bool:
        if isinstance(e, ast.Call) and call_name(e) in SNAP and e.args and of in ast.unparse(
                e.args[0]):
            return True
        return isinstance(e, ast.Subscript) and isinstance(e.slice, ast.Slice) and \
            e.slice.lower is None and e.slice.upper is None and of in ast.unparse(e.value)
    ev = prog.func("VariantMatcher.evaluate")
    evp = ev.params()[1]
    ev_store = [x for x in walk_no_nested(ev.node) if isinstance(x, ast.Assign) and
                "_recent_ident_response" in ast.unparse(x.targets[0])]
    snap_eval = bool(ev_store) and all(is_snapshot(x.value, evp) for x in ev_store)
    upd_calls = [x for x in ast.walk(fn) if isinstance(x, ast.Call) and call_name(x) ==
                 "_update_cache" and len(x.args) == 2]
    snap_call = bool(upd_calls) and all(is_snapshot(c.args[1], resp) for c in upd_calls)
    snap_store = len(stores) == 1 and is_snapshot(stores[0].value, ps[2])
    if snap_eval or snap_call or snap_store:
        where = [w for w, b in (("evaluate()", snap_eval), ("the _update_cache call", snap_call),
                                ("_update_cache", snap_store)) if b]
        run.ok("C14.R1", "request_loop", f"the cached response is a snapshot (copied in "
               f"{', '.join(where)})", ev.loc)
    else:
        run.violation("C14.R1", "VariantMatcher.evaluate", "response-aliased",
                      "neither evaluate() nor the cache store copies the response: the cache keeps "
                      "an alias of the caller's buffer, so a caller that re-uses one bytearray "
                      "for all responses makes every cache hit return the most recent response "
                      "(the outcome then differs between use_cache=True and False)", ev.loc)

    # ---------------------------------------------------------- R2 accumulation / exits
    _accumulation(run, f, cfg, cand, pat, par, variant)

    # ---------------------------------------------------------- R3
    _responses(prog, run)
    _matches(prog, run)
    _path_split(prog, run)


def _accumulation(run: Run, f: FuncInfo, cfg: CFG, cand: ast.For, pat: ast.For, par: ast.For,
                  variant: str) -> None:
    R = "C14.R2"
    fn = f.node
    loops = _loops(fn)

    def owner(stmt: ast.AST) -> Optional[ast.For]:
        inner = [l for l in loops if any(z is stmt for z in ast.walk(l))]
        inner.sort(key=lambda l: sum(1 for _ in ast.walk(l)))
        return inner[0] if inner else None
    # every pattern of a candidate is evaluated in the candidate's own context: no way round the
    # parameter loop inside the pattern loop (a pattern equal to one that was rejected for
    # another candidate refers to that candidate's services, not to this one's)
    ph, qh = cfg.node_of(pat), cfg.node_of(par)
    entry = [s_ for s_ in cfg.succ[ph] if any(
        cfg.nodes[s_].stmt is z for b in pat.body for z in ast.walk(b))]
    skipped = [e for e in entry if e != qh and not cfg.must_pass(e, [qh], ph)]
    if skipped:
        run.violation(R, "VariantMatcher.request_loop", "pattern-skipped",
                      "the pattern loop can go on to the next pattern without evaluating the "
                      "matching parameters of the current one (a `continue` in front of the "
                      "parameter loop): a pattern is then judged by something else than the "
                      "responses to its own candidate's requests",
                      f"{f.module.rel}:{pat.lineno}", stmt_key(pat))
    else:
        run.ok(R, "VariantMatcher.request_loop", "every pattern reaches its parameter loop",
               f"{f.module.rel}:{pat.lineno}")
    # the statement that records the match
    match_assign = [x for x in ast.walk(cand) if isinstance(x, ast.Assign) and ast.unparse(
        x.targets[0]) == "self._matching_variant"]
    state_match = [x for x in ast.walk(cand) if isinstance(x, ast.Assign) and ast.unparse(
        x.targets[0]) == "self._state" and ast.unparse(x.value).endswith("State.MATCH")]
    if len(match_assign) != 1 or ast.unparse(match_assign[0].value) != variant or not state_match:
        run.violation(R, "VariantMatcher.request_loop", "match-record",
                      "a match is not recorded as `_matching_variant = <current candidate>` "
                      "together with state MATCH", f.loc)
        return
    mnode = cfg.node_of(match_assign[0])
    # exits of the candidate loop
    ok_exits = True
    for x in ast.walk(cand):
        if isinstance(x, ast.Break) and owner(x) is cand:
            bn = cfg.node_of(x)
            if not cfg.dominates(mnode, bn):
                ok_exits = False
                run.violation(R, "VariantMatcher.request_loop", "candidate-loop-left-without-match",
                              f"`break` at line {x.lineno} leaves the candidate loop although no "
                              "match has been recorded on that path: later candidates are never "
                              "tried", f"{f.module.rel}:{x.lineno}")
        if isinstance(x, ast.Return):
            rn = cfg.node_of(x)
            # allowed: the unsupported-layer-type error path (after odxraise)
            prev_odx = any(isinstance(p.stmt, ast.Expr) and isinstance(p.stmt.value, ast.Call) and
                           call_name(p.stmt.value) == "odxraise"
                           for p in [cfg.nodes[d] for d in cfg.dominators().get(rn, ())])
            if not (prev_odx or cfg.dominates(mnode, rn)):
                ok_exits = False
                run.violation(R, "VariantMatcher.request_loop", "candidate-loop-return",
                              f"`return` at line {x.lineno} ends the search without a match",
                              f"{f.module.rel}:{x.lineno}")
        if isinstance(x, ast.Continue) and owner(x) is cand:
            pass  # skipping a candidate is fine
    # the match must be followed by leaving the loop (first match wins)
    ch = cfg.node_of(cand)
    if ch in cfg.reachable(mnode):
        ok_exits = False
        run.violation(R, "VariantMatcher.request_loop", "not-first-match",
                      "after a match has been recorded the candidate loop continues: a later "
                      "candidate can overwrite the first match", f"{f.module.rel}:{match_assign[0].lineno}")
    if ok_exits:
        run.ok(R, "request_loop", "the candidate loop is left exactly when a match was recorded "
               "(first match wins, no other early exit)", f"{f.module.rel}:{cand.lineno}")
    # match recorded only under any_pattern_matches
    conds = cfg.branch_conditions(mnode)
    any_name = None
    for t, pol in conds:
        if isinstance(t, ast.Name) and pol:
            any_name = t.id
    if any_name is None:
        run.violation(R, "VariantMatcher.request_loop", "match-unconditional",
                      "the match is recorded without testing whether a pattern matched", f.loc)
        return
    # any := False before the pattern loop (per candidate), True only under all-flag
    inits = [x for x in ast.walk(cand) if isinstance(x, ast.Assign) and ast.unparse(
        x.targets[0]) == any_name]
    init_false = [x for x in inits if ast.unparse(x.value) == "False" and not any(
        z is x for z in ast.walk(pat))]
    set_true = [x for x in inits if ast.unparse(x.value) == "True"]
    if not init_false or not any(any(z is x for z in ast.walk(cand)) for x in init_false):
        run.violation(R, "VariantMatcher.request_loop", "any-flag-not-reset",
                      f"`{any_name}` is not reset to False for every candidate: a match of an "
                      "earlier candidate's pattern leaks into the next one", f.loc)
    all_name = None
    for x in set_true:
        cs = cfg.branch_conditions(cfg.node_of(x))
        for t, pol in cs:
            if isinstance(t, ast.Name) and pol and t.id != any_name:
                all_name = t.id
    if not set_true or all_name is None:
        run.violation(R, "VariantMatcher.request_loop", "any-without-all",
                      f"`{any_name}` is set without requiring that all parameters of the pattern "
                      "matched", f.loc)
        return
    run.ok(R, "request_loop", f"a candidate matches iff `{any_name}`, which is set only when "
           f"`{all_name}` holds for a pattern", f"{f.module.rel}:{set_true[0].lineno}")
    # all := True per pattern; conjoined with every parameter's result
    ainits = [x for x in ast.walk(pat) if isinstance(x, ast.Assign) and ast.unparse(
        x.targets[0]) == all_name]
    reset = [x for x in ainits if ast.unparse(x.value) == "True" and not any(
        z is x for z in ast.walk(par))]
    upd = [x for x in ainits if any(z is x for z in ast.walk(par))]
    if not reset:
        run.violation(R, "VariantMatcher.request_loop", "all-flag-not-reset",
                      f"`{all_name}` is not reset to True for every pattern", f.loc)
    # one iteration of the parameter loop, symbolically: with the flag still True, the flag
    # afterwards is exactly this parameter's result (however the update / early exit is written)
    cur_name = "the parameter's result"
    it_paths = symbolic_block_paths(par.body)

    def flag_after(cur: bool) -> Set[object]:
        def leaf(t: ast.AST):
            if isinstance(t, ast.Call) and call_name(t) == "_ident_response_matches":
                return cur
            return None
        env = {all_name: True}
        outs: Set[object] = set()
        for p_ in it_paths:
            if not all(eval_test(t, env, leaf) in (None, pol) for t, pol in p_.conds):
                continue
            v = p_.env.get(all_name)
            outs.add(True if v is None else eval_test(v, env, leaf))
        return outs
    good_upd = bool(it_paths) and flag_after(True) == {True} and flag_after(False) == {False}
    if good_upd:
        run.ok(R, "request_loop", f"`{all_name}` is the conjunction of the results of all "
               "parameters of the pattern", f"{f.module.rel}:{par.lineno}")
    else:
        run.violation(R, "VariantMatcher.request_loop", "all-accumulation",
                      f"`{all_name}` is not the conjunction of every parameter's result (expected "
                      f"`{all_name} = {all_name} and {cur_name}` or an equivalent reset to False)",
                      f.loc)
    # the state ends in MATCH xor NO_MATCH
    tail = [x for x in walk_no_nested(fn) if isinstance(x, ast.Assign) and ast.unparse(
        x.targets[0]) == "self._state" and ast.unparse(x.value).endswith("NO_MATCH") and not any(
            z is x for z in ast.walk(cand))]
    if tail:
        cs = cfg.branch_conditions(cfg.node_of(tail[0]))
        if any("is_pending" in ast.unparse(t) and pol for t, pol in cs) or any(
                "_matching_variant is None" in ast.unparse(t) and pol for t, pol in cs):
            run.ok(R, "request_loop", "NO_MATCH is recorded exactly when the loop ended without "
                   "a match", f"{f.module.rel}:{tail[0].lineno}")
        else:
            run.violation(R, "VariantMatcher.request_loop", "no-match-unconditional",
                          "NO_MATCH is recorded even when a match was found", f.loc)
    else:
        run.violation(R, "VariantMatcher.request_loop", "no-match-missing",
                      "the matcher never reaches state NO_MATCH after an unsuccessful search",
                      f.loc)


def _responses(prog: Program, run: Run) -> None:
    R = "C14.R3"
    f = prog.func("VariantMatcher._ident_response_matches")
    fn = f.node
    cfg = CFG(fn)
    ps = f.params()
    variant, mparam, rbytes = ps[1], ps[2], ps[3]
    src = " ".join(ast.unparse(x) for x in walk_no_nested(fn) if isinstance(x, ast.Call) and
                   call_name(x) in ("extend", "append", "chain") or isinstance(x, ast.BinOp))
    text = ast.unparse(fn)
    for what in ("positive_responses", "negative_responses", "global_negative_responses"):
        # each list is a candidate on its own: not the fallback of another one (`a or b`,
        # `a if a else b`)
        alt = [x for x in walk_no_nested(fn) if isinstance(x, (ast.BoolOp, ast.IfExp)) and any(
            isinstance(y, ast.Attribute) and y.attr == what for y in ast.walk(x))]
        if what in text and alt:
            run.violation(R, "VariantMatcher._ident_response_matches", f"conditional-{what}",
                          f"`{ast.unparse(alt[0])[:80]}`: the {what} are only tried as an "
                          "alternative of another list; an ECU that answers with a response "
                          "from the list left out is not recognised",
                          f"{f.module.rel}:{alt[0].lineno}", ast.unparse(alt[0])[:80])
        elif what in text:
            run.ok(R, "_ident_response_matches", f"{what} are candidates for decoding", f.loc)
        else:
            run.violation(R, "VariantMatcher._ident_response_matches", f"missing-{what}",
                          f"the {what} are not tried for decoding the identification response",
                          f.loc)
    loops = [x for x in walk_no_nested(fn) if isinstance(x, ast.For)]
    if len(loops) != 1:
        raise AnalysisError("_ident_response_matches: expected one loop over the responses")
    lp = loops[0]
    good = True
    # one iteration of the loop as a table: (decoding raises DecodeError | decodes and the
    # parameter matches | decodes and does not match) -> (search ends with True | goes on)
    it_paths = symbolic_block_paths(lp.body)

    def catches_decode_error(h: ast.ExceptHandler) -> bool:
        if h.type is None:
            return True
        names = [ast.unparse(e).split(".")[-1] for e in (
            h.type.elts if isinstance(h.type, ast.Tuple) else [h.type])]
        return any(n_ in ("DecodeError", "OdxError", "Exception") for n_ in names)

    def outcomes(raised: bool, match: bool) -> Set[str]:
        def leaf(t: ast.AST):
            if isinstance(t, ast.Call) and call_name(t) == "matches":
                return match
            return None
        outs: Set[str] = set()
        for p_ in it_paths:
            took = [x for x in p_.trace if isinstance(x, ast.ExceptHandler)]
            if raised != bool(took):
                continue
            if raised and not all(catches_decode_error(h) for h in took):
                continue
            if not all(eval_test(t, {}, leaf) in (None, pol) for t, pol in p_.conds):
                continue
            if p_.ret is None:
                outs.add("next")
            elif p_.ret.value is None and not isinstance(p_.ret, ast.Return):
                outs.add("next")
            else:
                # `continue` / `break` of the loop were turned into bare returns by the block
                # wrapper; a real `return <value>` ends the search
                v = p_.retval
                if v is None:
                    outs.add("next")
                else:
                    r_ = eval_test(v, {}, leaf)
                    outs.add("found" if r_ is True else f"ends:{ast.unparse(v)}")
        return outs
    has_try = any(isinstance(t, ast.Try) for t in ast.walk(lp))
    raised_out = outcomes(True, False) | outcomes(True, True)
    if not has_try or not raised_out:
        good = False
        run.violation(R, "VariantMatcher._ident_response_matches", "decode-error-not-skipped",
                      "a response object that cannot decode the bytes (DecodeError) is not "
                      "skipped", f.loc)
    elif raised_out != {"next"}:
        good = False
        run.violation(R, "VariantMatcher._ident_response_matches", "returns-before-all-tried",
                      f"after a DecodeError of one response object the loop does "
                      f"{sorted(raised_out)} instead of trying the next response object",
                      f.loc)
    if outcomes(False, True) != {"found"}:
        good = False
        run.violation(R, "VariantMatcher._ident_response_matches", "match-not-reported",
                      f"a response object that decodes and matches makes one iteration "
                      f"{sorted(outcomes(False, True))}, not `return True`", f.loc)
    if outcomes(False, False) != {"next"}:
        good = False
        run.violation(R, "VariantMatcher._ident_response_matches", "returns-before-all-tried",
                      f"a response object that decodes but does not match makes one iteration "
                      f"{sorted(outcomes(False, False))}: response objects that decode the same "
                      "bytes later in the list (e.g. a global negative response) are never tried",
                      f.loc)
    for x in ast.walk(lp):
        if isinstance(x, ast.Break):
            good = False
            run.violation(R, "VariantMatcher._ident_response_matches", "break",
                          "the loop over the response objects is left early",
                          f"{f.module.rel}:{x.lineno}")
    # decoded with the received bytes, compared by the matching parameter
    dec = [x for x in ast.walk(lp) if isinstance(x, ast.Call) and call_name(x) == "decode"]
    if not dec or any(ast.unparse(d.args[0]) != rbytes for d in dec if d.args):
        good = False
        run.violation(R, "VariantMatcher._ident_response_matches", "decodes-other",
                      "the response objects do not decode the received response bytes", f.loc)
    if good:
        run.ok(R, "_ident_response_matches", "every response object is tried; only a matching "
               "one ends the search", f"{f.module.rel}:{lp.lineno}")


def _path_split(prog: Program, run: Run) -> None:
    """OUT-PARAM-IF-SNPATHREF is a dotted path of any depth: it is split at every dot."""
    R = "C14.R3"
    f = prog.func("MatchingParameter.matches")
    sp = [x for x in walk_no_nested(f.node) if isinstance(x, ast.Call) and call_name(x) in (
        "split", "rsplit", "partition", "rpartition") and "snpathref" in ast.unparse(x.func)]
    if not sp:
        raise AnalysisError("MatchingParameter.matches: the SNPATHREF is not split")
    for x in sp:
        full = call_name(x) == "split" and len(x.args) == 1 and not x.keywords and isinstance(
            x.args[0], ast.Constant) and x.args[0].value == "."
        if full:
            run.ok(R, "MatchingParameter.matches", "the path is split at every dot",
                   f"{f.module.rel}:{x.lineno}")
        else:
            run.violation(R, "MatchingParameter.matches", "path-split",
                          f"`{ast.unparse(x)}` does not split the path at every dot: a value "
                          "nested more than one structure deep is never found, the candidate "
                          "that should match is skipped", f"{f.module.rel}:{x.lineno}",
                          ast.unparse(x))


def _matches(prog: Program, run: Run) -> None:
    R = "C14.R3"
    ci = prog.cls("MatchingParameter")
    f = ci.methods.get("__matches")
    if f is None:
        raise AnalysisError("MatchingParameter.__matches not found")
    fn = f.node
    cfg = CFG(fn)
    # type dispatch at the leaf
    table: Dict[str, str] = {}
    for x in walk_no_nested(fn):
        if isinstance(x, ast.If) and isinstance(x.test, ast.Call) and call_name(
                x.test) == "isinstance" and len(x.test.args) == 2:
            ty = ast.unparse(x.test.args[1])
            rets = [s for s in x.body if isinstance(s, ast.Return)]
            if rets:
                table[ty] = ast.unparse(rets[0].value)
    def has(ty: str, *frags: str) -> bool:
        return ty in table and all(fr in table[ty] for fr in frags)
    if has("float", "abs(", "float(self.expected_value)", "<"):
        run.ok(R, "MatchingParameter.__matches", "float values compared with a tolerance", f.loc)
    else:
        run.violation(R, "MatchingParameter.__matches", "float-compare",
                      "float values are not compared as |float(expected) - value| < tolerance",
                      f.loc)
    if has("BytesTypes", ".hex()", "upper()", "self.expected_value") and "==" in table.get(
            "BytesTypes", ""):
        run.ok(R, "MatchingParameter.__matches", "byte fields compared as upper-case hex", f.loc)
    else:
        run.violation(R, "MatchingParameter.__matches", "bytes-compare",
                      "byte-field values are not compared through their upper-case hex form",
                      f.loc)
    if has("DiagnosticTroubleCode", "hex(", "trouble_code", "self.expected_value"):
        run.ok(R, "MatchingParameter.__matches", "DTCs compared through hex(trouble_code)", f.loc)
    else:
        run.violation(R, "MatchingParameter.__matches", "dtc-compare",
                      "DTC values are not compared through hex(trouble_code)", f.loc)
    # the fall-back comparison
    fb = [r for r in walk_no_nested(fn) if isinstance(r, ast.Return) and isinstance(
        r.value, ast.Compare) and "str(" in ast.unparse(r.value)]
    if fb and isinstance(fb[0].value.ops[0], ast.Eq) and "self.expected_value" in ast.unparse(
            fb[0].value):
        run.ok(R, "MatchingParameter.__matches", "other values: expected == str(value)", f.loc)
    else:
        run.violation(R, "MatchingParameter.__matches", "str-compare",
                      "plain values are not compared as expected_value == str(value)", f.loc)
    # absence test by identity
    subs = [x for x in walk_no_nested(fn) if isinstance(x, ast.Assign) and isinstance(
        x.value, ast.Call) and call_name(x.value) == "get" and isinstance(x.targets[0], ast.Name)]
    if not subs:
        raise AnalysisError("__matches: sub-value lookup not found")
    sv = subs[0].targets[0].id
    for x in walk_no_nested(fn):
        if isinstance(x, ast.If) and any(isinstance(s, ast.Return) and ast.unparse(
                s.value) == "False" for s in x.body):
            names = {n.id for n in ast.walk(x.test) if isinstance(n, ast.Name)}
            if sv in names and not any(isinstance(c, ast.Call) for c in ast.walk(x.test)):
                t = norm_test(x.test)
                if t == f"{sv} is None":
                    run.ok(R, "MatchingParameter.__matches", "a missing parameter is detected by "
                           f"`{sv} is None`", f"{f.module.rel}:{x.lineno}")
                else:
                    run.violation(R, "MatchingParameter.__matches", "absence-by-truthiness",
                                  f"`if {ast.unparse(x.test)}: return False` treats falsy decoded "
                                  "values (0, 0.0, '', b'') as an absent parameter: an ECU that "
                                  "reports 0 never matches an expected value of 0",
                                  f"{f.module.rel}:{x.lineno}", stmt_key(x))
    # any item of a list; second element of a 2-tuple
    text = ast.unparse(fn)
    lists = [x for x in walk_no_nested(fn) if isinstance(x, ast.For) and ast.unparse(x.iter) == sv]
    if lists and any(isinstance(s, ast.Return) and ast.unparse(s.value) == "True"
                     for s in ast.walk(lists[0])) :
        run.ok(R, "MatchingParameter.__matches", "a field matches if any item matches", f.loc)
    elif "any(" in text:
        run.ok(R, "MatchingParameter.__matches", "a field matches if any item matches", f.loc)
    else:
        run.violation(R, "MatchingParameter.__matches", "list-any",
                      "a field value does not match when any of its items matches", f.loc)
