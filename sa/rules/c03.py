"""C03 — decode ∘ encode = identity, claimed for inverse wiring, rounding and gating."""
from __future__ import annotations

from ..report import Run
from ..src import Program
from . import common, compu

EXPLANATION = (
    "The internal->physical and physical->internal formulas of LinearSegment are extracted as "
    "expression trees, composed and normalised (rational normal form): the composition must be "
    "the identity; every CompuMethod subclass must use the data of its own direction (the state "
    "a converter's rejection depends on is what is_valid_* of that direction consults; TAB-INTP "
    "passes (value, own-role points, other-role points); TEXTTABLE selects by COMPU-CONST and "
    "returns inverse value / lower / upper limit); computed results are rounded, never "
    "truncated; DataObjectProperty converts only values its validity gate accepted; absent "
    "values are tested by identity.")
ASSUMPTIONS = [
    "the identity itself on concrete values, injectivity and RAT-FUNC inverses (independent "
    "coefficients given in the data) are not decided",
]


def check(prog: Program, run: Run) -> None:
    run.rule("C03.R1", "the linear forward and inverse formulas are algebraic inverses", floor=1)
    run.rule("C03.R2", "direction wiring: each direction uses its own role's data and the "
             "validity gate consults what the converter rejects on", floor=16)
    run.rule("C03.R3", "computed results are rounded to nearest, never truncated", floor=5)
    run.rule("C03.R4", "DataObjectProperty converts only what its validity gate accepted and "
             "encodes/decodes the converted value", floor=4)
    run.rule("C03.R5", "the encoder accepts every value the decoder can produce for the same "
             "encoding (two's-complement minimum)", floor=1)
    run.rule("C03.G5", "absent values are tested by identity, not truthiness", floor=2)
    run.rule("C03.R6", "the atomic writer lays out value bits, padding, byte order and used-bit "
             "mask by the reader's formulas: no bit of an accepted value is dropped (shared with "
             "C02.R2)", floor=6)
    compu.linear_forms(prog, run, "C03.R2", "C03.R1")
    compu.validity_vs_conversion(prog, run, "C03.R2")
    compu.conversion_guards(prog, run, "C03.R2")
    compu.tabintp_forms(prog, run, "C03.R2", "C03.R2")
    compu.texttable_roles(prog, run, "C03.R2")
    compu.rounding(prog, run, "C03.R3")
    compu.horner(prog, run, "C03.R3")  # incl. which type decides the rounding of RAT-FUNC
    compu.dop_gates(prog, run, "C03.R4")
    from . import c04
    c04.twoc_minimum_is_exact(prog, run, "C03.R5")
    from . import c02
    common.run_as(run, "C02.R2", "C03.R6", lambda r: c02._siblings(prog, r))
    run.rule("C03.R7", "each part of a COMPU-SCALE is parsed with the data type of the side it "
             "belongs to, so an inverse value has the internal type the encoder needs (shared "
             "with C07.R8)", floor=7)
    compu.scale_parse_roles(prog, run, "C03.R7")
    common.g5_absence_by_truthiness(prog, run, "C03.G5", [
        "odxtools/compumethods/*.py", "odxtools/dataobjectproperty.py", "odxtools/dtcdop.py"])
