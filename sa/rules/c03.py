"""C03 — decode ∘ encode = identity, claimed for inverse wiring, rounding and gating."""
from __future__ import annotations

from ..report import Run
from ..src import Program
from . import common, compu

EXPLANATION = (
    "The internal->physical and physical->internal formulas of LinearSegment are extracted as "
    "expression trees, composed and normalised (rational normal form): the composition must be "
    "the identity; every CompuMethod subclass must use the data of its own direction (the state "
    "a converter's rejection depends on is what is_valid_* of that direction consults; TAB-INTP "
    "passes (value, own-role points, other-role points); TEXTTABLE selects by COMPU-CONST and "
    "returns inverse value / lower / upper limit); computed results are rounded, never "
    "truncated; DataObjectProperty converts only values its validity gate accepted; absent "
    "values are tested by identity.")
ASSUMPTIONS = [
    "the identity itself on concrete values, injectivity and RAT-FUNC inverses (independent "
    "coefficients given in the data) are not decided",
]


def check(prog: Program, run: Run) -> None:
    run.rule("C03.R1", "the linear forward and inverse formulas are algebraic inverses", floor=1)
    run.rule("C03.R2", "direction wiring: each direction uses its own role's data and the "
             "validity gate consults what the converter rejects on", floor=16)
    run.rule("C03.R3", "computed results are rounded to nearest, never truncated", floor=5)
    run.rule("C03.R4", "DataObjectProperty converts only what its validity gate accepted and "
             "encodes/decodes the converted value", floor=4)
    run.rule("C03.R5", "the encoder accepts every value the decoder can produce for the same "
             "encoding (two's-complement minimum)", floor=1)
    run.rule("C03.G5", "absent values are tested by identity, not truthiness", floor=2)
    run.rule("C03.R6", "the atomic writer lays out value bits, padding, byte order and used-bit "
             "mask by the reader's formulas: no bit of an accepted value is dropped (shared with "
             "C02.R2)", floor=6)
    compu.linear_forms(prog, run, "C03.R2", "C03.R1")
    compu.validity_vs_conversion(prog, run, "C03.R2")
    compu.conversion_guards(prog, run, "C03.R2")
    compu.tolerances(prog, run, "C03.R1")
    compu.tabintp_forms(prog, run, "C03.R2", "C03.R2")
    compu.texttable_roles(prog, run, "C03.R2")
    compu.rounding(prog, run, "C03.R3")
    compu.horner(prog, run, "C03.R3")  # incl. which type decides the rounding of RAT-FUNC
    compu.dop_gates(prog, run, "C03.R4")
    from . import c04
    c04.twoc_minimum_is_exact(prog, run, "C03.R5")
    bytes_like_accepted(prog, run, "C03.R5")
    from . import c02
    common.run_as(run, "C02.R2", "C03.R6", lambda r: c02._siblings(prog, r))
    # re-encoding puts the keys where the decoder read them: the value pass of key parameters
    # positions byte and bit cursor itself
    from . import c01
    c01.key_value_pass_positions(prog, run, "C03.R6")
    c02.mask_byte_order(prog, run, "C03.R6")
    # the integer representations: what the decoder computes for a raw value is the ODX formula
    # (per bit length, not per byte), i.e. the inverse of what the encoder does
    common.run_as(run, "C02.R1", "C03.R5", lambda r: c02._formulas(prog, r))
    run.rule("C03.R7", "each part of a COMPU-SCALE is parsed with the data type of the side it "
             "belongs to, so an inverse value has the internal type the encoder needs (shared "
             "with C07.R8)", floor=7)
    compu.scale_parse_roles(prog, run, "C03.R7")
    common.g5_absence_by_truthiness(prog, run, "C03.G5", [
        "odxtools/compumethods/*.py", "odxtools/dataobjectproperty.py", "odxtools/dtcdop.py"])


def bytes_like_accepted(prog: Program, run: Run, R: str) -> None:
    """The decoder hands out byte fields as `bytes` (a slice of the PDU) or as `bytearray` (the
    python type of A_BYTEFIELD, e.g. for zero bits): every type test an encoder applies to the
    internal value that admits `bytes` admits `bytearray` too (`BytesTypes`)."""
    import ast
    from ..src import call_name, walk_no_nested
    n = 0
    for f in prog.iter_functions():
        rel = f.module.rel
        if not (rel.endswith(("lengthtype.py", "lengthinfotype.py", "diagcodedtype.py",
                              "encodestate.py")) and rel.startswith("odxtools/")):
            continue
        for x in walk_no_nested(f.node):
            if not (isinstance(x, ast.Call) and call_name(x) == "isinstance" and len(x.args) == 2):
                continue
            t = x.args[1]
            names = [ast.unparse(e) for e in (t.elts if isinstance(t, ast.Tuple) else [t])]
            if "bytes" not in names:
                continue
            n += 1
            if "bytearray" in names or "BytesTypes" in names:
                run.ok(R, f.qual, f"`{ast.unparse(x)}` admits bytearray as well",
                       f"{rel}:{x.lineno}")
            else:
                run.violation(R, f.qual, "bytearray-rejected",
                              f"`{ast.unparse(x)}` admits bytes but not bytearray: "
                              "DecodeState.extract_atomic_value returns bytearray() for an "
                              "empty A_BYTEFIELD (the python type of the base type), so the "
                              "value just decoded is rejected when it is encoded again",
                              f"{rel}:{x.lineno}", ast.unparse(x))
    run.ok(R, "diag-coded types", f"{n} type tests that admit bytes inspected", "odxtools/")
