"""Shared whole-package rules, reported under the property whose files contain the construct.

G1  literal attribute names in getattr/hasattr exist on the receiver's class hierarchy
G2  no if/elif chain repeats a (normalised) test
G3  no local is read on a path on which it was never assigned
G4  no result is memoised across calls by something that does not determine it
"""
from __future__ import annotations

import ast
import fnmatch
from typing import Dict, Iterable, List, Optional, Sequence, Set

from ..cfg import CFG, use_before_def
from ..exprnorm import norm_test
from ..report import Run
from ..src import FuncInfo, Module, Program, call_name, stmt_key, walk_no_nested
from ..types import TypeEnv, class_has_attr, classes_of


def in_scope(rel: str, patterns: Sequence[str]) -> bool:
    return any(fnmatch.fnmatch(rel, p) for p in patterns)


def funcs_in(prog: Program, patterns: Sequence[str]) -> List[FuncInfo]:
    return [f for f in prog.iter_functions() if in_scope(f.module.rel, patterns)]


# --------------------------------------------------------------------- G1
def g1_literal_attrs(prog: Program, run: Run, rule: str, patterns: Sequence[str],
                     forwarded_in: Sequence[str] = ()) -> int:
    """``forwarded_in``: functions (by name) in which a getattr() default must not hide an
    attribute that the raw class of a wrapper has but the wrapper does not forward."""
    n = 0
    all_classes = list(prog.classes_by_mod.values())
    for f in funcs_in(prog, patterns):
        env: Optional[TypeEnv] = None
        for x in walk_no_nested(f.node):
            if not (isinstance(x, ast.Call) and isinstance(x.func, ast.Name) and
                    x.func.id in ("getattr", "hasattr") and len(x.args) >= 2 and
                    isinstance(x.args[1], ast.Constant) and isinstance(x.args[1].value, str)):
                continue
            name = x.args[1].value
            n += 1
            if env is None:
                env = TypeEnv(prog, f)
            recv = x.args[0]
            cls = classes_of(env.type_of(recv))
            where = f"{f.module.rel}:{x.lineno}"
            construct = f"{f.module.rel}:{f.qual}"
            if cls:
                # the attribute may live on the static class, a base or any subclass
                cand: List = []
                for c in cls:
                    cand += prog.mro(c)
                    cand += prog.subclasses(c)
                # wrapper classes (K) around raw classes (KRaw): a default hides the attribute
                # of every K that does not forward what its KRaw has
                hidden = []
                if len(x.args) >= 3 and f.name in forwarded_in:
                    for c in cls:
                        for k in [c] + list(prog.subclasses(c)):
                            raw = prog.classes.get(k.name + "Raw")
                            if raw is not None and class_has_attr(prog, raw, name) and not any(
                                    class_has_attr(prog, b, name) for b in prog.mro(k)):
                                hidden.append(k.name)
                if hidden:
                    run.violation(rule, construct, f"default-hides-{name}-of-{sorted(hidden)[0]}",
                                  f"`{ast.unparse(x)}` yields its default for "
                                  f"{sorted(set(hidden))}, whose raw class has `{name}` but "
                                  "which does not forward it: what is described there is "
                                  "silently ignored", where, stmt_key(x))
                elif any(class_has_attr(prog, c, name) for c in cand):
                    run.ok(rule, construct, f"`{ast.unparse(x)}`: {name} exists in the class "
                           f"hierarchy of {'/'.join(c.name for c in cls)}", where)
                else:
                    run.violation(rule, construct, f"unknown-attribute-{name}",
                                  f"`{ast.unparse(x)}`: no class in the hierarchy of "
                                  f"{'/'.join(c.name for c in cls)} has an attribute `{name}`; "
                                  "the call silently yields its default", where,
                                  stmt_key(x))
            else:
                if any(class_has_attr(prog, c, name) for c in all_classes):
                    run.ok(rule, construct, f"`{ast.unparse(x)}`: {name} exists on some class of "
                           "the package (receiver type not resolved)", where)
                else:
                    run.violation(rule, construct, f"unknown-attribute-{name}",
                                  f"`{ast.unparse(x)}`: no class of the package has an attribute "
                                  f"`{name}`; the call silently yields its default", where,
                                  stmt_key(x))
    return n


# --------------------------------------------------------------------- G2
def g2_repeated_tests(prog: Program, run: Run, rule: str, patterns: Sequence[str]) -> int:
    """A test that is already decided by the tests directly in front of it: an `elif` that
    repeats an earlier test of its chain, or -- the same thing after branch normalisation -- an
    `if` that is the first statement of a branch whose condition it contradicts. Only chains
    without statements in between are followed, so nothing can have changed the operands."""
    n = 0
    for f in funcs_in(prog, patterns):
        # parent links: If -> (parent If, polarity) when it is the FIRST statement of a branch
        link = {}
        for x in walk_no_nested(f.node):
            if isinstance(x, ast.If):
                if x.body and isinstance(x.body[0], ast.If):
                    link[id(x.body[0])] = (x, True)
                if x.orelse and isinstance(x.orelse[0], ast.If):
                    link[id(x.orelse[0])] = (x, False)
        for x in walk_no_nested(f.node):
            if not isinstance(x, ast.If) or id(x) not in link:
                continue
            n += 1
            if any(isinstance(y, ast.NamedExpr) for y in ast.walk(x.test)):
                continue
            k_pos = norm_test(x.test)
            k_neg = norm_test(x.test, negate=True)
            cur = x
            hit = None
            depth = 0
            while id(cur) in link:
                par, pol = link[id(cur)]
                depth += 1
                if not any(isinstance(y, ast.NamedExpr) for y in ast.walk(par.test)):
                    pk = norm_test(par.test, negate=not pol)  # what holds on this branch
                    if pk == k_neg:
                        hit = (par, "can never be taken")
                        break
                    if pk == k_pos:
                        hit = (par, "is always taken")
                        break
                cur = par
            if hit is not None:
                par, what = hit
                run.violation(rule, f"{f.module.rel}:{f.qual}",
                              "repeated-test:" + " ".join(ast.unparse(x.test).split())[:80],
                              f"the branch `if {ast.unparse(x.test)}` {what}: its test is decided "
                              f"by the test of line {par.lineno} directly in front of it (an "
                              "`elif` repeating an earlier test of its chain)",
                              f"{f.module.rel}:{x.lineno}", stmt_key(x))
            else:
                run.ok(rule, f"{f.module.rel}:{f.qual}",
                       f"test not decided by the {depth} test(s) in front of it",
                       f"{f.module.rel}:{x.lineno}")
    return n


# --------------------------------------------------------------------- G3
def g3_definite_assignment(prog: Program, run: Run, rule: str, patterns: Sequence[str]) -> int:
    n = 0
    for f in funcs_in(prog, patterns):
        n += 1
        # strict-mode view: odxraise() does not return
        hits = use_before_def(f.node, CFG(f.node, odxraise_continues=False))
        names = sorted({h[0] for h in hits})
        if not names:
            run.ok(rule, f"{f.module.rel}:{f.qual}", "every local is assigned on every path "
                   "before it is read", f.loc)
        for name in names:
            first = [h for h in hits if h[0] == name][0]
            run.violation(rule, f"{f.module.rel}:{f.qual}", f"use-before-assignment-{name}",
                          f"local `{name}` is read at line {first[1].lineno} on a path on which it "
                          "was never assigned (an annotation without value is not an "
                          "assignment): UnboundLocalError", f"{f.module.rel}:{first[1].lineno}",
                          stmt_key(first[2].stmt) if first[2].stmt is not None else "")
    return n


# --------------------------------------------------------------------- G4
_MEMO = {"lru_cache", "cache", "functools.lru_cache", "functools.cache", "memoize"}


def g4_no_stale_memo(prog: Program, run: Run, rule: str, patterns: Sequence[str]) -> int:
    n = 0
    for m in prog.modules.values():
        if not in_scope(m.rel, patterns):
            continue
        n += 1
        bad = False
        # module-level mutable containers
        containers = {}
        for st in m.tree.body:
            tgt = None
            val = None
            if isinstance(st, ast.Assign) and len(st.targets) == 1 and isinstance(
                    st.targets[0], ast.Name):
                tgt, val = st.targets[0].id, st.value
            elif isinstance(st, ast.AnnAssign) and isinstance(st.target, ast.Name) and st.value:
                tgt, val = st.target.id, st.value
            if tgt and isinstance(val, (ast.Dict, ast.List, ast.Set)) or (
                    tgt and isinstance(val, ast.Call) and call_name(val) in (
                        "dict", "list", "set", "defaultdict", "OrderedDict", "WeakValueDictionary")):
                containers[tgt] = st
        for f in prog.iter_functions():
            if f.module is not m:
                continue
            for d in f.decorators:
                if d in _MEMO or d.split(".")[-1] in ("lru_cache", "cache"):
                    # impure: reads module globals that are (re)assigned, or attributes of args
                    glob_assigned = set()
                    for g in prog.iter_functions():
                        if g.module is m:
                            for y in walk_no_nested(g.node):
                                if isinstance(y, ast.Global):
                                    glob_assigned |= set(y.names)
                    params = set(f.params())
                    reads_state = False
                    for y in walk_no_nested(f.node):
                        if isinstance(y, ast.Name) and isinstance(y.ctx, ast.Load) and (
                                y.id in glob_assigned or y.id in containers):
                            reads_state = True
                        if isinstance(y, ast.Attribute) and isinstance(y.value, ast.Name) and \
                                y.value.id in params:
                            reads_state = True
                    if reads_state:
                        bad = True
                        run.violation(rule, f"{m.rel}:{f.qual}", "memoised-impure-function",
                                      f"`@{d}` memoises {f.qual}, whose result depends on state "
                                      "outside its arguments (module globals / attributes of "
                                      "mutable objects): a later call with other state returns "
                                      "the stale result", f.loc)
            for y in walk_no_nested(f.node):
                tname = None
                if isinstance(y, (ast.Assign, ast.AugAssign)):
                    tg = y.targets if isinstance(y, ast.Assign) else [y.target]
                    for t in tg:
                        if isinstance(t, ast.Subscript) and isinstance(t.value, ast.Name) and \
                                t.value.id in containers:
                            tname = t.value.id
                if isinstance(y, ast.Call) and isinstance(y.func, ast.Attribute) and isinstance(
                        y.func.value, ast.Name) and y.func.value.id in containers and \
                        y.func.attr in ("append", "add", "update", "setdefault", "extend",
                                        "insert", "__setitem__"):
                    tname = y.func.value.id
                if tname is not None and tname not in f.params() and not _is_local(f, tname):
                    bad = True
                    run.violation(rule, f"{m.rel}:{f.qual}", f"cross-call-cache-{tname}",
                                  f"{f.qual} stores results in the module-level container "
                                  f"`{tname}`: what a later call reports depends on earlier calls "
                                  "(e.g. on another database with the same IDs/names), not only "
                                  "on its input", f"{m.rel}:{y.lineno}", stmt_key(y))
        if not bad:
            run.ok(rule, m.rel, "no memoisation across calls (no written module-level container, "
                   "no memoised impure function)", m.rel)
    return n


def _is_local(f: FuncInfo, name: str) -> bool:
    from ..cfg import local_names
    return name in local_names(f.node)


# --------------------------------------------------------------------- G5
def _truth_atoms(t: ast.AST):
    if isinstance(t, ast.BoolOp):
        for v in t.values:
            yield from _truth_atoms(v)
    elif isinstance(t, ast.UnaryOp) and isinstance(t.op, ast.Not):
        yield from _truth_atoms(t.operand)
    elif isinstance(t, (ast.Name, ast.Attribute, ast.NamedExpr)):
        yield t


def g5_absence_by_truthiness(prog: Program, run: Run, rule: str,
                             patterns: Sequence[str]) -> int:
    """An ``Optional`` whose payload admits falsy *values* (0, 0.0, '', b'') must be tested with
    ``is None`` / ``is not None``; a truthiness test treats a legitimate 0 / '' as absent."""
    from ..types import annotation_of, is_optional_value_annotation
    n = 0
    for f in funcs_in(prog, patterns):
        cands = []
        tests = set()
        for x in walk_no_nested(f.node):
            if isinstance(x, (ast.If, ast.While, ast.IfExp)):
                for y in ast.walk(x.test):
                    tests.add(id(y))
                cands += list(_truth_atoms(x.test))
            if isinstance(x, ast.Assert):
                cands += list(_truth_atoms(x.test))
        for x in walk_no_nested(f.node):
            if isinstance(x, ast.BoolOp) and id(x) not in tests:
                last = x.values[-1]
                if isinstance(x.op, ast.Or) and isinstance(last, ast.Constant) and \
                        last.value is not None and not last.value:
                    continue  # `x or 0`: the default equals the falsy value
                for v in x.values[:-1]:
                    if isinstance(v, (ast.Name, ast.Attribute, ast.NamedExpr)):
                        cands.append(v)
        if not cands:
            continue
        env = TypeEnv(prog, f)
        bad = False
        for c in cands:
            txt = ast.unparse(c)
            if txt.endswith("_snref") or txt.endswith("_snpathref"):
                continue  # names: the empty string is not a valid short name anyway
            a = annotation_of(env, c)
            if is_optional_value_annotation(a):
                n += 1
                bad = True
                run.violation(rule, f"{f.module.rel}:{f.qual}", f"absence-by-truthiness-{txt[:40]}",
                              f"`{txt}` (declared `{ast.unparse(a)}`) is tested by truthiness: the "
                              "legitimate values 0, 0.0, '' and b'' are treated like an absent "
                              "value", f"{f.module.rel}:{c.lineno}", txt)
        if not bad:
            n += 1
            run.ok(rule, f"{f.module.rel}:{f.qual}",
                   f"{len(cands)} truthiness tests, none on an Optional value type", f.loc)
    return n


def run_as(run: Run, src: str, dst: str, fn) -> None:
    """Run a rule implemented for another property and re-label its instances."""
    tmp = Run(run.prop, run.tier, "", [])
    tmp.rule(src, "")
    fn(tmp)
    for i in tmp.instances:
        if i["verdict"] == "holds":
            run.ok(dst, i["construct"], i["obligation"], i["loc"])
        else:
            run.violation(dst, i["construct"], i["aspect"], i["obligation"], i["loc"],
                          i.get("stmt", ""))


def parents_descending(prog: Program, call: ast.Call) -> Optional[bool]:
    """Effective order of ``self._get_parent_refs_sorted_by_priority(...)`` at one call site:
    True = highest priority first, False = lowest first, None = cannot tell. The helper's
    ``sorted(..., reverse=<expr>)`` is evaluated with the call's arguments and the defaults."""
    s = prog.func("HierarchyElement._get_parent_refs_sorted_by_priority")
    rets = [r for r in walk_no_nested(s.node) if isinstance(r, ast.Return)]
    if len(rets) != 1 or not (isinstance(rets[0].value, ast.Call) and
                              call_name(rets[0].value) == "sorted"):
        return None
    c = rets[0].value
    kws = {k.arg: k.value for k in c.keywords}
    a = s.node.args
    names = [x.arg for x in a.args][1:]
    bound = {}
    defaults = a.defaults
    for nm, d in zip(names[len(names) - len(defaults):], defaults):
        bound[nm] = d
    for nm, v in zip(names, call.args):
        bound[nm] = v
    for k in call.keywords:
        if k.arg is not None:
            bound[k.arg] = k.value

    def ev(e) -> Optional[bool]:
        if e is None:
            return False
        if isinstance(e, ast.Constant) and isinstance(e.value, bool):
            return e.value
        if isinstance(e, ast.Name) and e.id in bound:
            return ev(bound[e.id]) if not isinstance(bound[e.id], ast.Name) else None
        if isinstance(e, ast.UnaryOp) and isinstance(e.op, ast.Not):
            r = ev(e.operand)
            return None if r is None else not r
        return None
    rev = ev(kws.get("reverse"))
    if rev is None:
        return None
    key = ast.unparse(kws["key"]) if "key" in kws else ""
    if "inheritance_priority" not in key:
        return None
    if "-" in key:
        rev = not rev
    return rev


def _is_named_list(env, e: ast.AST) -> bool:
    from ..types import annotation_of
    try:
        a = annotation_of(env, e)
    except Exception:  # noqa: BLE001
        return False
    if a is None:
        return False
    while isinstance(a, ast.Subscript) and ast.unparse(a.value).split(".")[-1] == "Optional":
        a = a.slice
    head = a.value if isinstance(a, ast.Subscript) else a
    if isinstance(head, ast.Constant) and isinstance(head.value, str):
        return head.value.lstrip("'\"").startswith(("NamedItemList", "ItemAttributeList"))
    return ast.unparse(head).split(".")[-1] in ("NamedItemList", "ItemAttributeList")


def g6_lookup_by_short_name(prog: Program, run: Run, rule: str, patterns: Sequence[str],
                            strict_get: bool = False) -> int:
    """A NamedItemList is keyed by the *mangled* attribute name (`_`-prefixed for keywords and
    leading digits, `_2` for duplicates, names of list methods are shadowed): looking an item up
    with somebody's raw short_name (`lst.get(x.short_name)`, `lst[x.short_name]`,
    `getattr(lst, x.short_name)`) misses exactly those items. Equality of short names needs a
    scan."""
    n = 0
    for f in prog.iter_functions():
        if not in_scope(f.module.rel, patterns):
            continue
        env = None
        for x in walk_no_nested(f.node):
            recv = arg = None
            kind = ""
            if isinstance(x, ast.Call) and isinstance(x.func, ast.Attribute) and \
                    x.func.attr == "get" and x.args:
                recv, arg, kind = x.func.value, x.args[0], ".get()"
            elif isinstance(x, ast.Subscript) and not isinstance(x.slice, ast.Slice):
                recv, arg, kind = x.value, x.slice, "[...]"
            elif isinstance(x, ast.Call) and isinstance(x.func, ast.Name) and \
                    x.func.id == "getattr" and len(x.args) >= 2:
                recv, arg, kind = x.args[0], x.args[1], "getattr()"
            if recv is None or arg is None:
                continue
            n += 1
            if "short_name" not in ast.unparse(arg):
                # `.get(<runtime string>)` on a NamedItemList: in library code every such string
                # is somebody's short name (a case / service / parameter named by the caller)
                if not (strict_get and kind == ".get()" and not isinstance(arg, ast.Constant)):
                    continue
                env = env or TypeEnv(prog, f)
                if not _is_named_list(env, recv):
                    continue
                run.violation(rule, f"{f.module.rel}:{f.qual}", "lookup-by-raw-short-name",
                              f"`{' '.join(ast.unparse(x).split())[:90]}` looks an item of a "
                              "NamedItemList up by a name given by the caller; the list is keyed "
                              "by the mangled name, so items whose short name is a Python "
                              "keyword, starts with a digit, equals a list method or is a "
                              "duplicate are not found (equality of short names needs a scan)",
                              f"{f.module.rel}:{x.lineno}")
                continue
            env = env or TypeEnv(prog, f)
            t = env.type_of(recv)
            if t is not None and t[0] == "list":
                run.violation(rule, f"{f.module.rel}:{f.qual}", "lookup-by-raw-short-name",
                              f"`{' '.join(ast.unparse(x).split())[:90]}` looks an item of a "
                              f"NamedItemList up by a raw short name ({kind}); the list is keyed "
                              "by the mangled name, so items whose short name is a Python "
                              "keyword, starts with a digit, equals a list method or is a "
                              "duplicate are not found", f"{f.module.rel}:{x.lineno}")
    run.ok(rule, "package", f"{n} keyed lookups examined, none uses a raw short name on a "
           "NamedItemList", "odxtools/")
    return n


def resolve_locals(fn: ast.AST, expr: ast.AST, depth: int = 4) -> ast.AST:
    """``expr`` with every local name that has exactly one simple definition in ``fn`` replaced
    by that definition (repeatedly, up to ``depth`` levels)."""
    import copy
    defs: Dict[str, List[ast.AST]] = {}
    for x in walk_no_nested(fn):
        if isinstance(x, (ast.Assign, ast.AnnAssign)) and getattr(x, "value", None) is not None:
            tgs = x.targets if isinstance(x, ast.Assign) else [x.target]
            for t in tgs:
                if isinstance(t, ast.Name):
                    defs.setdefault(t.id, []).append(x.value)
        elif isinstance(x, (ast.AugAssign, ast.For, ast.NamedExpr, ast.With)):
            tg = getattr(x, "target", None)
            for n in ast.walk(tg) if tg is not None else []:
                if isinstance(n, ast.Name):
                    defs.setdefault(n.id, []).extend([None, None])  # not a single definition
    single = {k: v[0] for k, v in defs.items() if len(v) == 1 and v[0] is not None}

    class Tr(ast.NodeTransformer):
        def visit_Name(self, node: ast.Name) -> ast.AST:
            if isinstance(node.ctx, ast.Load) and node.id in single:
                return copy.deepcopy(single[node.id])
            return node
    cur = copy.deepcopy(expr)
    for _ in range(depth):
        nxt = Tr().visit(copy.deepcopy(cur))
        if ast.dump(nxt) == ast.dump(cur):
            break
        cur = nxt
    return ast.fix_missing_locations(cur)


# --------------------------------------------------------------------- G7
def _find_tag(e: ast.AST) -> Optional[str]:
    """the XML tag of `<elem>.find("TAG")` / findtext / iterfind / get inside e (first one)"""
    for x in ast.walk(e):
        if isinstance(x, ast.Call) and isinstance(x.func, ast.Attribute) and x.func.attr in (
                "find", "findtext", "iterfind", "findall") and x.args and isinstance(
                    x.args[0], ast.Constant) and isinstance(x.args[0].value, str):
            return x.args[0].value
    return None


def _presence(t: ast.AST, pol: bool) -> Optional[bool]:
    """does taking the branch (t, pol) mean that the element looked up in t is present?"""
    if isinstance(t, ast.UnaryOp) and isinstance(t.op, ast.Not):
        return _presence(t.operand, not pol)
    if isinstance(t, ast.Compare) and len(t.ops) == 1 and isinstance(
            t.comparators[0], ast.Constant) and t.comparators[0].value is None:
        if isinstance(t.ops[0], (ast.IsNot, ast.NotEq)):
            return pol
        if isinstance(t.ops[0], (ast.Is, ast.Eq)):
            return not pol
        return None
    if isinstance(t, (ast.NamedExpr, ast.Call, ast.Name)):
        return pol
    return None


def g7_independent_elements(prog: Program, run: Run, rule: str, patterns: Sequence[str],
                            choices: Sequence[Set[str]] = ()) -> int:
    """In a parser (`from_et`), whether the element that feeds one field is looked for must not
    depend on the *absence* of an element that feeds a different field: `if find(A): a = … elif
    find(B): b = …` silently drops B whenever A is present. An elif chain that feeds ONE field
    from alternative spellings (VALUE / SIMPLE-VALUE / COMPLEX-VALUE) is a choice and is fine, as
    are the tag sets listed in ``choices`` (xsd:choice of the schema)."""
    n = 0
    for f in funcs_in(prog, patterns):
        if not f.name.endswith("from_et"):
            continue
        cfg = CFG(f.node)
        # field variable -> tags it is fed from
        feeds = []
        for x in walk_no_nested(f.node):
            if isinstance(x, (ast.Assign, ast.AnnAssign)) and getattr(x, "value", None) is not None:
                tg = x.targets[0] if isinstance(x, ast.Assign) else x.target
                if not isinstance(tg, ast.Name):
                    continue
                tag = _find_tag(x.value)
                if tag is None:
                    # value read from an element bound by a walrus in the controlling test
                    names = {y.id for y in ast.walk(x.value) if isinstance(y, ast.Name)}
                    for t, pol in cfg.branch_conditions(cfg.node_of(x)):
                        for w in ast.walk(t):
                            if isinstance(w, ast.NamedExpr) and isinstance(
                                    w.target, ast.Name) and w.target.id in names and \
                                    _presence(t, pol) is True:
                                tag = _find_tag(w.value)
                if tag is not None:
                    feeds.append((tg.id, tag, x))
        for var, tag, st in feeds:
            for t, pol in cfg.branch_conditions(cfg.node_of(st)):
                if _presence(t, pol) is not False:
                    continue
                other = _find_tag(t)
                if other is None or other == tag:
                    continue
                owners = {v for v, tg_, _s in feeds if tg_ == other}
                if not owners or var in owners:
                    continue  # alternative spellings of the same field
                if any({tag, other} <= c for c in choices):
                    continue
                n += 1
                run.violation(rule, f"{f.module.rel}:{f.qual}", f"element-{tag}-skipped-when-{other}",
                              f"`{stmt_key(st)}`: <{tag}> (field `{var}`) is only read when "
                              f"<{other}> (field `{sorted(owners)[0]}`) is absent: an element "
                              "that carries both loses the second one",
                              f"{f.module.rel}:{st.lineno}", stmt_key(st))
        n += 1
        run.ok(rule, f"{f.module.rel}:{f.qual}", f"{len(feeds)} element reads, none conditional "
               "on the absence of another field's element", f.loc)
    return n


# --------------------------------------------------------------------- G8
def g8_xsd_boolean(prog: Program, run: Run, rule: str, patterns: Sequence[str]) -> int:
    """xsd:boolean admits "true", "false", "1" and "0". A parser that compares the text of an
    element or attribute with only some of these spellings reads the others as the opposite
    value; the complete conversion is odxstr_to_bool()."""
    n = 0
    BOOL = {"true", "false", "1", "0"}
    for f in funcs_in(prog, patterns):
        if f.name == "odxstr_to_bool":
            continue
        bad = False
        for x in walk_no_nested(f.node):
            if not (isinstance(x, ast.Compare) and len(x.ops) == 1):
                continue
            consts = None
            c0 = x.comparators[0]
            if isinstance(x.ops[0], (ast.Eq, ast.NotEq)):
                for side in (x.left, c0):
                    if isinstance(side, ast.Constant) and side.value in ("true", "false"):
                        consts = {side.value}
            elif isinstance(x.ops[0], (ast.In, ast.NotIn)) and isinstance(
                    c0, (ast.Tuple, ast.List, ast.Set)) and c0.elts and all(
                        isinstance(e, ast.Constant) and isinstance(e.value, str)
                        for e in c0.elts):
                vals = {e.value for e in c0.elts}
                if vals <= BOOL and vals & {"true", "false"}:
                    consts = vals
            if consts is None:
                continue
            n += 1
            if consts in ({"true", "1"}, {"false", "0"}, BOOL):
                run.ok(rule, f"{f.module.rel}:{f.qual}", f"`{ast.unparse(x)}` covers both "
                       "spellings", f"{f.module.rel}:{x.lineno}")
            else:
                bad = True
                run.violation(rule, f"{f.module.rel}:{f.qual}", "xsd-boolean-spelling",
                              f"`{ast.unparse(x)}` recognises only {sorted(consts)} of the "
                              "xsd:boolean spellings true/1/false/0: the other spelling is read "
                              "as the opposite value (use odxstr_to_bool)",
                              f"{f.module.rel}:{x.lineno}", ast.unparse(x))
    # the conversion helper itself
    h = prog.find_func("odxtools.odxtypes:odxstr_to_bool")
    if h is not None:
        n += 1
        lits = {c.value for c in ast.walk(h.node) if isinstance(c, ast.Constant) and
                isinstance(c.value, str) and c.value in BOOL}
        rets = [r.value for r in walk_no_nested(h.node) if isinstance(r, ast.Return) and
                isinstance(r.value, ast.Compare)]
        true_set = set()
        for r in rets:
            if isinstance(r.ops[0], ast.In) and isinstance(r.comparators[0],
                                                           (ast.List, ast.Tuple, ast.Set)):
                true_set = {e.value for e in r.comparators[0].elts
                            if isinstance(e, ast.Constant)}
        if lits == BOOL and true_set == {"1", "true"}:
            run.ok(rule, "odxstr_to_bool", "accepts true/1/false/0 and maps 1/true to True",
                   h.loc)
        else:
            run.violation(rule, "odxstr_to_bool", "xsd-boolean-helper",
                          f"odxstr_to_bool knows {sorted(lits)} and maps {sorted(true_set)} to "
                          "True; xsd:boolean is true/1 -> True, false/0 -> False", h.loc)
    return n


# --------------------------------------------------------------------- G9
LIST_MUTATORS = {"append", "extend", "insert", "remove", "pop", "clear", "sort", "reverse",
                 "__iadd__", "__imul__", "__setitem__", "__delitem__"}


def g9_named_list_raw_mutation(prog: Program, run: Run, rule: str) -> int:
    """ItemAttributeList keeps its name dictionary consistent only through the mutators it
    overrides. Everything else `list` offers (`+=`, `*=`, item / slice assignment, `del l[i]`,
    sort, reverse, ...) changes the list behind the dictionary's back, so no code of the package may
    apply such an operation to an object declared as NamedItemList."""
    from ..types import annotation_of
    ial = prog.cls("ItemAttributeList")
    nil = prog.cls("NamedItemList")
    overridden = set(ial.methods) | set(nil.methods)
    raw = LIST_MUTATORS - overridden
    n = 0

    def is_named(env, e: ast.AST) -> bool:
        try:
            a = annotation_of(env, e)
        except Exception:  # noqa: BLE001
            return False
        if a is None:
            # un-annotated `self.x = NamedItemList[...](...)` somewhere in the class
            if isinstance(e, ast.Attribute) and isinstance(e.value, ast.Name) and \
                    e.value.id == "self" and env.f.cls is not None:
                for c in prog.mro(env.f.cls):
                    for m in c.methods.values():
                        for st in walk_no_nested(m.node):
                            if isinstance(st, (ast.Assign, ast.AnnAssign)) and getattr(
                                    st, "value", None) is not None:
                                tg = st.targets[0] if isinstance(st, ast.Assign) else st.target
                                if ast.unparse(tg) == ast.unparse(e) and isinstance(
                                        st.value, ast.Call):
                                    fn_ = st.value.func
                                    if isinstance(fn_, ast.Subscript):
                                        fn_ = fn_.value
                                    if ast.unparse(fn_).split(".")[-1] in (
                                            "NamedItemList", "ItemAttributeList"):
                                        return True
            return False
        # the outermost type (through Optional[...]) must be the named list itself
        while isinstance(a, ast.Subscript) and ast.unparse(a.value).split(".")[-1] == "Optional":
            a = a.slice
        head = a.value if isinstance(a, ast.Subscript) else a
        if isinstance(head, ast.Constant) and isinstance(head.value, str):
            return head.value.lstrip("'\"").startswith(("NamedItemList", "ItemAttributeList"))
        return ast.unparse(head).split(".")[-1] in ("NamedItemList", "ItemAttributeList")
    for f in prog.iter_functions():
        if f.module.rel.endswith("nameditemlist.py"):
            continue
        env = None
        for x in walk_no_nested(f.node):
            recv = None
            how = ""
            if isinstance(x, ast.AugAssign) and isinstance(x.op, (ast.Add, ast.Mult)):
                recv, how = x.target, "+=" if isinstance(x.op, ast.Add) else "*="
                need = "__iadd__" if isinstance(x.op, ast.Add) else "__imul__"
                if need not in raw:
                    continue
            elif isinstance(x, (ast.Assign, ast.Delete)):
                for t in x.targets:
                    if isinstance(t, ast.Subscript):
                        recv, how = t.value, "item assignment" if isinstance(
                            x, ast.Assign) else "del [...]"
                if recv is not None and ("__setitem__" if isinstance(x, ast.Assign)
                                         else "__delitem__") not in raw:
                    recv = None
            elif isinstance(x, ast.Call) and isinstance(x.func, ast.Attribute) and \
                    x.func.attr in raw:
                recv, how = x.func.value, f".{x.func.attr}()"
            if recv is None:
                continue
            env = env or TypeEnv(prog, f)
            if not is_named(env, recv):
                continue
            n += 1
            run.violation(rule, f"{f.module.rel}:{f.qual}", f"raw-list-mutation-{how}",
                          f"`{stmt_key(x) if isinstance(x, ast.stmt) else ast.unparse(x)}` "
                          f"mutates a NamedItemList through `{how}`, which ItemAttributeList does "
                          "not override: the items are added / moved without their names, so "
                          "lookup by name, keys() and attribute access no longer see them",
                          f"{f.module.rel}:{x.lineno}")
    run.ok(rule, "package", f"no NamedItemList is mutated through an operation the class does not "
           f"override ({sorted(raw)})", "odxtools/")
    return n


# --------------------------------------------------------------------- G12
def g12_keys_are_not_names(prog: Program, run: Run, rule: str, patterns: Sequence[str]) -> int:
    """NamedItemList.keys() are ATTRIBUTE names: a short name that is no python identifier (or a
    keyword, or a duplicate) is stored under a sanitised key (`_1st`, `class_`, `x_2`).  A short
    name must therefore not be tested for membership in keys()."""
    from ..types import annotation_of
    n = 0

    def named(env, e: ast.AST) -> bool:
        try:
            a = annotation_of(env, e)
        except Exception:  # noqa: BLE001
            return False
        if a is None:
            return False
        while isinstance(a, ast.Subscript) and ast.unparse(a.value).split(".")[-1] == "Optional":
            a = a.slice
        head = a.value if isinstance(a, ast.Subscript) else a
        if isinstance(head, ast.Constant) and isinstance(head.value, str):
            return head.value.lstrip("'\"").startswith(("NamedItemList", "ItemAttributeList"))
        return ast.unparse(head).split(".")[-1] in ("NamedItemList", "ItemAttributeList")
    for f in funcs_in(prog, patterns):
        env = None
        # `x.short_name in <named list>`: the elements are objects, never strings
        for x in walk_no_nested(f.node):
            if isinstance(x, ast.Compare) and len(x.ops) == 1 and isinstance(
                    x.ops[0], (ast.In, ast.NotIn)) and any(
                        isinstance(y, ast.Attribute) and y.attr == "short_name"
                        for y in ast.walk(x.left)) and isinstance(
                            x.comparators[0], (ast.Attribute, ast.Name)):
                env = env or TypeEnv(prog, f)
                if named(env, x.comparators[0]):
                    n += 1
                    run.violation(rule, f"{f.module.rel}:{f.qual}", "short-name-in-object-list",
                                  f"`{ast.unparse(x)}` tests a SHORT-NAME (a string) for "
                                  "membership in a NamedItemList, whose elements are the objects "
                                  "themselves: the test is always False",
                                  f"{f.module.rel}:{x.lineno}", ast.unparse(x))
        key_vars: Dict[str, ast.AST] = {}
        key_calls: List[ast.Call] = []
        for x in walk_no_nested(f.node):
            if isinstance(x, ast.Call) and isinstance(x.func, ast.Attribute) and \
                    x.func.attr == "keys" and not x.args:
                env = env or TypeEnv(prog, f)
                if named(env, x.func.value):
                    key_calls.append(x)
        if not key_calls:
            continue
        for x in walk_no_nested(f.node):
            if isinstance(x, (ast.Assign, ast.AnnAssign)) and getattr(x, "value", None) is not None:
                t = x.targets[0] if isinstance(x, ast.Assign) else x.target
                v = x.value
                while isinstance(v, ast.Call) and call_name(v) in ("list", "set", "tuple",
                                                                   "sorted", "frozenset") and v.args:
                    v = v.args[0]
                if isinstance(t, ast.Name) and any(v is c for c in key_calls):
                    key_vars[t.id] = x
        for x in walk_no_nested(f.node):
            if not (isinstance(x, ast.Compare) and len(x.ops) == 1 and isinstance(
                    x.ops[0], (ast.In, ast.NotIn))):
                continue
            c = x.comparators[0]
            is_keys = any(c is k for k in key_calls) or (isinstance(c, ast.Name) and
                                                         c.id in key_vars)
            if not is_keys:
                continue
            n += 1
            if any(isinstance(y, ast.Attribute) and y.attr == "short_name"
                   for y in ast.walk(x.left)):
                run.violation(rule, f"{f.module.rel}:{f.qual}", "short-name-in-keys",
                              f"`{ast.unparse(x)}` looks a SHORT-NAME up among the keys() of a "
                              "NamedItemList, which are sanitised attribute names: for short "
                              "names that are no identifiers (leading digit, keyword, "
                              "duplicate) the test gives the wrong answer",
                              f"{f.module.rel}:{x.lineno}", ast.unparse(x))
    return n


# --------------------------------------------------------------------- G10
def g10_children_only(prog: Program, run: Run, rule: str, patterns: Sequence[str]) -> int:
    """A parser reads the children of its own element (find / iterfind with a path). Walking ALL
    descendants (`Element.iter(tag)`) also picks up elements of the same tag that belong to
    nested objects -- a nested SDG is then read once as a value of its parent and once more as a
    sibling."""
    n = 0
    for f in funcs_in(prog, patterns):
        hits = [x for x in walk_no_nested(f.node) if isinstance(x, ast.Call) and isinstance(
            x.func, ast.Attribute) and x.func.attr in ("iter", "getiterator") and
            len(x.args) <= 1 and not x.keywords and not (
                isinstance(x.func.value, ast.Name) and x.func.value.id in ("itertools",))]
        # only element-like receivers: the call has a string tag argument or none at all, and the
        # receiver is a name / attribute that is looked up with find()/iterfind() elsewhere or is
        # called *element / *elem / *_et
        for x in hits:
            recv = ast.unparse(x.func.value)
            if x.args and not (isinstance(x.args[0], ast.Constant) and isinstance(
                    x.args[0].value, str)):
                continue
            if not x.args and not any(k in recv.lower() for k in ("elem", "_et", "root", "tree")):
                continue
            n += 1
            run.violation(rule, f"{f.module.rel}:{f.qual}", "descendant-iteration",
                          f"`{ast.unparse(x)}` visits every descendant with that tag, not only "
                          "the children that belong to this object: nested elements are read a "
                          "second time as if they were direct children",
                          f"{f.module.rel}:{x.lineno}", ast.unparse(x))
    run.ok(rule, "package", "no parser iterates over all descendants of its element", "odxtools/")
    return n


# --------------------------------------------------------------------- factories
def dispatch_table(prog: Program, f: FuncInfo) -> Dict[object, str]:
    """key -> class name for a factory that picks a class by a key: an if/elif chain
    (`if k == "A": return ClsA.from_et(...)`) or a dictionary (`{"A": ClsA, ...}` in the function
    or at module level) whose looked-up value is then called. Keys are constants or the dotted
    text of enum members."""
    out: Dict[object, str] = {}

    def key_of(e: ast.AST):
        if isinstance(e, ast.Constant):
            return e.value
        if isinstance(e, ast.Attribute):
            return ast.unparse(e)
        return None
    for x in walk_no_nested(f.node):
        if isinstance(x, ast.If) and isinstance(x.test, ast.Compare) and len(
                x.test.ops) == 1 and isinstance(x.test.ops[0], ast.Eq):
            k = key_of(x.test.comparators[0])
            if k is None:
                k = key_of(x.test.left)
            cls = None
            for st in x.body:
                for c in ast.walk(st):
                    if isinstance(c, ast.Call):
                        fn_ = c.func
                        if isinstance(fn_, ast.Attribute) and isinstance(fn_.value, ast.Name) and \
                                prog.resolve_class_name(f.module, fn_.value.id) is not None:
                            cls = cls or fn_.value.id
                        elif isinstance(fn_, ast.Name) and prog.resolve_class_name(
                                f.module, fn_.id) is not None:
                            cls = cls or fn_.id
            if k is not None and cls is not None:
                out.setdefault(k, cls)
    dicts = [d for d in walk_no_nested(f.node) if isinstance(d, ast.Dict)]
    names = {n.id for n in walk_no_nested(f.node) if isinstance(n, ast.Name)}
    for st in f.module.tree.body:
        if isinstance(st, (ast.Assign, ast.AnnAssign)) and isinstance(
                getattr(st, "value", None), ast.Dict):
            tg = st.targets[0] if isinstance(st, ast.Assign) else st.target
            if isinstance(tg, ast.Name) and tg.id in names:
                dicts.append(st.value)
    for d in dicts:
        pairs = []
        for k_, v_ in zip(d.keys, d.values):
            k = key_of(k_) if k_ is not None else None
            if k is None or not isinstance(v_, ast.Name) or prog.resolve_class_name(
                    f.module, v_.id) is None:
                pairs = []
                break
            pairs.append((k, v_.id))
        for k, c in pairs:
            out.setdefault(k, c)
    return out


# --------------------------------------------------------------------- G4 (continued)
_MUT_CALLS = {"append", "add", "update", "setdefault", "extend", "insert", "pop", "popitem", "clear",
              "remove", "sort", "reverse", "discard"}


# memoised methods of today's tree, confirmed by reading: each is computed from the layer's
# resolved view and never invalidated by refresh(). No property ranges over load / edit / refresh
# histories of one Database object, so they are the frozen reference; any OTHER memoised method
# is reported.
MEMOISED_TODAY = {
    "DiagLayer.service_groups": "ServiceBinner over self.services, built on first use",
    "DiagLayer._prefix_tree": "dispatch tree over self.services, built on first decode",
    "HierarchyElement.protocols": "protocol layers among the parents, built on first use",
}


def g4_hidden_state(prog: Program, run: Run, rule: str, patterns: Sequence[str]) -> int:
    """State that survives a call and is invisible in the signature, in the scope files:
    (M1) a mutable default argument that is written to or handed on -- one object shared by all
         calls, all instances and all databases of the process;
    (M2) a memo (container store `D[key] = v` into an attribute, a module global or a default
         argument) whose key is built from a NAME (`x.short_name`) although the cached value is
         computed from the object x itself -- two objects with equal names share an entry;
    (M3) a lazily filled attribute (`if self.a is None: self.a = f(p)`) whose value depends on a
         parameter p the guard does not look at -- the first caller's p decides for everybody;
    (M4) cached_property / lru_cache / cache on a method that reads state of self -- stale after
         the object (or the database behind it) changes."""
    n = 0
    for f in prog.iter_functions():
        if not in_scope(f.module.rel, patterns):
            continue
        n += 1
        C = f"{f.module.rel}:{f.qual}"
        a = f.node.args
        # ---- M1
        pos = a.posonlyargs + a.args
        defaults = dict(zip([x.arg for x in pos[len(pos) - len(a.defaults):]], a.defaults))
        defaults.update({x.arg: d for x, d in zip(a.kwonlyargs, a.kw_defaults) if d is not None})
        mut_defaults = {k for k, d in defaults.items() if isinstance(d, (ast.Dict, ast.List, ast.Set))
                        or (isinstance(d, ast.Call) and call_name(d) in (
                            "dict", "list", "set", "defaultdict", "OrderedDict"))}
        for k in sorted(mut_defaults):
            written = False
            for x in walk_no_nested(f.node):
                if isinstance(x, ast.Subscript) and isinstance(x.value, ast.Name) and \
                        x.value.id == k and isinstance(x.ctx, (ast.Store, ast.Del)):
                    written = True
                if isinstance(x, ast.Call) and isinstance(x.func, ast.Attribute) and isinstance(
                        x.func.value, ast.Name) and x.func.value.id == k and \
                        x.func.attr in _MUT_CALLS:
                    written = True
                if isinstance(x, ast.Call) and any(isinstance(y, ast.Name) and y.id == k
                                                   for y in list(x.args) + [
                                                       kw.value for kw in x.keywords]) and \
                        call_name(x) not in ("len", "list", "dict", "set", "sorted", "tuple",
                                             "iter", "isinstance", "bool", "repr", "str"):
                    written = True  # handed on: the callee (or a recursive call) may fill it
                if isinstance(x, ast.AugAssign) and isinstance(x.target, ast.Name) and \
                        x.target.id == k:
                    written = True
            if written:
                run.violation(rule, C, f"mutable-default-{k}",
                              f"parameter `{k}` has a mutable default that is written to or "
                              "handed on: the one default object is shared by every call, so "
                              "results depend on what earlier calls (other layers, other "
                              "databases) left in it", f.loc, k)
        # ---- M2
        for x in walk_no_nested(f.node):
            tgt = key = val = None
            if isinstance(x, ast.Assign) and len(x.targets) == 1 and isinstance(
                    x.targets[0], ast.Subscript):
                tgt, key, val = x.targets[0].value, x.targets[0].slice, x.value
            elif isinstance(x, ast.Call) and isinstance(x.func, ast.Attribute) and \
                    x.func.attr == "setdefault" and len(x.args) == 2:
                tgt, key, val = x.func.value, x.args[0], x.args[1]
            if tgt is None:
                continue
            persistent = (isinstance(tgt, ast.Attribute) and isinstance(tgt.value, ast.Name) and
                          tgt.value.id in ("self", "cls")) or (
                              isinstance(tgt, ast.Name) and (tgt.id in mut_defaults or (
                                  tgt.id not in f.params() and not _is_local(f, tgt.id))))
            if not persistent:
                continue
            key = resolve_locals(f.node, key)
            owners = {ast.unparse(y.value) for y in ast.walk(key) if isinstance(
                y, ast.Attribute) and y.attr in ("short_name", "name", "long_name")}
            if not owners:
                continue
            val = resolve_locals(f.node, val)
            uses_obj = any(isinstance(y, (ast.Attribute, ast.Call)) and any(
                ast.unparse(z) == o for o in owners for z in ast.walk(y) if isinstance(
                    z, (ast.Name, ast.Attribute))) and not (
                        isinstance(y, ast.Attribute) and y.attr in ("short_name", "name"))
                for y in ast.walk(val))
            is_obj = ast.unparse(val) in owners
            if uses_obj and not is_obj:
                run.violation(rule, C, "memo-keyed-by-name",
                              f"`{stmt_key(x) if isinstance(x, ast.stmt) else ast.unparse(x)}` "
                              f"caches something computed from {sorted(owners)[0]} under its NAME: "
                              "two different objects with equal names (another layer, another "
                              "database, another multiplexer) get each other's entry",
                              f"{f.module.rel}:{x.lineno}", ast.unparse(key))
        # ---- M3
        params = [p_ for p_ in f.params() if p_ not in ("self", "cls")]
        for x in walk_no_nested(f.node):
            if not isinstance(x, ast.If):
                continue
            t = x.test
            attr = None
            if isinstance(t, ast.Compare) and len(t.ops) == 1 and isinstance(
                    t.ops[0], ast.Is) and isinstance(t.comparators[0], ast.Constant) and \
                    t.comparators[0].value is None and isinstance(t.left, ast.Attribute) and \
                    isinstance(t.left.value, ast.Name) and t.left.value.id == "self":
                attr = t.left
            if isinstance(t, ast.UnaryOp) and isinstance(t.op, ast.Not) and isinstance(
                    t.operand, ast.Call) and call_name(t.operand) == "hasattr":
                attr = None  # (handled by the store below through its target)
            if attr is None:
                continue
            for st in x.body:
                if isinstance(st, ast.Assign) and ast.unparse(st.targets[0]) == ast.unparse(attr):
                    used = [p_ for p_ in params if any(isinstance(y, ast.Name) and y.id == p_
                                                       for y in ast.walk(st.value))]
                    guard_names = {y.id for y in ast.walk(t) if isinstance(y, ast.Name)}
                    used = [p_ for p_ in used if p_ not in guard_names]
                    if used:
                        run.violation(rule, C, f"memo-ignores-argument-{used[0]}",
                                      f"`{stmt_key(st)}` is computed once from the argument "
                                      f"`{used[0]}` of the first call and then returned for every "
                                      "other argument value", f"{f.module.rel}:{st.lineno}",
                                      stmt_key(st))
        # ---- M4
        for d in f.decorators:
            if f.qual in MEMOISED_TODAY:
                continue
            if d.split(".")[-1] in ("cached_property", "lru_cache", "cache") and f.cls is not None:
                reads_self = any(isinstance(y, ast.Attribute) and isinstance(y.value, ast.Name) and
                                 y.value.id == "self" for y in walk_no_nested(f.node))
                if reads_self and "self" in f.params():
                    run.violation(rule, C, "memoised-method",
                                  f"`@{d}` freezes the first result of {f.qual}, which is "
                                  "computed from the state of the object: after the object (or "
                                  "the database behind it, e.g. by refresh()) changes, the stale "
                                  "value is reported", f.loc, d)
    n += _m5_derived_index(prog, run, rule, patterns)
    n += _m6_accumulates_across_refresh(prog, run, rule, patterns)
    run.ok(rule, "scope", f"{n} functions: no mutable default that is written, no memo keyed by a "
           "name, no lazily cached value that ignores an argument, no memoised method, no index "
           "derived from a list that is extended afterwards", "odxtools/")
    return n


def _self_attr(e: ast.AST, aliases: Dict[str, str]) -> Optional[str]:
    if isinstance(e, ast.Attribute) and isinstance(e.value, ast.Name) and e.value.id == "self":
        return aliases.get(e.attr, e.attr)
    return None


_REFRESH_PHASES = ["_build_odxlinks", "_resolve_odxlinks", "_finalize_init", "_resolve_snrefs"]


def _m6_accumulates_across_refresh(prog: Program, run: Run, rule: str,
                                   patterns: Sequence[str]) -> int:
    """(M6) the methods that Database.refresh() runs again (_build_odxlinks, _resolve_odxlinks,
    _finalize_init, _resolve_snrefs) fill containers of the object (`self.X.append(...)`); each
    such container is created afresh (`self.X = ...`, or emptied by a clear() that really
    empties it) in the same pass before it is filled -- one created in __init__ /
    __post_init__ only keeps what the previous pass put into it."""
    # does clear() of the named item lists still empty the list itself?
    clear_ok = True
    ial = prog.classes.get("ItemAttributeList")
    if ial is not None and "clear" in ial.methods:
        src = ast.unparse(ial.methods["clear"].node)
        clear_ok = "super().clear()" in src or "del self[:]" in src or "self[:] = []" in src
    n = 0
    for ci in prog.classes.values():
        if not in_scope(ci.module.rel, patterns):
            continue
        fresh: Dict[str, List[Tuple[int, int]]] = {}
        for i, nm in enumerate(_REFRESH_PHASES):
            m = ci.methods.get(nm)
            if m is None:
                continue
            for x in walk_no_nested(m.node):
                if isinstance(x, (ast.Assign, ast.AnnAssign)):
                    for t in (x.targets if isinstance(x, ast.Assign) else [x.target]):
                        if (a := _self_attr(t, {})) is not None:
                            fresh.setdefault(a, []).append((i, x.lineno))
                if isinstance(x, ast.Call) and isinstance(x.func, ast.Attribute) and \
                        x.func.attr == "clear" and clear_ok and (
                            a := _self_attr(x.func.value, {})) is not None:
                    fresh.setdefault(a, []).append((i, x.lineno))
        for i, nm in enumerate(_REFRESH_PHASES):
            m = ci.methods.get(nm)
            if m is None:
                continue
            n += 1
            for x in walk_no_nested(m.node):
                a = None
                if isinstance(x, ast.Call) and isinstance(x.func, ast.Attribute) and \
                        x.func.attr in ("append", "extend", "add", "insert", "setdefault"):
                    a = _self_attr(x.func.value, {})
                if isinstance(x, ast.Subscript) and isinstance(x.ctx, ast.Store):
                    a = _self_attr(x.value, {})
                if a is None:
                    continue
                if any(j < i or (j == i and ln < x.lineno) for j, ln in fresh.get(a, [])):
                    continue
                run.violation(rule, f"{ci.module.rel}:{ci.name}", f"accumulates-across-refresh-{a}",
                              f"{m.qual} fills self.{a} (line {x.lineno}) but no method of the "
                              "refresh pass creates or empties it first" + (
                                  "" if clear_ok else " (ItemAttributeList.clear() no longer "
                                  "empties the list itself)") +
                              ": after a second Database.refresh() it holds the objects of "
                              "both passes, and objects removed from the description stay "
                              "visible", f"{ci.module.rel}:{x.lineno}", a)
    return n


_INIT_PHASES = ["__init__", "__post_init__", "_build_odxlinks", "_resolve_odxlinks",
                "_finalize_init", "_resolve_snrefs"]


def _m5_derived_index(prog: Program, run: Run, rule: str, patterns: Sequence[str]) -> int:
    """(M5) an attribute A of an object that is derived from a list attribute B of the same
    object (a dict / set / list built by iterating self.B) while B is appended to afterwards --
    in another method, or later in the same one -- without A being updated there: lookups
    through A miss the later elements."""
    n = 0
    for ci in prog.classes.values():
        if not in_scope(ci.module.rel, patterns):
            continue
        # trivial property aliases: self.dtcs -> self._dtcs
        aliases: Dict[str, str] = {}
        for nm, m in ci.methods.items():
            if m.is_property:
                rets = [r for r in walk_no_nested(m.node) if isinstance(r, ast.Return)]
                if len(rets) == 1 and isinstance(rets[0].value, ast.Attribute) and isinstance(
                        rets[0].value.value, ast.Name) and rets[0].value.value.id == "self":
                    aliases[nm] = rets[0].value.attr
        derived: List[Tuple[str, str, FuncInfo, ast.AST]] = []  # (A, B, method, node)
        mutated: Dict[str, List[Tuple[FuncInfo, ast.AST]]] = {}
        for m in ci.methods.values():
            n += 1
            for x in walk_no_nested(m.node):
                # B.append(...) etc.
                if isinstance(x, ast.Call) and isinstance(x.func, ast.Attribute) and \
                        x.func.attr in ("append", "extend", "insert", "add", "update") and \
                        (b := _self_attr(x.func.value, aliases)) is not None:
                    mutated.setdefault(b, []).append((m, x))
                if isinstance(x, ast.AugAssign) and (b := _self_attr(x.target, aliases)):
                    mutated.setdefault(b, []).append((m, x))
                # A = <something iterating self.B>
                if isinstance(x, (ast.Assign, ast.AnnAssign)) and x.value is not None:
                    tgt = x.targets[0] if isinstance(x, ast.Assign) else x.target
                    a = _self_attr(tgt, {})
                    if a is None:
                        continue
                    for c in ast.walk(x.value):
                        if isinstance(c, ast.comprehension) and (
                                b := _self_attr(c.iter, aliases)) is not None and b != a:
                            derived.append((a, b, m, x))
                # for v in self.B: self.A[...] = ... / self.A.add(...)
                if isinstance(x, ast.For) and (b := _self_attr(x.iter, aliases)) is not None:
                    for y in ast.walk(x):
                        a = None
                        if isinstance(y, ast.Subscript) and isinstance(y.ctx, ast.Store):
                            a = _self_attr(y.value, {})
                        if isinstance(y, ast.Call) and isinstance(y.func, ast.Attribute) and \
                                y.func.attr in ("append", "add", "setdefault"):
                            a = _self_attr(y.func.value, {})
                        if a is not None and aliases.get(a, a) != b:
                            derived.append((a, b, m, x))
        for a, b, m, node in derived:
            for mm, site in mutated.get(b, []):
                if mm is m:
                    later = site.lineno > getattr(node, "end_lineno", node.lineno)
                else:
                    # only the phases of the initialisation protocol have a fixed order; a public
                    # mutator followed by a documented recomputation (Database.add_odx_file /
                    # refresh) is the caller's business
                    later = m.name in _INIT_PHASES and mm.name in _INIT_PHASES and \
                        _INIT_PHASES.index(mm.name) > _INIT_PHASES.index(m.name)
                if not later:
                    continue
                if mm is m and any(site is y for y in ast.walk(node)):
                    continue
                # the mutating method keeps A in step
                keeps = any(
                    (isinstance(y, ast.Subscript) and isinstance(y.ctx, ast.Store) and
                     _self_attr(y.value, {}) == a) or
                    (isinstance(y, ast.Call) and isinstance(y.func, ast.Attribute) and
                     y.func.attr in ("append", "add", "setdefault", "update") and
                     _self_attr(y.func.value, {}) == a) or
                    (isinstance(y, (ast.Assign, ast.AnnAssign)) and _self_attr(
                        y.targets[0] if isinstance(y, ast.Assign) else y.target, {}) == a and
                     (mm is not m or y.lineno > site.lineno))
                    for y in walk_no_nested(mm.node))
                if mm is m:
                    keeps = any(
                        isinstance(y, (ast.Assign, ast.AnnAssign, ast.For)) and y is not node and
                        y.lineno > site.lineno and any(
                            _self_attr(z, {}) == a for z in ast.walk(y))
                        for y in walk_no_nested(m.node))
                if keeps:
                    continue
                run.violation(rule, f"{ci.module.rel}:{ci.name}", f"derived-index-stale-{a}",
                              f"self.{a} is derived from self.{b} in {m.qual} "
                              f"(line {node.lineno}), but {mm.qual} extends self.{b} afterwards "
                              f"(line {site.lineno}) without touching self.{a}: lookups through "
                              f"self.{a} do not see those elements",
                              f"{ci.module.rel}:{node.lineno}", a)
    return n


# --------------------------------------------------------------------- G11
_SETUP_METHODS = ("__init__", "__post_init__", "_finalize_init", "_build_odxlinks", "__deepcopy__",
                  "__copy__", "__reduce__", "__setstate__")


def g11_description_not_mutated(prog: Program, run: Run, rule: str,
                                patterns: Sequence[str]) -> int:
    """Objects that describe the database (everything that is parsed with from_et, and what hangs
    off it) are read-only after loading: a method that is called while en-/decoding, converting
    or querying must not change them in place -- `self.points.sort()`, `lst = self.items;
    lst.append(..)`, `self.x[k] = v`. Otherwise the answer to a query depends on which queries
    were made before. Loading / resolving methods (from_et, __post_init__, _resolve_*,
    _finalize_init ...) are the only writers."""
    n = 0

    def described(ci) -> bool:
        return any(any("from_et" in m for m in c.methods) for c in prog.mro(ci))
    for f in prog.iter_functions():
        if not in_scope(f.module.rel, patterns) or f.cls is None or "self" not in f.params():
            continue
        if f.name in _SETUP_METHODS or f.name.startswith("_resolve") or "from_et" in f.name:
            continue
        if not described(f.cls):
            continue
        n += 1
        aliases: Dict[str, str] = {}
        for x in walk_no_nested(f.node):
            if isinstance(x, ast.Assign) and len(x.targets) == 1 and isinstance(
                    x.targets[0], ast.Name):
                v = x.value
                while isinstance(v, ast.Call) and call_name(v) == "cast" and len(v.args) == 2:
                    v = v.args[1]
                if isinstance(v, ast.Attribute) and isinstance(v.value, ast.Name) and \
                        v.value.id == "self":
                    aliases[x.targets[0].id] = ast.unparse(v)

        def owner(e: ast.AST) -> Optional[str]:
            if isinstance(e, ast.Attribute) and isinstance(e.value, ast.Name) and \
                    e.value.id == "self":
                return ast.unparse(e)
            if isinstance(e, ast.Name) and e.id in aliases:
                # an alias that is re-bound to a fresh object is no alias
                defs = [a for a in walk_no_nested(f.node) if isinstance(a, ast.Assign) and
                        len(a.targets) == 1 and isinstance(a.targets[0], ast.Name) and
                        a.targets[0].id == e.id]
                if len(defs) == 1:
                    return aliases[e.id]
            return None
        for x in walk_no_nested(f.node):
            tgt = how = None
            if isinstance(x, ast.Call) and isinstance(x.func, ast.Attribute) and \
                    x.func.attr in _MUT_CALLS | {"sort", "reverse"}:
                tgt, how = owner(x.func.value), f".{x.func.attr}()"
            elif isinstance(x, (ast.Assign, ast.Delete)):
                for t in x.targets:
                    if isinstance(t, ast.Subscript):
                        tgt, how = owner(t.value), "item assignment"
            elif isinstance(x, ast.AugAssign) and isinstance(x.target, ast.Name):
                tgt, how = owner(x.target), "augmented assignment"
            if tgt is None:
                continue
            run.violation(rule, f"{f.module.rel}:{f.qual}", f"mutates-{tgt}",
                          f"`{stmt_key(x) if isinstance(x, ast.stmt) else ast.unparse(x)}` changes "
                          f"`{tgt}` in place ({how}) in a method that is called at use time: the "
                          "description is altered by using it, later conversions / decodings "
                          "see the changed data", f"{f.module.rel}:{x.lineno}")
    run.ok(rule, "scope", f"{n} use-time methods of description classes examined: none mutates "
           "the description in place", "odxtools/")
    return n
