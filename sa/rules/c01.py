"""C01 — encode ∘ decode = identity, claimed for the positional / key protocol.

The encoder and the decoder of every codec object must move the cursor, the
origin and the key dictionaries in the same way.  The rules compare sibling
functions structurally; they do not execute anything.
"""
from __future__ import annotations

import ast
from typing import Dict, List, Optional, Set, Tuple

from ..cfg import CFG, EXIT, path_conditions, symbolic_block_paths
from ..exprnorm import conj_test, Poly, Rat, norm_test, normalize
from ..report import Run
from ..src import (AnalysisError, ClassInfo, FuncInfo, Program, attr_chain, call_name, stmt_key,
                   walk_no_nested)

EXPLANATION = (
    "Sibling analysis of every encode_into_pdu / decode_from_pdu pair: (R1) each function that "
    "moves origin_byte_position (or sets allow_unknown_parameters / clears is_end_of_pdu) saves "
    "the old value first and restores it on every path to a normal exit (CFG must-pass); (R2) "
    "every positioning write of the cursor is normalised to (base role, description field) — "
    "caller's origin, own start, item start, saved cursor — including the zero-padding idiom, "
    "and encoder and decoder of one class must use the same set; (R3) key parameters record "
    "their value in the state on every returning path and the composite codec journals every "
    "parameter; (R4) every parameter / DOP / diag-coded-type class that the factories can create "
    "implements both directions; (R5) emplace_atomic_value and extract_atomic_value handle the "
    "same (type, encoding) cases; (R6) both composite walks iterate codec.parameters itself in "
    "order, and the two key-parameter tests of the encoder agree; (R7) MIN-MAX-LENGTH encoder "
    "and decoder agree on when a terminator is present and the decoder's search does not skip "
    "candidates.")
ASSUMPTIONS = [
    "equality of decoded and encoded *values* and whole-PDU consumption are not decided; the "
    "rules are necessary conditions (a disagreement in the protocol breaks the round trip for "
    "some description)",
    "known asymmetry (known finding): a TABLE-KEY fixed by TABLE-ROW-REF is emitted by the "
    "encoder but not consumed by the decoder",
]

STATE = {"encode_state", "decode_state"}
NOT_CODEC = {"DynamicParameter": "DYNAMIC parameters are not implemented (outside the supported "
                                 "envelope)",
             "TableEntryParameter": "TABLE-ENTRY parameters are not implemented (outside the "
                                    "supported envelope)"}


def _state_name(f: FuncInfo) -> Optional[str]:
    for p in f.params():
        if p in STATE:
            return p
    return None


def _assigns_to(fn: ast.AST, target: str) -> List[ast.Assign]:
    return [x for x in walk_no_nested(fn) if isinstance(x, ast.Assign) and any(
        ast.unparse(t) == target for t in x.targets)]


def check(prog: Program, run: Run) -> None:
    run.rule("C01.R1", "save / move / restore pairing of origin_byte_position, "
             "allow_unknown_parameters and is_end_of_pdu on every normal path", floor=14)
    run.rule("C01.R2", "encoder and decoder of one class position the cursor relative to the same "
             "base and description field", floor=8)
    run.rule("C01.R3", "key parameters record their value on every returning path; the composite "
             "codec journals every parameter", floor=4)
    run.rule("C01.R4", "every creatable parameter, DOP and diag-coded type implements both "
             "directions", floor=25)
    run.rule("C01.R5", "emplace_atomic_value and extract_atomic_value handle the same (type, "
             "encoding) cases", floor=4)
    run.rule("C01.R6", "both composite walks visit codec.parameters in order; the key-parameter "
             "tests of the two encoder passes agree", floor=3)
    run.rule("C01.R7", "MIN-MAX-LENGTH: terminator presence and search agree between encoder and "
             "decoder", floor=3)
    run.rule("C01.R8", "the atomic writer and reader lay out value bits, padding, byte order and "
             "mask by the same formulas (shared with C02.R2)", floor=6)
    run.rule("C01.R9", "LINEAR / SCALE-LINEAR / TAB-INTP: the encoding formula is the algebraic "
             "inverse of the decoding formula (shared with C03.R1)", floor=2)
    _pairing(prog, run)
    from . import common as _common
    # a case / row / parameter named by the caller is found by comparing short names
    _common.g6_lookup_by_short_name(prog, run, "C01.R4", [
        "odxtools/multiplexer.py", "odxtools/parameters/*.py", "odxtools/codec.py",
        "odxtools/table.py", "odxtools/*field.py", "odxtools/basicstructure.py",
        "odxtools/request.py", "odxtools/response.py", "odxtools/dtcdop.py",
        "odxtools/environmentdatadescription.py"], strict_get=True)
    _positioning(prog, run)
    _placeholder_width(prog, run)
    _journal_direction(prog, run)
    key_tables(prog, run)
    _recording(prog, run)
    _both_directions(prog, run)
    _case_coverage(prog, run)
    _decoded_value_source(prog, run)
    mux_first_match(prog, run, "C01.R4")
    _same_walk(prog, run)
    _terminator(prog, run)
    from . import c02
    from .common import run_as
    run_as(run, "C02.R2", "C01.R8", lambda r: c02._siblings(prog, r))
    # the string codec is chosen from the same three description fields on both sides
    run_as(run, "C02.R5", "C01.R8", lambda r: c02._strings(prog, r))
    run_as(run, "C02.R3", "C01.R8", lambda r: c02._emplace_alignment(prog, r))
    from . import compu
    run_as(run, "C03.R1", "C01.R9", lambda r: compu.linear_forms(prog, r, "C03.R1", "C03.R1"))
    # a value outside the applicable range must not be encoded (it would decode to something else
    # or not at all)
    compu.conversion_guards(prog, run, "C01.R9")


# ----------------------------------------------------------------------- R3 (key tables)
KEY_TABLE_WRITERS = {
    # who may store into the key tables of the coding state (confirmed by reading): the key
    # parameter itself, and the object that defines the key implicitly on the ENCODE side
    "length_keys": {"LengthKeyParameter", "ParamLengthInfoType"},
    "table_keys": {"TableKeyParameter", "TableStructParameter"},
}


def key_tables(prog: Program, run: Run, R: str = "C01.R3") -> None:
    """`length_keys` / `table_keys` of EncodeState / DecodeState carry the value of a key parameter
    to every later parameter that depends on it: entries are stored by the key parameter (on the
    encode side also by the dependent object that fixes the key implicitly) and are never
    removed -- a key may size several parameters of one PDU."""
    n = 0
    for f in prog.iter_functions():
        for x in walk_no_nested(f.node):
            recv = how = None
            if isinstance(x, ast.Call) and isinstance(x.func, ast.Attribute) and \
                    x.func.attr in ("pop", "popitem", "clear", "update", "setdefault") and \
                    isinstance(x.func.value, ast.Attribute) and \
                    x.func.value.attr in KEY_TABLE_WRITERS:
                recv, how = x.func.value, x.func.attr
            elif isinstance(x, ast.Delete):
                for t in x.targets:
                    if isinstance(t, ast.Subscript) and isinstance(t.value, ast.Attribute) and \
                            t.value.attr in KEY_TABLE_WRITERS:
                        recv, how = t.value, "del"
            elif isinstance(x, ast.Assign):
                for t in x.targets:
                    if isinstance(t, ast.Subscript) and isinstance(t.value, ast.Attribute) and \
                            t.value.attr in KEY_TABLE_WRITERS:
                        recv, how = t.value, "store"
            if recv is None:
                continue
            n += 1
            cname = f.cls.name if f.cls else f.qual
            where = f"{f.module.rel}:{x.lineno}"
            if how in ("pop", "popitem", "clear", "del"):
                run.violation(R, f.qual, f"key-removed-{recv.attr}",
                              f"`{' '.join(ast.unparse(x).split())[:80]}` removes an entry of "
                              f"{recv.attr}: the first dependent parameter consumes the key, every "
                              "further parameter sized / selected by the same key finds it "
                              "missing", where, stmt_key(x) if isinstance(x, ast.stmt) else "")
            elif cname not in KEY_TABLE_WRITERS[recv.attr]:
                run.violation(R, f.qual, f"key-foreign-writer-{recv.attr}",
                              f"{cname} writes {recv.attr}; only "
                              f"{sorted(KEY_TABLE_WRITERS[recv.attr])} define keys", where)
            else:
                run.ok(R, f.qual, f"{recv.attr} entry stored by its owner", where)
    if n < 5:
        raise AnalysisError("key table stores not found (anchor moved)")


# ----------------------------------------------------------------------- R3 (journal lookups)
def _journal_direction(prog: Program, run: Run, R: str = "C01.R3") -> None:
    """A parameter that refers to an earlier one by name (ENV-DATA-DESC -> its DTC) finds it by
    searching the journal of the parameters processed so far. In a field the same name occurs
    once per item, so the search must start at the most recent entry -- on both sides."""
    n = 0
    per_class: Dict[str, Set[str]] = {}
    for f in prog.iter_functions():
        for l in walk_no_nested(f.node):
            if not (isinstance(l, ast.For) and any(isinstance(y, ast.Attribute) and
                                                  y.attr == "journal" for y in ast.walk(l.iter))):
                continue
            n += 1
            it = l.iter
            recent_first = (isinstance(it, ast.Call) and call_name(it) == "reversed") or (
                isinstance(it, ast.Subscript) and isinstance(it.slice, ast.Slice) and
                it.slice.step is not None and ast.unparse(it.slice.step) == "-1")
            stops = any(isinstance(y, (ast.Break, ast.Return)) for y in ast.walk(l))
            per_class.setdefault(f.cls.name if f.cls else f.qual, set()).add(
                "recent" if recent_first else "oldest")
            if stops and not recent_first:
                run.violation(R, f.qual, "journal-oldest-first",
                              f"`for ... in {ast.unparse(it)}` takes the FIRST parameter of that "
                              "name ever processed: in a field with several items the value of "
                              "the first item is used for every later item",
                              f"{f.module.rel}:{l.lineno}", stmt_key(l))
            else:
                run.ok(R, f.qual, "searches the journal from the most recent entry",
                       f"{f.module.rel}:{l.lineno}")
    for cname, dirs in per_class.items():
        if len(dirs) > 1:
            run.violation(R, cname, "journal-direction-differs",
                          f"encoder and decoder of {cname} search the journal in different "
                          "directions", prog.cls(cname).loc if prog.has_cls(cname) else "")
    if n < 2:
        raise AnalysisError("journal lookups not found (anchor moved)")


# ----------------------------------------------------------------------- R2 (placeholders)
def _placeholder_width(prog: Program, run: Run, R: str = "C01.R2") -> None:
    """The first encoder pass reserves the bytes of a length / table key: exactly
    ((bit_position or 0) + static bit length + 7) // 8 zero bytes, the width the second pass
    writes and the decoder consumes. Decided on the symbolic value of the emplaced bytes."""
    from ..cfg import symbolic_paths
    for cls in ("LengthKeyParameter", "TableKeyParameter"):
        f = prog.cls(cls).methods.get("encode_placeholder_into_pdu")
        if f is None:
            raise AnalysisError(f"{cls}.encode_placeholder_into_pdu not found")
        C = f"{cls}.encode_placeholder_into_pdu"

        def env(node: ast.AST):
            if isinstance(node, ast.Call) and call_name(node) == "odxrequire" and node.args:
                return normalize(node.args[0], env)
            if isinstance(node, ast.Call) and call_name(node) == "get_static_bit_length":
                return Rat(Poly.atom("N"))
            if isinstance(node, ast.BoolOp) and ast.unparse(node) == "self.bit_position or 0":
                return Rat(Poly.atom("B"))
            return None
        want = normalize(ast.parse("(N + B + 7) // 8", mode="eval").body)
        widths = set()
        n_paths = 0
        for p_ in symbolic_paths(f.node):
            calls = [x for st in p_.trace for x in ast.walk(st) if isinstance(x, ast.Call) and
                     call_name(x) == "emplace_bytes" and x.args]
            for c in calls:
                n_paths += 1
                a0 = c.args[0]
                v = p_.env.get(a0.id) if isinstance(a0, ast.Name) else a0
                if isinstance(v, ast.BinOp) and isinstance(v.op, ast.Mult):
                    cnt = v.right if isinstance(v.left, ast.Constant) else v.left
                    widths.add(normalize(cnt, env).key())
                else:
                    widths.add("?" + (ast.unparse(v) if v is not None else "unassigned"))
        if n_paths and widths == {want.key()}:
            run.ok(R, C, "the placeholder is ((bit_position or 0) + static bit length + 7)//8 "
                   "bytes wide", f.loc)
        elif not n_paths:
            run.violation(R, C, "no-placeholder", "no placeholder bytes are emplaced for the key",
                          f.loc)
        else:
            run.violation(R, C, "placeholder-width",
                          f"the placeholder reserved for the key is {sorted(widths)} bytes wide, "
                          f"not {want.key()} (N = static bit length, B = bit_position or 0): a "
                          "key that straddles a byte boundary gets too few bytes and the real "
                          "key value later overwrites the following parameter", f.loc)


# ----------------------------------------------------------------------- R1
def encode_state_roots(prog: Program, run: Run, R: str = "C01.R1") -> None:
    """Whoever creates an EncodeState starts a PDU: the object it encodes IS the end of that PDU
    (its last parameter gets no terminator, END-OF-PDU fields are allowed).  The effective
    `is_end_of_pdu` of every construction -- keyword or class default -- is True."""
    ci = prog.cls("EncodeState")
    default = None
    for st in ci.node.body:
        if isinstance(st, ast.AnnAssign) and isinstance(st.target, ast.Name) and \
                st.target.id == "is_end_of_pdu" and st.value is not None:
            default = st.value
    n = 0
    for f in prog.iter_functions():
        if not f.module.rel.startswith("odxtools/"):
            continue
        for x in walk_no_nested(f.node):
            if not (isinstance(x, ast.Call) and call_name(x) == "EncodeState"):
                continue
            n += 1
            kw = [k.value for k in x.keywords if k.arg == "is_end_of_pdu"]
            eff = kw[0] if kw else default
            if isinstance(eff, ast.Constant) and eff.value is True:
                run.ok(R, f"{f.module.rel}:{f.qual}", "the new EncodeState starts at the end of "
                       "the PDU (is_end_of_pdu is True" + ("" if kw else " by default") + ")",
                       f"{f.module.rel}:{x.lineno}")
            else:
                run.violation(R, f"{f.module.rel}:{f.qual}", "root-not-end-of-pdu",
                              f"`{ast.unparse(x)[:70]}` starts a PDU with is_end_of_pdu = "
                              f"{ast.unparse(eff) if eff is not None else '?'}: the last "
                              "parameter of the request / response / constant prefix is encoded "
                              "as if something followed it (a MIN-MAX-LENGTH value gets a "
                              "terminator, an END-OF-PDU field is refused)",
                              f"{f.module.rel}:{x.lineno}", ast.unparse(x)[:80])
    if n < 3:
        raise AnalysisError(f"only {n} EncodeState(...) constructions found (expected 3)")


def _origin_window(prog: Program, run: Run, R: str = "C01.R1") -> None:
    """Everything a composite object places relative to ITS origin is placed while the origin is
    moved: no call that follows the restore of origin_byte_position may reach a method that
    computes a position from the origin (`<state>.origin_byte_position + ...`)."""
    positional: Dict[str, List[FuncInfo]] = {}
    for g in prog.iter_functions():
        S = _state_name(g)
        if S is None:
            continue
        for x in walk_no_nested(g.node):
            if isinstance(x, (ast.BinOp, ast.Compare)) and any(
                    ast.unparse(y) == f"{S}.origin_byte_position" for y in ast.walk(x)):
                positional.setdefault(g.name, []).append(g)
                break
    n = 0
    for f in prog.iter_functions():
        S = _state_name(f)
        if S is None:
            continue
        tgt = f"{S}.origin_byte_position"
        saves = {x.targets[0].id for x in walk_no_nested(f.node) if isinstance(x, ast.Assign) and
                 ast.unparse(x.value) == tgt and isinstance(x.targets[0], ast.Name)}
        restores = [w for w in _assigns_to(f.node, tgt) if isinstance(w.value, ast.Name) and
                    w.value.id in saves]
        if not restores:
            continue
        n += 1
        cfg = CFG(f.node)
        bad = False
        for x in walk_no_nested(f.node):
            if not (isinstance(x, ast.Call) and isinstance(x.func, ast.Attribute) and
                    x.func.attr in positional):
                continue
            st = x
            for s in walk_no_nested(f.node):
                if isinstance(s, ast.stmt) and not isinstance(
                        s, (ast.For, ast.While, ast.If, ast.With, ast.Try)) and any(
                            y is x for y in ast.walk(s)):
                    st = s
            try:
                sn = cfg.node_of(st)
            except Exception:  # noqa: BLE001
                continue
            if any(cfg.dominates(cfg.node_of(r), sn) for r in restores):
                bad = True
                g = positional[x.func.attr][0]
                run.violation(R, f"{f.module.rel}:{f.qual}", f"origin-restored-before-{x.func.attr}",
                              f"`{ast.unparse(x)[:70]}` runs after the caller's origin was "
                              f"restored, but {g.qual} positions its value relative to "
                              f"{S}.origin_byte_position: inside a nested structure the value "
                              "lands relative to the OUTER object",
                              f"{f.module.rel}:{x.lineno}", stmt_key(st))
        if not bad:
            run.ok(R, f"{f.module.rel}:{f.qual}", "no call after the restore of the origin "
                   "reaches a method that positions relative to the origin", f.loc)
    if n < 8:
        raise AnalysisError(f"origin window: only {n} functions restore the origin (expected >= 8)")


def _probe_restores(prog: Program, run: Run, R: str = "C01.R1") -> None:
    """A decoder that PROBES (decodes something under `try: ... except DecodeError: pass` only to
    look at it, after saving the cursor) puts the cursor back on every way out of the probe --
    the normal one and the exception edge -- before anything else is decoded or returned."""
    n = 0
    for f in prog.iter_functions():
        S = _state_name(f)
        if S is None or not f.module.rel.startswith("odxtools/"):
            continue
        cur = f"{S}.cursor_byte_position"
        for t in walk_no_nested(f.node):
            if not isinstance(t, ast.Try):
                continue
            swallow = [h for h in t.handlers if not any(isinstance(y, ast.Raise) for b in h.body
                                                        for y in ast.walk(b)) and not any(
                isinstance(y, ast.Expr) and isinstance(y.value, ast.Call) and call_name(
                    y.value) == "odxraise" for b in h.body for y in ast.walk(b))]
            probes = [s_ for s_ in t.body if any(isinstance(y, ast.Call) and call_name(y) ==
                                                  "decode_from_pdu" for y in ast.walk(s_))
                      and not isinstance(s_, (ast.If, ast.For, ast.While, ast.Try, ast.With))]
            if not swallow or not probes:
                continue
            saved = {x.targets[0].id for x in walk_no_nested(f.node) if isinstance(x, ast.Assign)
                     and ast.unparse(x.value) == cur and isinstance(x.targets[0], ast.Name)}
            if not saved:
                continue
            n += 1
            cfg = CFG(f.node)
            restores = [cfg.node_of(x) for x in walk_no_nested(f.node) if isinstance(
                x, ast.Assign) and ast.unparse(x.targets[0]) == cur and isinstance(
                    x.value, ast.Name) and x.value.id in saved]
            pn = cfg.node_of(probes[0])
            targets = [EXIT]
            for x in walk_no_nested(f.node):
                if isinstance(x, ast.stmt) and not isinstance(
                        x, (ast.If, ast.For, ast.While, ast.Try, ast.With, ast.FunctionDef,
                            ast.AsyncFunctionDef, ast.ClassDef)) and x is not \
                        probes[0] and any(isinstance(y, ast.Call) and call_name(y) ==
                                          "decode_from_pdu" for y in ast.walk(x)):
                    targets.append(cfg.node_of(x))
            bad = [tg for tg in targets if not cfg.must_pass(pn, restores, tg)]
            C = f"{f.module.rel}:{f.qual}"
            if not restores or bad:
                run.violation(R, C, "probe-leaves-cursor",
                              f"`{stmt_key(probes[0])}` is a probe (its DecodeError is swallowed), "
                              f"but there is a way from it to "
                              f"{'the next decode call' if bad and bad[0] != EXIT else 'the exit'} "
                              f"that does not put {cur} back to the saved value: what follows is "
                              "decoded from the wrong position whenever the probe fails after "
                              "having consumed bytes", f"{f.module.rel}:{probes[0].lineno}",
                              stmt_key(probes[0]))
            else:
                run.ok(R, C, "the cursor is put back on every way out of the probe (normal and "
                       "exceptional)", f"{f.module.rel}:{probes[0].lineno}")
    if n < 1:
        raise AnalysisError("no probing decoder found (expected DynamicEndmarkerField)")


def _pairing(prog: Program, run: Run, only_eop: bool = False) -> None:
    """``only_eop``: only the is_end_of_pdu part (C02 shares it: the flag decides whether the
    terminator bytes of a MIN-MAX-LENGTH value are emitted)."""
    R = "C01.R1"
    if not only_eop:
        _origin_window(prog, run, R)
        _probe_restores(prog, run, R)
        encode_state_roots(prog, run, R)
    n_origin = 0
    for f in prog.iter_functions():
        S = _state_name(f)
        if S is None:
            continue
        C = f"{f.module.rel}:{f.qual}"
        for attr in (() if only_eop else ("origin_byte_position", "allow_unknown_parameters")):
            tgt = f"{S}.{attr}"
            writes = _assigns_to(f.node, tgt)
            if not writes:
                continue
            cfg = CFG(f.node)
            saves = [x for x in walk_no_nested(f.node) if isinstance(x, ast.Assign) and
                     ast.unparse(x.value) == tgt and isinstance(x.targets[0], ast.Name)]
            saved = {x.targets[0].id for x in saves}
            moves = [w for w in writes if not (isinstance(w.value, ast.Name) and
                                               w.value.id in saved)]
            restores = [w for w in writes if isinstance(w.value, ast.Name) and w.value.id in saved]
            if attr == "origin_byte_position":
                n_origin += 1
            for m in moves:
                mn = cfg.node_of(m)
                if attr == "origin_byte_position" and ast.unparse(m.value) != \
                        f"{S}.cursor_byte_position":
                    run.violation(R, C, "origin-moved-elsewhere",
                                  f"`{stmt_key(m)}`: the origin of a nested object is its own "
                                  "start, i.e. the current cursor", f"{f.module.rel}:{m.lineno}",
                                  stmt_key(m))
                    continue
                if not any(cfg.dominates(cfg.node_of(s), mn) for s in saves):
                    run.violation(R, C, f"{attr}-not-saved",
                                  f"`{stmt_key(m)}` overwrites {attr} without saving the caller's "
                                  "value first", f"{f.module.rel}:{m.lineno}", stmt_key(m))
                    continue
                rn = [cfg.node_of(r) for r in restores]
                if rn and cfg.must_pass(mn, rn, EXIT):
                    run.ok(R, C, f"{attr}: saved, moved and restored on every path to a normal "
                           "exit", f"{f.module.rel}:{m.lineno}")
                else:
                    run.violation(R, C, f"{attr}-not-restored",
                                  f"after `{stmt_key(m)}` there is a path to a normal exit that "
                                  f"does not restore the caller's {attr}: everything the caller "
                                  "places afterwards is positioned relative to the wrong origin"
                                  if attr == "origin_byte_position" else
                                  f"after `{stmt_key(m)}` there is a path to a normal exit that "
                                  f"does not restore {attr}", f"{f.module.rel}:{m.lineno}",
                                  stmt_key(m))
        # is_end_of_pdu
        tgt = f"{S}.is_end_of_pdu"
        writes = _assigns_to(f.node, tgt)
        if not writes:
            continue
        cfg = CFG(f.node)
        saves = [x for x in walk_no_nested(f.node) if isinstance(x, ast.Assign) and ast.unparse(
            x.value) == tgt and isinstance(x.targets[0], ast.Name)]
        saved = {x.targets[0].id for x in saves}
        clears = [w for w in writes if ast.unparse(w.value) == "False"]
        restores = [w for w in writes if isinstance(w.value, ast.Name) and w.value.id in saved]
        others = [w for w in writes if w not in clears and w not in restores]
        for w in others:
            run.violation(R, C, "end-of-pdu-foreign-value",
                          f"`{stmt_key(w)}` sets is_end_of_pdu to something that is neither False "
                          "nor the saved value", f"{f.module.rel}:{w.lineno}", stmt_key(w))
        loops = [l for l in walk_no_nested(f.node) if isinstance(l, ast.For)]
        in_loop = [r for r in restores if any(any(z is r for z in ast.walk(l)) for l in loops)]
        at_exit = [r for r in restores if r not in in_loop]
        if not restores:
            continue
        # (a) saved before the first clear
        for c in clears[:1]:
            if not any(cfg.dominates(cfg.node_of(s), cfg.node_of(c)) for s in saves):
                run.violation(R, C, "end-of-pdu-not-saved",
                              f"`{stmt_key(c)}` clears is_end_of_pdu without saving it first",
                              f"{f.module.rel}:{c.lineno}", stmt_key(c))
        # (b) the flag is cleared before the item loop that re-establishes it for the last item
        for r in in_loop:
            lp = [l for l in loops if any(z is r for z in ast.walk(l))][0]
            lh = cfg.node_of(lp)
            if any(cfg.dominates(cfg.node_of(c), lh) and not any(z is c for z in ast.walk(lp))
                   for c in clears):
                run.ok(R, C, "is_end_of_pdu is cleared before the item loop and re-established "
                       "for the last item only", f"{f.module.rel}:{lp.lineno}")
            else:
                run.violation(R, C, "end-of-pdu-not-cleared",
                              "is_end_of_pdu is restored for the last item of the loop, but it is "
                              "never cleared before the loop: every item (not only the last one) "
                              "is encoded as if it were at the end of the PDU, e.g. terminators "
                              "of all but the last item are omitted",
                              f"{f.module.rel}:{lp.lineno}", stmt_key(lp))
            # (d) guarded by a last-element test
            conds = [ast.unparse(t) for t, p in cfg.branch_conditions(cfg.node_of(r)) if p]
            last = any(("len(" in c and "- 1" in c and "==" in c) or ("[-1]" in c and "id(" in c)
                       or ("[-1]" in c and " is " in c) for c in conds)
            # the last element of a list handed in by the CALLER (the values of a field) must be
            # recognised by position: the same object (or an equal one) may occur earlier
            by_ident = None
            for t, p in cfg.branch_conditions(cfg.node_of(r)):
                if not p:
                    continue
                for y in ast.walk(t):
                    if isinstance(y, ast.Subscript) and ast.unparse(y.slice) == "-1" and \
                            isinstance(y.value, ast.Name) and y.value.id in f.params() and \
                            y.value.id not in ("self", S):
                        by_ident = ast.unparse(t)
            if last and by_ident is not None:
                run.violation(R, C, "last-item-by-identity",
                              f"`{by_ident}` recognises the last item of a caller-supplied list by "
                              "identity / equality: when the same object occurs earlier in the "
                              "list that item is encoded as if it were at the end of the PDU "
                              "(its terminator is omitted)", f"{f.module.rel}:{r.lineno}",
                              by_ident)
            elif last:
                run.ok(R, C, "the saved is_end_of_pdu is re-established under a last-element "
                       "test", f"{f.module.rel}:{r.lineno}")
            else:
                run.violation(R, C, "end-of-pdu-restored-for-all",
                              f"`{stmt_key(r)}` inside the loop is not restricted to the last "
                              f"element (guards: {conds})", f"{f.module.rel}:{r.lineno}",
                              stmt_key(r))
        # (c) restored at exit (the composite encoder deliberately leaves it cleared for its
        #     key pass; its callers re-establish it)
        if f.qual != "composite_codec_encode_into_pdu" and clears:
            cn = cfg.node_of(clears[0])
            rn = [cfg.node_of(r) for r in at_exit]
            if rn and cfg.must_pass(cn, rn, EXIT):
                run.ok(R, C, "is_end_of_pdu is restored on every path to a normal exit",
                       f"{f.module.rel}:{clears[0].lineno}")
            else:
                run.violation(R, C, "end-of-pdu-not-restored",
                              "after clearing is_end_of_pdu there is a path to a normal exit that "
                              "does not restore the caller's value",
                              f"{f.module.rel}:{clears[0].lineno}", stmt_key(clears[0]))
    if n_origin < 8 and not only_eop:
        raise AnalysisError(f"only {n_origin} functions move origin_byte_position (expected >= 8)")


def key_value_pass_positions(prog: Program, run: Run, R: str) -> None:
    """The value pass of LENGTH-KEY / TABLE-KEY parameters is called by the composite codec
    directly (not through Parameter.encode_into_pdu, which positions the cursor), after all
    other parameters have been encoded: on every path to the call that encodes the key's value
    it must set BOTH the byte cursor (from the recorded key position) and the bit cursor (from
    the parameter's BIT-POSITION) -- the decoder honours both. Only decided when the function
    encodes through a `<dop>.encode_into_pdu(...)` call of its own."""
    for cls in ("LengthKeyParameter", "TableKeyParameter"):
        f = prog.func(f"{cls}.encode_value_into_pdu")
        S = _state_name(f) or "encode_state"
        C = f"{cls}.encode_value_into_pdu"
        cfg = CFG(f.node)
        calls = [n.id for n in cfg.nodes if n.stmt is not None and n.kind == "stmt" and any(
            isinstance(x, ast.Call) and call_name(x) == "encode_into_pdu"
            for x in walk_no_nested(n.stmt))]
        if not calls:
            run.ok(R, C, "does not encode through a DOP call of its own (positioning is decided "
                   "where it delegates to)", f.loc)
            continue
        for attr, src in (("cursor_byte_position", "key_pos"), ("cursor_bit_position",
                                                                "bit_position")):
            ws = [w for w in _assigns_to(f.node, f"{S}.{attr}") if src in ast.unparse(w.value)]
            wn = [cfg.node_of(w) for w in ws]
            if wn and all(cfg.must_pass(0, wn, c) for c in calls):
                run.ok(R, C, f"{attr} is set from {src} on every path to the call that encodes "
                       "the key's value", f.loc)
            else:
                run.violation(R, C, f"value-pass-{attr}-not-set",
                              f"there is a path to `encode_into_pdu` of the key's value on which "
                              f"{S}.{attr} is not set from {src}: the composite codec calls this "
                              "pass directly, after the other parameters, so the cursor is "
                              "wherever the last parameter left it and the key is written to a "
                              "different place than the decoder reads it from", f.loc)


# ----------------------------------------------------------------------- R2
def _roles(f: FuncInfo, S: str) -> Tuple[Dict[str, str], bool]:
    """local name -> role for saved cursors; whether the function moves the origin."""
    roles: Dict[str, str] = {}
    fn = f.node
    moved = bool([w for w in _assigns_to(fn, f"{S}.origin_byte_position")
                  if ast.unparse(w.value) == f"{S}.cursor_byte_position"])
    loops = [l for l in walk_no_nested(fn) if isinstance(l, (ast.For, ast.While))]
    body = [s for s in fn.body if not (isinstance(s, ast.Expr) and isinstance(
        s.value, ast.Constant))]
    for x in walk_no_nested(fn):
        if isinstance(x, ast.Assign) and isinstance(x.targets[0], ast.Name) and ast.unparse(
                x.value) == f"{S}.cursor_byte_position":
            nm = x.targets[0].id
            if body and not any(any(z is x for z in ast.walk(l)) for l in loops) and (x is body[0] or (len(body) > 1 and x in body[:3] and not any(
                    isinstance(b, (ast.If, ast.For)) for b in body[:body.index(x)]))):
                roles[nm] = "OWN_START"
            else:
                roles[nm] = "SAVED"
    return roles, moved


def _field(e: ast.AST, aliases: Dict[str, str]) -> Optional[str]:
    s = ast.unparse(e)
    for a, full in aliases.items():
        if s == a or s.startswith(a + "."):
            s = full + s[len(a):]
    if s.startswith("self."):
        return s[5:]
    return None


def _positioning_set(f: FuncInfo) -> Tuple[Set[str], Set[str]]:
    S = _state_name(f)
    if S is None:
        return set(), set()
    fn = f.node
    roles, moved = _roles(f, S)
    aliases: Dict[str, str] = {}
    for x in walk_no_nested(fn):
        if isinstance(x, ast.Assign) and isinstance(x.targets[0], ast.Name) and ast.unparse(
                x.value).startswith("self.") and isinstance(x.value, ast.Attribute):
            aliases[x.targets[0].id] = ast.unparse(x.value)
    # pos_after = cursor  (current cursor, used in padding arithmetic)
    cur_alias = {x.targets[0].id for x in walk_no_nested(fn) if isinstance(x, ast.Assign) and
                 isinstance(x.targets[0], ast.Name) and ast.unparse(x.value) ==
                 f"{S}.cursor_byte_position" and x.targets[0].id not in roles}

    def env(node: ast.AST):
        s = ast.unparse(node) if isinstance(node, (ast.Name, ast.Attribute)) else None
        if s == f"{S}.origin_byte_position":
            return Rat(Poly.atom("OWN_START" if moved else "CALLER_ORIGIN"))
        if s == f"{S}.cursor_byte_position":
            return Rat(Poly.atom("CUR"))
        if isinstance(node, ast.Name) and node.id in roles:
            return Rat(Poly.atom(roles[node.id]))
        if isinstance(node, ast.Name):
            defs = [x.value for x in walk_no_nested(fn) if isinstance(x, ast.Assign) and
                    len(x.targets) == 1 and isinstance(x.targets[0], ast.Name) and
                    x.targets[0].id == node.id]
            if len(defs) == 1 and node.id not in aliases:
                return normalize(defs[0], env)
        if s is not None:
            fl = _field(node, aliases)
            if fl is not None:
                return Rat(Poly.atom(f"FIELD({fl})"))
        if isinstance(node, ast.BoolOp) and isinstance(node.op, ast.Or) and len(
                node.values) == 2 and ast.unparse(node.values[1]) == "0":
            fl = _field(node.values[0], aliases)
            if fl is not None:
                return Rat(Poly.atom(f"FIELD({fl})|0"))
        return None
    byte: Set[str] = set()
    bit: Set[str] = set()
    for x in walk_no_nested(fn):
        if isinstance(x, ast.Assign):
            t = ast.unparse(x.targets[0])
            if t == f"{S}.cursor_byte_position":
                byte.add(normalize(x.value, env).key())
            elif t == f"{S}.cursor_bit_position":
                bit.add(normalize(x.value, env).key())
        if isinstance(x, ast.Call) and call_name(x) == "emplace_bytes" and x.args:
            a = x.args[0]
            # zero padding  b'\x00' * N  advances the cursor by N
            if isinstance(a, ast.BinOp) and isinstance(a.op, ast.Mult):
                n = a.right if isinstance(a.left, ast.Constant) else a.left
                k = a.left if isinstance(a.left, ast.Constant) else a.right
                if isinstance(k, ast.Constant) and k.value == b"\x00":
                    r = Rat(Poly.atom("CUR")) + normalize(n, env)
                    if "CUR" not in r.key():
                        byte.add(r.key())
    # current-cursor aliases (pos_after) resolve to CUR through env's single-definition rule
    return {b for b in byte if b != "CUR"}, bit


def _positioning(prog: Program, run: Run) -> None:
    R = "C01.R2"
    pairs: List[Tuple[str, FuncInfo, FuncInfo]] = []
    p = prog.cls("Parameter")
    pairs.append(("Parameter", p.methods["encode_into_pdu"], p.methods["decode_from_pdu"]))
    for ci in prog.subclasses("DopBase", strict=True):
        e, d = ci.methods.get("encode_into_pdu"), ci.methods.get("decode_from_pdu")
        if e is not None and d is not None:
            pairs.append((ci.name, e, d))
    enc = prog.func("odxtools.codec:composite_codec_encode_into_pdu")
    dec = prog.func("odxtools.codec:composite_codec_decode_from_pdu")
    pairs.append(("composite_codec", enc, dec))
    n = 0
    for name, e, d in pairs:
        eb, ebit = _positioning_set(e)
        db, dbit = _positioning_set(d)
        if not eb and not db and not ebit and not dbit:
            continue
        n += 1
        C = f"{name}.encode_into_pdu/decode_from_pdu"
        # SAVED restores (end-marker peek) are compared as a kind only
        if eb == db:
            run.ok(R, C, f"byte positioning agrees: {sorted(eb) or '—'}", e.loc)
        else:
            run.violation(R, C, "byte-position-base",
                          f"the encoder positions the cursor at {sorted(eb - db) or '{}'} where "
                          f"the decoder uses {sorted(db - eb) or '{}'} (common: {sorted(eb & db)}): "
                          "for descriptions in which these differ, the decoder reads other bytes "
                          "than the encoder wrote", e.loc)
        ebit, dbit = ebit - {"0"}, dbit - {"0"}  # resets to bit 0 are not positioning
        if ebit == dbit:
            run.ok(R, C, f"bit positioning agrees: {sorted(ebit) or '—'}", e.loc)
        else:
            run.violation(R, C, "bit-position",
                          f"bit position: encoder {sorted(ebit)}, decoder {sorted(dbit)}", e.loc)
    if n < 5:
        raise AnalysisError(f"only {n} codec pairs with positioning writes found")
    # Parameter: positioned relative to the caller's origin, only when BYTE-POSITION is given
    for nm in ("encode_into_pdu", "decode_from_pdu"):
        f = p.methods[nm]
        S = _state_name(f)
        w = _assigns_to(f.node, f"{S}.cursor_byte_position")
        cfg = CFG(f.node)
        ok = len(w) == 1 and any(norm_test(t, negate=not pol) == "self.byte_position is not None"
                                 for t, pol in cfg.branch_conditions(cfg.node_of(w[0])))
        if ok:
            run.ok(R, f"Parameter.{nm}", "BYTE-POSITION is applied only when it is specified",
                   f.loc)
        else:
            run.violation(R, f"Parameter.{nm}", "byte-position-guard",
                          "the cursor is repositioned even when no BYTE-POSITION is given (or "
                          "not at all)", f.loc)
        calls = [x for x in walk_no_nested(f.node) if isinstance(x, ast.Call) and call_name(x) in (
            "_encode_positioned_into_pdu", "_decode_positioned_from_pdu")]
        bits = _assigns_to(f.node, f"{S}.cursor_bit_position")
        if calls and len(bits) == 2:
            cn = cfg.node_of(_stmt(f.node, calls[0]))
            b0, b1 = cfg.node_of(bits[0]), cfg.node_of(bits[1])
            if cfg.dominates(b0, cn) and cfg.dominates(cn, b1) and ast.unparse(
                    bits[1].value) == "0":
                run.ok(R, f"Parameter.{nm}", "bit position set before and reset to 0 after the "
                       "parameter", f.loc)
                continue
        run.violation(R, f"Parameter.{nm}", "bit-position-bracket",
                      "the bit position is not set before and reset after the parameter", f.loc)


def _stmt(fn: ast.AST, x: ast.AST) -> ast.stmt:
    best = None
    for st in walk_no_nested(fn):
        if isinstance(st, ast.stmt) and st is not fn and not isinstance(
                st, (ast.If, ast.For, ast.While, ast.Try, ast.With)) and any(
                    z is x for z in ast.walk(st)):
            best = st
    if best is None:
        for st in walk_no_nested(fn):
            if isinstance(st, (ast.If, ast.While)) and any(z is x for z in ast.walk(st.test)):
                best = st
            if isinstance(st, ast.For) and any(z is x for z in ast.walk(st.iter)):
                best = st
    if best is None:
        raise AnalysisError("expression without statement")
    return best


# ----------------------------------------------------------------------- R3
def _recording(prog: Program, run: Run) -> None:
    R = "C01.R3"
    for cls, store in (("LengthKeyParameter", "length_keys"), ("TableKeyParameter", "table_keys")):
        f = prog.func(f"{cls}._decode_positioned_from_pdu")
        cfg = CFG(f.node, odxraise_continues=False)
        w = [n.id for n in cfg.nodes if n.stmt is not None and isinstance(n.stmt, ast.Assign) and
             ast.unparse(n.stmt.targets[0]) == f"decode_state.{store}[self.short_name]"]
        if w and cfg.must_pass(0, w, EXIT):
            run.ok(R, f"{cls}._decode_positioned_from_pdu", f"every returning path records "
                   f"decode_state.{store}[short_name]", f.loc)
        else:
            run.violation(R, f"{cls}._decode_positioned_from_pdu", "key-not-recorded",
                          f"there is a path that returns a value without recording it in "
                          f"decode_state.{store}: parameters that depend on this key cannot be "
                          "decoded", f.loc)
    for spec, S in (("odxtools.codec:composite_codec_encode_into_pdu", "encode_state"),
                    ("odxtools.codec:composite_codec_decode_from_pdu", "decode_state")):
        f = prog.func(spec)
        loops = [l for l in walk_no_nested(f.node) if isinstance(l, ast.For)]
        ok = False
        for l in loops:
            for x in ast.walk(l):
                if isinstance(x, ast.Call) and call_name(x) == "append" and ast.unparse(
                        x.func) == f"{S}.journal.append":
                    a = x.args[0]
                    if isinstance(a, ast.Tuple) and ast.unparse(a.elts[0]) == ast.unparse(
                            l.target):
                        ok = True
        if ok:
            run.ok(R, f.qual, "journals (parameter, value) for the parameters it walks", f.loc)
        else:
            run.violation(R, f.qual, "journal", "does not journal the parameters it walks "
                          "(environment data descriptions depend on the journal)", f.loc)
    # known asymmetry: static table key
    enc = prog.func("TableKeyParameter.encode_value_into_pdu")
    dec = prog.func("TableKeyParameter._decode_positioned_from_pdu")
    enc_static = any(isinstance(x, ast.Attribute) and x.attr == "table_row"
                     for x in ast.walk(enc.node))
    dcfg = CFG(dec.node)
    consumes_on_static = False
    for x in walk_no_nested(dec.node):
        if isinstance(x, ast.Call) and call_name(x) == "decode_from_pdu":
            conds = [(ast.unparse(t), p) for t, p in dcfg.branch_conditions(dcfg.node_of(
                _stmt(dec.node, x)))]
            if not any("table_row is not None" in c and not p for c, p in conds) and not any(
                    "table_row is None" in c and p for c, p in conds):
                consumes_on_static = True
    if not enc_static and not consumes_on_static:
        run.violation(R, "TableKeyParameter.encode_value_into_pdu/_decode_positioned_from_pdu",
                      "static-row-asymmetry",
                      "for a TABLE-KEY fixed by TABLE-ROW-REF the encoder emits the key bytes "
                      "(placeholder and value pass) but the decoder consumes nothing on that "
                      "branch: all following parameters are read at the wrong position", enc.loc)
    else:
        run.ok(R, "TableKeyParameter", "static and dynamic table keys are treated alike by "
               "encoder and decoder", enc.loc)


# ----------------------------------------------------------------------- R4
def _is_stub(f: FuncInfo) -> bool:
    body = [s for s in f.node.body if not (isinstance(s, ast.Expr) and isinstance(
        s.value, ast.Constant) and isinstance(s.value.value, str))]
    return len(body) == 1 and isinstance(body[0], ast.Raise) and "NotImplementedError" in \
        ast.unparse(body[0])


def _both_directions(prog: Program, run: Run) -> None:
    R = "C01.R4"
    groups: List[Tuple[str, List[ClassInfo], Tuple[str, str]]] = []
    fac = prog.func("odxtools.parameters.createanyparameter:create_any_parameter_from_et")
    from .common import dispatch_table

    def constructed(fn: FuncInfo) -> List[ClassInfo]:
        """classes a factory can construct: `Cls.from_et(...)` calls and the classes of its
        dispatch table (if/elif chain or dictionary)"""
        out: List[ClassInfo] = []
        for x in walk_no_nested(fn.node):
            if isinstance(x, ast.Call) and isinstance(x.func, ast.Attribute) and \
                    x.func.attr == "from_et" and isinstance(x.func.value, ast.Name):
                ci = prog.resolve_class_name(fn.module, x.func.value.id)
                if ci is not None and ci not in out:
                    out.append(ci)
        for cname in dispatch_table(prog, fn).values():
            ci = prog.resolve_class_name(fn.module, cname)
            if ci is not None and ci not in out:
                out.append(ci)
        return out
    pcls = constructed(fac)
    groups.append(("parameter", pcls, ("_encode_positioned_into_pdu",
                                       "_decode_positioned_from_pdu")))
    dfac = prog.func("odxtools.createanydiagcodedtype:create_any_diag_coded_type_from_et")
    dcls = constructed(dfac)
    groups.append(("diag-coded type", dcls, ("encode_into_pdu", "decode_from_pdu")))
    # DDDS categories: classes of the list fields that derive from DopBase
    from ..types import ann_type, classes_of, elem_type
    ddds = prog.cls("DiagDataDictionarySpec")
    docls = []
    for n, ann, c in prog.all_fields(ddds):
        t = ann_type(prog, c.module, ann)
        for ci in classes_of(elem_type(t)):
            if prog.is_subclass(ci, "DopBase") and ci not in docls:
                docls.append(ci)
    groups.append(("data object", docls, ("encode_into_pdu", "decode_from_pdu")))
    if len(pcls) < 10 or len(dcls) < 4 or len(docls) < 8:
        raise AnalysisError(f"factories: {len(pcls)} parameter, {len(dcls)} diag-coded-type, "
                            f"{len(docls)} data-object classes found")
    for kind, classes, (en, dn) in groups:
        for ci in classes:
            if any(o is not ci and prog.is_subclass(o, ci) for o in classes):
                continue  # abstract base whose from_et only supplies the common fields
            if ci.name in NOT_CODEC:
                run.ok(R, ci.name, f"exempt: {NOT_CODEC[ci.name]}", ci.loc)
                continue
            for m in (en, dn):
                f = prog.lookup(ci, m)
                if f is None or _is_stub(f):
                    run.violation(R, ci.name, f"missing-{m}",
                                  f"{kind} class {ci.name} can be created from ODX but does not "
                                  f"implement {m} (the base class raises NotImplementedError): "
                                  f"messages using it cannot be "
                                  f"{'encoded' if 'encode' in m else 'decoded'}", ci.loc)
                else:
                    run.ok(R, ci.name, f"{m} is implemented by {f.cls.name if f.cls else '?'}",
                           f.loc)


# ----------------------------------------------------------------------- R5
def _cases(f: FuncInfo) -> Dict[str, Set[str]]:
    """type branch -> set of encodings handled (by explicit tests) in that branch."""
    head = None
    for st in f.node.body:
        if isinstance(st, ast.If) and "base_data_type" in ast.unparse(st.test) and \
                "A_BYTEFIELD" in ast.unparse(st.test):
            head = st
            break
    if head is None:
        raise AnalysisError(f"{f.qual}: type dispatch not found")
    out: Dict[str, Set[str]] = {}
    cur: Optional[ast.If] = head
    while cur is not None:
        types = sorted({ch[-1] for n in ast.walk(cur.test) for ch in [attr_chain(n)]
                        if ch and len(ch) == 2 and ch[0] == "DataType"})
        key = "|".join(types)
        encs: Set[str] = set()
        for x in [y for s in cur.body for y in walk_no_nested(s)]:
            if isinstance(x, ast.If) and "base_type_encoding" in ast.unparse(x.test):
                for n in ast.walk(x.test):
                    ch = attr_chain(n)
                    if ch and ch[0] == "Encoding":
                        encs.add(ch[-1])
                    if isinstance(n, ast.Constant) and n.value is None:
                        encs.add("None")
        out[key] = encs
        if len(cur.orelse) == 1 and isinstance(cur.orelse[0], ast.If):
            cur = cur.orelse[0]
        else:
            out["else"] = set()
            cur = None
    return out


def mux_first_match(prog: Program, run: Run, R: str = "C01.R4") -> None:
    """CASE ranges of a multiplexer may overlap; ODX takes the first CASE that contains the key.
    The encoder (case given by its key value) and the decoder select in the same way."""
    pick: Dict[str, Tuple[str, int]] = {}
    for side, name in (("encode", "encode_into_pdu"), ("decode", "decode_from_pdu")):
        f = prog.func(f"Multiplexer.{name}")
        for lp in walk_no_nested(f.node):
            if not (isinstance(lp, ast.For) and ast.unparse(lp.iter) == "self.cases"):
                continue
            tests = [x for x in ast.walk(lp) if isinstance(x, ast.If) and any(
                isinstance(c, ast.Compare) and any(isinstance(o, (ast.LtE, ast.GtE, ast.Lt, ast.Gt))
                                                   for o in c.ops) for c in ast.walk(x.test))]
            if not tests:
                continue
            t = tests[0]
            has_break = any(isinstance(y, (ast.Break, ast.Return)) for b in t.body
                            for y in ast.walk(b))
            appends = [y for b in t.body for y in ast.walk(b) if isinstance(y, ast.Call) and
                       call_name(y) == "append" and isinstance(y.func, ast.Attribute) and
                       isinstance(y.func.value, ast.Name)]
            assigns = [y for b in t.body for y in ast.walk(b) if isinstance(y, ast.Assign) and
                       isinstance(y.targets[0], ast.Name)]
            how = "unknown"
            if has_break:
                how = "first"
            elif appends:
                lst = appends[0].func.value.id
                idx = [y for y in walk_no_nested(f.node) if isinstance(y, ast.Subscript) and
                       isinstance(y.value, ast.Name) and y.value.id == lst and isinstance(
                           y.ctx, ast.Load)]
                if idx and all(ast.unparse(y.slice) == "0" for y in idx):
                    how = "first"
                elif idx and all(ast.unparse(y.slice) == "-1" for y in idx):
                    how = "last"
            elif assigns:
                how = "last"
            pick[side] = (how, lp.lineno)
    # a side whose selection is written in another way (a generator consumed with next(), a
    # helper) is not judged: only a recognised first / last disagreement is reported
    for side in ("encode", "decode"):
        pick.setdefault(side, ("unknown", prog.func("Multiplexer.encode_into_pdu").node.lineno))
    (he, le), (hd, ld) = pick["encode"], pick["decode"]
    rel = prog.func("Multiplexer.encode_into_pdu").module.rel
    if "unknown" in (he, hd) or he == hd == "first":
        run.ok(R, "Multiplexer", f"overlapping CASE ranges: encoder takes the {he} match, decoder "
               f"the {hd} match", f"{rel}:{le}")
    else:
        run.violation(R, "Multiplexer", "case-selection-differs",
                      f"for a key inside two overlapping CASE ranges the encoder takes the {he} "
                      f"matching case and the decoder the {hd} one (ODX: the first): the content "
                      "is encoded with one structure and decoded with another",
                      f"{rel}:{le}")


def _derives_from(fn: ast.AST, e: ast.AST, callee: str, seen: Optional[Set[str]] = None) -> bool:
    """``e`` contains a call of ``callee``, or a local name ALL of whose definitions do."""
    seen = set(seen or ())
    for n in ast.walk(e):
        if isinstance(n, ast.Call) and call_name(n) == callee:
            return True
    for n in ast.walk(e):
        if isinstance(n, ast.Name) and n.id not in seen:
            defs = []
            for x in walk_no_nested(fn):
                if isinstance(x, ast.Assign) and any(isinstance(t, ast.Name) and t.id == n.id
                                                     for t in x.targets):
                    defs.append(x.value)
                if isinstance(x, (ast.AnnAssign, ast.NamedExpr)) and isinstance(
                        x.target, ast.Name) and x.target.id == n.id and x.value is not None:
                    defs.append(x.value)
            if defs and all(_derives_from(fn, v, callee, seen | {n.id}) for v in defs):
                return True
    return False


def _decoded_value_source(prog: Program, run: Run) -> None:
    """What a diag-coded type hands back comes out of DecodeState.extract_atomic_value(), which
    is the one place that builds a value OF THE BASE DATA TYPE (``''`` vs ``b''`` vs ``0`` for
    zero bits): a literal returned for a special case has the wrong type for some base type and
    the compu method rejects it."""
    R = "C01.R8"
    n = 0
    for c in prog.subclasses("DiagCodedType", strict=True):
        f = c.methods.get("decode_from_pdu")
        if f is None:
            continue
        for r in walk_no_nested(f.node):
            if not isinstance(r, ast.Return):
                continue
            v = r.value
            if v is None or isinstance(v, ast.Constant) and v.value is None or (
                    isinstance(v, ast.Call) and call_name(v) == "cast" and any(
                        isinstance(a, ast.Constant) and a.value is None for a in v.args)):
                continue
            n += 1
            if _derives_from(f.node, v, "extract_atomic_value"):
                run.ok(R, f"{c.name}.decode_from_pdu", f"`return {ast.unparse(v)[:40]}` derives "
                       "from extract_atomic_value()", f"{f.module.rel}:{r.lineno}")
            else:
                run.violation(R, f"{c.name}.decode_from_pdu", "value-not-extracted",
                              f"`{stmt_key(r)}` returns a value that was not built by "
                              "DecodeState.extract_atomic_value(): its python type does not "
                              "follow the BASE-DATA-TYPE (an empty text must be '', an empty "
                              "byte field b''), so what the encoder accepted does not come back",
                              f"{f.module.rel}:{r.lineno}", stmt_key(r))
    if n < 4:
        raise AnalysisError("decode_from_pdu of the diag-coded types: fewer than 4 returns found")


def _case_coverage(prog: Program, run: Run) -> None:
    R = "C01.R5"
    # per type branch: the encodings the branch processes without reporting a problem, decided
    # on the symbolic paths of the branch (fallback: the encodings its tests mention)
    from . import atomic
    ef, df = prog.func("EncodeState.emplace_atomic_value"), prog.func(
        "DecodeState.extract_atomic_value")
    e, d = _cases(ef), _cases(df)
    eb, db_ = atomic.type_branches(ef), atomic.type_branches(df)
    for k in set(e) & set(d) & set(eb) & set(db_):
        ae, ad = atomic.accepted(prog, eb[k]), atomic.accepted(prog, db_[k])
        if ae is not None and ad is not None:
            e[k], d[k] = ae, ad
    for k in sorted(set(e) | set(d)):
        if k not in e or k not in d:
            run.violation(R, "emplace_atomic_value/extract_atomic_value", f"type-branch-{k}",
                          f"the base data types [{k}] are handled by only one of the two "
                          "functions", prog.func("EncodeState.emplace_atomic_value").loc)
        elif e[k] != d[k]:
            run.violation(R, "emplace_atomic_value/extract_atomic_value", f"encodings-{k}",
                          f"for [{k}] the encoder handles encodings {sorted(e[k])} and the "
                          f"decoder {sorted(d[k])}: a value encoded with an encoding only one "
                          "side knows cannot be read back",
                          prog.func("EncodeState.emplace_atomic_value").loc)
        else:
            run.ok(R, "emplace_atomic_value/extract_atomic_value",
                   f"[{k}]: both sides handle encodings {sorted(e[k]) or '—'}",
                   prog.func("EncodeState.emplace_atomic_value").loc)


# ----------------------------------------------------------------------- R6
def _same_walk(prog: Program, run: Run) -> None:
    R = "C01.R6"
    enc = prog.func("odxtools.codec:composite_codec_encode_into_pdu")
    dec = prog.func("odxtools.codec:composite_codec_decode_from_pdu")
    for f in (enc, dec):
        loops = [l for l in walk_no_nested(f.node) if isinstance(l, ast.For) and "parameters" in
                 ast.unparse(l.iter)]
        if not loops:
            raise AnalysisError(f"{f.qual}: parameter loop not found")
        for l in loops:
            if ast.unparse(l.iter) == "codec.parameters":
                run.ok(R, f.qual, "iterates codec.parameters itself, in order",
                       f"{f.module.rel}:{l.lineno}")
            else:
                run.violation(R, f.qual, "parameter-order",
                              f"iterates `{ast.unparse(l.iter)}` instead of codec.parameters: "
                              "the two directions do not visit the parameters in the same order",
                              f"{f.module.rel}:{l.lineno}", stmt_key(l))
    # the conditions under which the three kinds of encoding calls are reached (path
    # conditions from the CFG: independent of `continue` vs nesting, De Morgan, `is` vs id())
    want_pos = norm_test(ast.parse("isinstance(param, (LengthKeyParameter, TableKeyParameter))",
                                   mode="eval").body)
    want_neg = norm_test(ast.parse("not isinstance(param, (LengthKeyParameter, "
                                   "TableKeyParameter))", mode="eval").body)
    ecfg = CFG(enc.node)
    seen_calls = {}
    for x in walk_no_nested(enc.node):
        if isinstance(x, ast.Call) and isinstance(x.func, ast.Attribute) and x.func.attr in (
                "encode_placeholder_into_pdu", "encode_into_pdu", "encode_value_into_pdu") and \
                isinstance(x.func.value, ast.Name):
            conds = [(t, p_) for t, p_ in ecfg.branch_conditions(ecfg.node_of(_stmt(enc.node, x)))
                     if "LengthKeyParameter" in ast.unparse(t)]
            seen_calls[x.func.attr] = conj_test(conds)
    want = {"encode_placeholder_into_pdu": want_pos, "encode_into_pdu": want_neg,
            "encode_value_into_pdu": want_pos}
    if seen_calls == want:
        run.ok(R, enc.qual, "the first pass defers exactly the key parameters the second pass "
               "encodes", enc.loc)
    else:
        run.violation(R, enc.qual, "key-pass-mismatch",
                      f"placeholder / value / key encoding are reached under {seen_calls}, "
                      f"expected {want}: a key parameter is either encoded twice or not at all",
                      enc.loc)
    # every parameter of the decoder loop is decoded and stored under its short name
    l = [l for l in walk_no_nested(dec.node) if isinstance(l, ast.For)][0]
    pvn = ast.unparse(l.target)
    stp = dec.params()[-1]
    iter_paths = symbolic_block_paths(l.body)
    want_store = f"{pvn}.decode_from_pdu({stp})"
    if iter_paths and all(p_.ret is None and any(
            tg.endswith(f"[{pvn}.short_name]") and ast.unparse(v) == want_store
            for tg, v in p_.stores) for p_ in iter_paths):
        run.ok(R, dec.qual, "every parameter is decoded and stored under its short name", dec.loc)
    else:
        run.violation(R, dec.qual, "decoder-skips",
                      "not every parameter is decoded and stored under its short name", dec.loc)


# ----------------------------------------------------------------------- R7
def _terminator(prog: Program, run: Run) -> None:
    R = "C01.R7"
    e = prog.func("MinMaxLengthType.encode_into_pdu")
    d = prog.func("MinMaxLengthType.decode_from_pdu")
    # encoder: the terminator is emitted under exactly
    #   not (is_end_of_pdu or data_length == max_length)
    # (path condition of the emplace_bytes call; independent of how the branches are written)
    ecfg = CFG(e.node)
    emits = [x for x in walk_no_nested(e.node) if isinstance(x, ast.Call) and
             call_name(x) == "emplace_bytes"]
    dl = [x for x in walk_no_nested(e.node) if isinstance(x, ast.Assign) and ast.unparse(
        x.targets[0]) == "data_length"]
    in_bytes = bool(dl) and ast.unparse(dl[0].value) == "len(raw_value)"
    want = norm_test(ast.parse("not (encode_state.is_end_of_pdu or data_length == self.max_length)",
                               mode="eval").body)
    if not emits:
        run.violation(R, "MinMaxLengthType.encode_into_pdu", "terminator-condition",
                      "the terminator is never emitted", e.loc)
    else:
        got = conj_test(path_conditions(ecfg, ecfg.node_of(_stmt(e.node, emits[0]))))
        if got == want and in_bytes:
            run.ok(R, "MinMaxLengthType.encode_into_pdu", "terminator omitted iff at the end of "
                   "the PDU or the encoded byte length equals MAX-LENGTH",
                   f"{e.module.rel}:{emits[0].lineno}")
        else:
            run.violation(R, "MinMaxLengthType.encode_into_pdu", "terminator-condition",
                          f"the terminator is emitted under `{got}`"
                          + ("" if in_bytes else " with data_length not being len(raw_value)")
                          + ": it must be omitted iff is_end_of_pdu or the *encoded byte "
                          "length* equals MAX-LENGTH (the decoder decides by consumed bytes)",
                          f"{e.module.rel}:{emits[0].lineno}", got)
    # decoder: terminator skipped iff termination != END-OF-PDU, not at end of PDU and
    # consumed != max_length
    dcfg = CFG(d.node)
    skip = [x for x in walk_no_nested(d.node) if isinstance(x, ast.AugAssign) and
            "len(termination_seq)" in ast.unparse(x.value) and "cursor_byte_position" in
            ast.unparse(x.target)]
    if skip:
        want = norm_test(ast.parse(
            "self.termination != Termination.END_OF_PDU and "
            "decode_state.cursor_byte_position != len(decode_state.coded_message) and "
            "decode_state.cursor_byte_position - orig_cursor_pos != self.max_length",
            mode="eval").body)
        # a local that merely stands for decode_state.coded_message is read through
        msg_alias = {x.targets[0].id for x in walk_no_nested(d.node) if isinstance(x, ast.Assign)
                     and isinstance(x.targets[0], ast.Name) and
                     ast.unparse(x.value) == "decode_state.coded_message"}

        class _Msg(ast.NodeTransformer):
            def visit_Name(self, node: ast.Name) -> ast.AST:
                if node.id in msg_alias and isinstance(node.ctx, ast.Load):
                    return ast.parse("decode_state.coded_message", mode="eval").body
                return node
        import copy as _copy
        pcs = [(_Msg().visit(_copy.deepcopy(t)), pol) for t, pol in path_conditions(
            dcfg, dcfg.node_of(skip[0]), loop_exits=False)]
        got = conj_test(pcs)
        if got == want:
            run.ok(R, "MinMaxLengthType.decode_from_pdu", "terminator skipped iff not at the end "
                   "of the PDU and fewer than MAX-LENGTH bytes were consumed",
                   f"{d.module.rel}:{skip[0].lineno}")
        else:
            run.violation(R, "MinMaxLengthType.decode_from_pdu", "terminator-skip-condition",
                          f"the terminator is skipped under `{got}`, which does not mirror the "
                          "encoder's rule", f"{d.module.rel}:{skip[0].lineno}")
    else:
        run.violation(R, "MinMaxLengthType.decode_from_pdu", "terminator-not-skipped",
                      "the terminator is never skipped after the value", d.loc)
    # search: starts at orig + min_length, aligned test, step 1 on misalignment
    wl = [x for x in walk_no_nested(d.node) if isinstance(x, ast.While)]
    if not wl:
        raise AnalysisError("MinMaxLengthType.decode_from_pdu: terminator search loop not found")
    # the search position variable is the one the find() result is assigned to; the resume
    # offset is (start argument of the find inside the loop - position) + increments in the loop
    finds = [x for x in walk_no_nested(d.node) if isinstance(x, ast.Assign) and isinstance(
        x.value, ast.Call) and isinstance(x.value.func, ast.Attribute) and
        x.value.func.attr == "find" and isinstance(x.targets[0], ast.Name)]
    in_loop = [x for x in finds if any(y is x for y in ast.walk(wl[0]))]
    step = None
    if len(in_loop) == 1 and len(in_loop[0].value.args) >= 2:
        pos = in_loop[0].targets[0].id
        start = in_loop[0].value.args[1]
        diff = normalize(ast.BinOp(left=start, op=ast.Sub(), right=ast.Name(
            id=pos, ctx=ast.Load()))).const_value()
        incs = [x for x in ast.walk(wl[0]) if isinstance(x, ast.AugAssign) and ast.unparse(
            x.target) == pos]
        inc_total = 0
        for x in incs:
            c = normalize(x.value).const_value()
            if c is None or not isinstance(x.op, ast.Add):
                diff = None
                break
            inc_total += c
        if diff is not None:
            step = diff + inc_total
    if step == 1:
        run.ok(R, "MinMaxLengthType.decode_from_pdu", "a misaligned terminator candidate is "
               "skipped by one byte (no aligned candidate can be missed)",
               f"{d.module.rel}:{in_loop[0].lineno}")
    else:
        run.violation(R, "MinMaxLengthType.decode_from_pdu", "search-step",
                      "after a misaligned candidate the search does not resume exactly one byte "
                      f"further (resume offset {step}): a correctly aligned terminator "
                      "that overlaps the misaligned candidate is skipped and the value swallows "
                      "the following parameters", d.loc)
    al = [x for x in ast.walk(wl[0]) if isinstance(x, ast.If) and "%" in ast.unparse(x.test)]
    want = norm_test(ast.parse("(terminator_pos - orig_cursor_pos) % len(termination_seq) == 0",
                               mode="eval").body)
    # the search may also be written `while pos >= 0 and <misaligned>: pos = find(.., pos + 1)`
    in_while = False
    if isinstance(wl[0].test, ast.BoolOp) and isinstance(wl[0].test.op, ast.And):
        in_while = any("%" in ast.unparse(v) and norm_test(v, negate=True) == want
                       for v in wl[0].test.values)
    if in_while or (al and norm_test(al[0].test) == want):
        run.ok(R, "MinMaxLengthType.decode_from_pdu", "a terminator counts only when aligned "
               "relative to the start of the value", f"{d.module.rel}:{wl[0].lineno}")
    else:
        run.violation(R, "MinMaxLengthType.decode_from_pdu", "alignment-test",
                      "terminator alignment is not tested relative to the start of the value",
                      d.loc)
