"""C02 — bit exactness, claimed for formulas, sibling symmetry and the single writer."""
from __future__ import annotations

import ast
from typing import Dict, List, Optional, Set, Tuple

from ..cfg import CFG, EXIT, symbolic_block_paths
from ..exprnorm import Poly, Rat, norm_test, normalize
from ..report import Run
from ..src import (AnalysisError, FuncInfo, Program, attr_chain, call_name, stmt_key,
                   walk_no_nested)
from . import common

EXPLANATION = (
    "The integer encodings of EncodeState.emplace_atomic_value / DecodeState.extract_atomic_value "
    "are extracted per encoding branch and compared, as normalised expressions over (v, n), with "
    "the ODX formulas (two's / one's complement, sign-magnitude; sign test; BCD digit loops); "
    "padding, byte-length and byte-reversal formulas must be the same normalised expression in "
    "the encoder, the decoder and the static-length function; the object mask must be shifted to "
    "the bit position before data and mask are byte-reversed together; only EncodeState methods "
    "may write coded_message / used_mask (who-may-write scan of the package); emplace_bytes "
    "accumulates the used mask with OR and warns exactly on intersecting bits; both modules "
    "bind bitstruct through the same fall-back idiom and only use pack / unpack_from; the "
    "string-encoding decision table equals the ODX table.")
ASSUMPTIONS = [
    "agreement with an independent ODX interpreter on concrete PDUs, the behaviour of Python's "
    "string codecs and of the bitstruct C extension are not decided",
]


def _branch(f: FuncInfo, dtype: str) -> List[ast.stmt]:
    head = None
    for st in f.node.body:
        if isinstance(st, ast.If) and ast.unparse(st.test).replace(" ", "") in (
                "base_data_type==DataType.A_BYTEFIELD",):
            head = st
            break
    if head is None:
        raise AnalysisError(f"{f.qual}: type dispatch not found")
    cur: Optional[ast.If] = head
    while cur is not None:
        t = ast.unparse(cur.test)
        if f"DataType.{dtype}" in t and "==" in t:
            return cur.body
        if len(cur.orelse) == 1 and isinstance(cur.orelse[0], ast.If):
            cur = cur.orelse[0]
        else:
            cur = None
    raise AnalysisError(f"{f.qual}: branch for {dtype} not found")


def _enc_branches(body: List[ast.stmt]) -> Dict[str, List[ast.stmt]]:
    out: Dict[str, List[ast.stmt]] = {}
    for st in body:
        if isinstance(st, ast.If) and "base_type_encoding" in ast.unparse(st.test):
            cur: Optional[ast.If] = st
            while cur is not None:
                encs = sorted({ch[-1] for n in ast.walk(cur.test) for ch in [attr_chain(n)]
                               if ch and len(ch) == 2 and ch[0] == "Encoding"})
                key = "|".join(encs) if encs else "?"
                out[key] = cur.body
                if len(cur.orelse) == 1 and isinstance(cur.orelse[0], ast.If) and \
                        "base_type_encoding" in ast.unparse(cur.orelse[0].test):
                    cur = cur.orelse[0]
                else:
                    cur = None
            break
    return out


def check(prog: Program, run: Run) -> None:
    run.rule("C02.R1", "integer encodings (2C, 1C, SM, BCD) follow the ODX formulas in both "
             "directions", floor=10)
    run.rule("C02.R2", "padding, byte length, byte reversal and mask positioning are the same "
             "formula in encoder, decoder and static length", floor=6)
    run.rule("C02.R3", "only EncodeState writes the PDU; used bits accumulate with OR; the "
             "overlap warning fires exactly on intersecting bits", floor=6)
    run.rule("C02.R4", "both bit-packing backends are bound the same way and only pack / "
             "unpack_from are used", floor=3)
    run.rule("C02.R5", "string encodings: (type, encoding, byte order) -> codec as in ODX",
             floor=5)
    run.rule("C02.R6", "MIN-MAX-LENGTH: the terminator is emitted / searched by byte counts, the "
             "same way in encoder and decoder (shared with C01.R7)", floor=3)
    _formulas(prog, run)
    _bcd(prog, run)
    _siblings(prog, run)
    _single_writer(prog, run)
    _emplace_paths(prog, run)
    _emplace_alignment(prog, run)
    _backend(prog, run)
    _strings(prog, run)
    _terminator_width(prog, run)
    _byte_length_of_value(prog, run)
    mask_byte_order(prog, run, "C02.R2")
    from . import c01
    from .common import run_as
    run_as(run, "C01.R7", "C02.R6", lambda r: c01._terminator(prog, r))
    # whether the terminator is emitted at all depends on is_end_of_pdu: cleared before the
    # items of a field, re-established for the last one only, restored at exit (part of C01.R1)
    run_as(run, "C01.R1", "C02.R6", lambda r: c01._pairing(prog, r, only_eop=True))
    # where the bytes of a value land: relative to the origin of the enclosing object
    c01._origin_window(prog, run, "C02.R3")
    c01._probe_restores(prog, run, "C02.R3")
    c01.encode_state_roots(prog, run, "C02.R6")


# ----------------------------------------------------------------------- R1
def _formulas(prog: Program, run: Run) -> None:
    """The integer formulas as a decision table: for every (encoding, sign) scenario the value
    computed on the consistent symbolic paths of the A_INT32 / A_UINT32 branch is compared with
    the ODX formula. The arrangement of the branches is irrelevant."""
    R = "C02.R1"
    from . import atomic
    e = prog.func("EncodeState.emplace_atomic_value")
    d = prog.func("DecodeState.extract_atomic_value")
    V = Rat(Poly.atom("v"))
    RW = Rat(Poly.atom("raw"))
    two_n = normalize(ast.parse("1 << bit_length", mode="eval").body)
    half = normalize(ast.parse("1 << (bit_length - 1)", mode="eval").body)
    one = Rat(Poly.const(1))

    def sym_env(val: str, sym: Rat):
        def env(node: ast.AST):
            if isinstance(node, ast.Name) and node.id == val:
                return sym
            if isinstance(node, ast.Call) and call_name(node) == "abs" and node.args and \
                    ast.unparse(node.args[0]) == val:
                return Rat(Poly.atom("abs(v)"))
            if isinstance(node, ast.Call) and call_name(node) == "int" and len(
                    node.args) == 1 and ast.unparse(node.args[0]) == val:
                return sym  # int(internal_value) after the type was reported
            return None
        return env
    sides = [
        ("EncodeState.emplace_atomic_value", e, "internal_value", "raw_value", V,
         # scenario "non-negative" <=> internal_value >= 0
         ("v >= 0", "v < 0"),
         {"ONEC": two_n - one + V, "TWOC": two_n + V, "None": two_n + V,
          "SM": half + Rat(Poly.atom("abs(v)"))},
         "a negative value is encoded as", "a non-negative value is encoded as"),
        ("DecodeState.extract_atomic_value", d, "raw_value", "internal_value", RW,
         ("raw < H", "raw >= H"),
         {"ONEC": RW + one - two_n, "TWOC": RW - two_n, "None": RW - two_n, "SM": half - RW},
         "raw with the sign bit set decodes to", "raw below the sign bit decodes to"),
    ]
    for qual, f, val, tgt, sym, (pos_t, neg_t), want_neg, neg_txt, pos_txt in sides:
        body = atomic.type_branches(f).get("A_INT32")
        paths = atomic.branch_paths(body) if body else None
        if paths is None:
            raise AnalysisError(f"{qual}: A_INT32 branch not found or not loop-free")
        env_n = sym_env(val, sym)
        thr = Rat(Poly.const(0)) if val == "internal_value" else half

        def tenv(n, sym=sym):
            if isinstance(n, ast.Name) and n.id in ("v", "raw"):
                return sym
            if isinstance(n, ast.Name) and n.id == "H":
                return half
            return None
        want_pos = norm_test(ast.parse(pos_t, mode="eval").body, tenv)
        want_negt = norm_test(ast.parse(neg_t, mode="eval").body, tenv)
        for enc in ("ONEC", "TWOC", "None", "SM"):
            unknown_sign: List[str] = []
            for nonneg in (True, False):
                def leaf(t: ast.AST, nonneg=nonneg):
                    if isinstance(t, ast.Compare) and len(t.ops) == 1 and any(
                            isinstance(n, ast.Name) and n.id == val for n in ast.walk(t)) and \
                            isinstance(t.ops[0], (ast.Lt, ast.LtE, ast.Gt, ast.GtE)):
                        k = norm_test(t, env_n)
                        if k == want_pos:
                            return nonneg
                        if k == want_negt:
                            return not nonneg
                        # a comparison of the value with the sign threshold, but not the
                        # sign test (other comparisons, e.g. the range check, are no sign tests)
                        diff = normalize(t.left, env_n) - normalize(t.comparators[0], env_n)
                        if diff.same(sym - thr) or diff.same(thr - sym):
                            unknown_sign.append(ast.unparse(t))
                    if isinstance(t, ast.Call) and call_name(t) == "isinstance" and t.args and \
                            ast.unparse(t.args[0]) == val:
                        return True  # the value has the expected type
                    return None
                scen = {"base_type_encoding": None if enc == "None" else f"Encoding.{enc}"}
                cons = atomic.scenario(paths, scen, leaf)
                label = f"A_INT32/{enc if enc != 'None' else 'no encoding'}"
                if unknown_sign:
                    break
                cons = [p for p in cons
                        if not any(atomic.is_report(st, scen, leaf) for st in p.trace)]
                if not cons:
                    run.violation(R, qual, f"int32-{enc}-unhandled",
                                  f"{label} is not processed without an error", f.loc)
                    continue
                got = {normalize(atomic.select(p.env[tgt], scen, leaf), env_n).key()
                       if tgt in p.env else "unassigned" for p in cons}
                want = sym if nonneg else want_neg[enc]
                if got == {want.key()}:
                    run.ok(R, qual, f"{label}: {'non-negative' if nonneg else 'negative'} -> "
                           f"{want.key()}", f.loc)
                else:
                    run.violation(R, qual,
                                  f"int32-{enc}-{'nonnegative' if nonneg else 'negative'}",
                                  f"{label}: {pos_txt if nonneg else neg_txt} "
                                  f"`{', '.join(sorted(got))}`; ODX: `{want.key()}` "
                                  "(n = bit_length)", f.loc)
            if unknown_sign:
                run.violation(R, qual, f"int32-{enc}-sign-test",
                              f"A_INT32/{enc}: the sign test is `{unknown_sign[0]}`; "
                              + ("a raw value is non-negative iff raw < 2^(n-1) (the bit pattern "
                                 "100...0 is the most negative value)" if val == "raw_value" else
                                 "it must be internal_value >= 0"), f.loc, unknown_sign[0])
    # unsigned: NONE -> identity, BCD -> helper (both sides)
    for f, val, tgt in ((e, "internal_value", "raw_value"), (d, "raw_value", "internal_value")):
        body = atomic.type_branches(f).get("A_UINT32")
        paths = atomic.branch_paths(body) if body else None
        if paths is None:
            _formulas_uint_syntactic(run, R, f, val, tgt)
            continue

        def leaf_u(t: ast.AST, val=val):
            if isinstance(t, ast.Call) and call_name(t) == "isinstance" and t.args and \
                    ast.unparse(t.args[0]) == val:
                return True
            return None
        for enc, helper in (("BCD_P", "bcd_p"), ("BCD_UP", "bcd_up"), ("NONE", None),
                            ("None", None)):
            scen = {"base_type_encoding": None if enc == "None" else f"Encoding.{enc}"}
            cons = [p for p in atomic.scenario(paths, scen, leaf_u)
                    if not any(atomic.is_report(st, scen, leaf_u) for st in p.trace)]
            if not cons:
                run.violation(R, f.qual, f"uint32-{enc}-unhandled",
                              f"A_UINT32 with encoding {enc} has no branch", f.loc)
                continue
            bad = None
            for p in cons:
                v = atomic.select(p.env.get(tgt), scen, leaf_u)
                while isinstance(v, ast.Call) and call_name(v) == "int" and len(v.args) == 1:
                    v = v.args[0]
                if helper is None:
                    ok = v is not None and ast.unparse(v) == val
                elif isinstance(v, ast.Call) and call_name(v) == "__loop__":
                    # the digit loop written in place (or an inlined helper): recognised by its
                    # operators; the width per digit is checked by _bcd
                    lps = [x for x in ast.walk(f.node) if isinstance(x, ast.While) and
                           x.lineno == v.args[0].value]
                    ok = bool(lps) and _bcd_loop(lps[0]) is not None
                else:
                    # `__encode_bcd_p(x)` or one parametrised helper `__encode_bcd(x, bits=4)`:
                    # the width per digit is checked by _bcd
                    ok = isinstance(v, ast.Call) and "bcd" in (call_name(v) or "") and v.args \
                        and ast.unparse(v.args[0]) in (val, f"int({val})") and (
                            helper in (call_name(v) or "") or not (call_name(v) or "").endswith(
                                ("_p", "_up")))
                if not ok:
                    bad = ast.unparse(v) if v is not None else "unassigned"
            if bad is None:
                run.ok(R, f.qual, f"A_UINT32/{enc}: {tgt} = "
                       f"{val if helper is None else helper + '(' + val + ')'}", f.loc)
            else:
                run.violation(R, f.qual, f"uint32-{enc}",
                              f"A_UINT32/{enc}: `{tgt} = {bad}` is not "
                              f"{'the value itself' if helper is None else 'the ' + helper + ' conversion of ' + val}",
                              f.loc)


def _formulas_uint_syntactic(run: Run, R: str, f: FuncInfo, val: str, tgt: str) -> None:
    """fallback when the A_UINT32 branch contains the BCD digit loops in place"""
    if True:
        ub = _enc_branches(_branch(f, "A_UINT32"))
        for enc, helper in (("BCD_P", "bcd_p"), ("BCD_UP", "bcd_up"), ("NONE", None)):
            key = [k for k in ub if enc in k.split("|")]
            if not key:
                run.violation(R, f.qual, f"uint32-{enc}-unhandled",
                              f"A_UINT32 with encoding {enc} has no branch", f.loc)
                continue
            a = [x for s in ub[key[0]] for x in walk_no_nested(s) if isinstance(x, ast.Assign) and
                 ast.unparse(x.targets[0]) == tgt]
            s = ast.unparse(a[-1].value) if a else ""
            ok = (helper is None and s == val) or (helper is not None and helper in s and
                                                   s.endswith(f"({val})"))
            if not ok and helper is not None:
                call_ok = bool(a) and isinstance(a[-1].value, ast.Call) and "bcd" in (
                    call_name(a[-1].value) or "") and a[-1].value.args and ast.unparse(
                        a[-1].value.args[0]) == val
                loop_ok = any(isinstance(x, ast.While) and _bcd_loop(x) is not None
                              for s_ in ub[key[0]] for x in ast.walk(s_))
                ok = call_ok or loop_ok
            if ok:
                run.ok(R, f.qual, f"A_UINT32/{enc}: {tgt} = {s}", f.loc)
            else:
                run.violation(R, f.qual, f"uint32-{enc}",
                              f"A_UINT32/{enc}: `{tgt} = {s}` is not "
                              f"{'the value itself' if helper is None else 'the ' + helper + ' conversion of ' + val}",
                              f.loc)


def _bcd_loop(loop: ast.While):
    """('enc'|'dec', step expression text) when the loop is a BCD digit loop, else None.
    enc: R |= (V % 10) << S ; S += step ; V //= 10      dec: R += (V & 15) * F ; F *= 10 ; V >>= step
    (recognised by operators and operands, whatever the variables are called)"""
    augs = [x for x in ast.walk(loop) if isinstance(x, ast.AugAssign)]
    by_op = {}
    for x in augs:
        by_op.setdefault(type(x.op).__name__, []).append(x)
    floordiv = [x for x in by_op.get("FloorDiv", []) if ast.unparse(x.value) == "10"]
    if floordiv and by_op.get("BitOr"):
        v = ast.unparse(floordiv[0].target)
        for o in by_op["BitOr"]:
            val = o.value
            if isinstance(val, ast.BinOp) and isinstance(val.op, ast.LShift) and \
                    " ".join(ast.unparse(val.left).split()) in (f"{v} % 10", f"({v} % 10)"):
                sh = ast.unparse(val.right)
                adds = [x for x in by_op.get("Add", []) if ast.unparse(x.target) == sh]
                if adds:
                    return "enc", ast.unparse(adds[0].value)
    mult = [x for x in by_op.get("Mult", []) if ast.unparse(x.value) == "10"]
    if mult and by_op.get("RShift"):
        fct = ast.unparse(mult[0].target)
        for rs in by_op["RShift"]:
            v = ast.unparse(rs.target)
            for o in by_op.get("Add", []):
                t_ = " ".join(ast.unparse(o.value).split())
                if t_ in (f"({v} & 15) * {fct}", f"{fct} * ({v} & 15)"):
                    return "dec", ast.unparse(rs.value)
    return None


def _bcd(prog: Program, run: Run) -> None:
    """Packed BCD moves 4 bits per decimal digit, unpacked BCD 8 -- wherever the digit loop
    lives (private helper per flavour, one parametrised helper, or inline)."""
    R = "C02.R1"
    for cls, main, want_kind in (("EncodeState", "emplace_atomic_value", "enc"),
                                 ("DecodeState", "extract_atomic_value", "dec")):
        ci = prog.cls(cls)
        mf = ci.methods[main]
        mcfg = CFG(mf.node)
        found = {"BCD_P": [], "BCD_UP": []}

        def flavour(conds) -> Optional[str]:
            txt = " ".join(ast.unparse(t) for t, pol in conds if pol)
            if "Encoding.BCD_UP" in txt and "Encoding.BCD_P" not in txt.replace(
                    "Encoding.BCD_UP", ""):
                return "BCD_UP"
            if "Encoding.BCD_P" in txt.replace("Encoding.BCD_UP", ""):
                return "BCD_P" if "Encoding.BCD_UP" not in txt else None
            return None
        # loops written inline in the main function
        for lp in [x for x in walk_no_nested(mf.node) if isinstance(x, ast.While)]:
            k = _bcd_loop(lp)
            if k and k[0] == want_kind:
                fl = flavour(mcfg.branch_conditions(mcfg.node_of(lp)))
                if fl:
                    found[fl].append((k[1], f"{mf.module.rel}:{lp.lineno}"))
        # loops in helpers, attributed through the call sites
        for nm, h in ci.methods.items():
            if h is mf:
                continue
            for lp in [x for x in walk_no_nested(h.node) if isinstance(x, ast.While)]:
                k = _bcd_loop(lp)
                if not k or k[0] != want_kind:
                    continue
                params = h.params()
                for c in [x for x in walk_no_nested(mf.node) if isinstance(x, ast.Call) and
                          isinstance(x.func, ast.Attribute) and x.func.attr in (
                              nm, f"_{cls}{nm}")]:
                    fl = flavour(mcfg.branch_conditions(mcfg.node_of(_stmt_of(mf.node, c))))
                    step = k[1]
                    if step in params:
                        bound = {kw.arg: ast.unparse(kw.value) for kw in c.keywords if kw.arg}
                        pos = [p_ for p_ in params if p_ not in ("self", "cls")]
                        for p_, a_ in zip(pos, c.args):
                            bound[p_] = ast.unparse(a_)
                        step = bound.get(step, step)
                    if fl:
                        found[fl].append((step, f"{h.module.rel}:{lp.lineno}"))
        for fl, want_step in (("BCD_P", "4"), ("BCD_UP", "8")):
            C = f"{cls}.{main}/{fl}"
            if not found[fl]:
                run.violation(R, C, "bcd-loop",
                              f"no {'encoding' if want_kind == 'enc' else 'decoding'} digit loop "
                              f"is reached for {fl}", mf.loc)
                continue
            bad = [(s_, l_) for s_, l_ in found[fl] if s_ != want_step]
            if bad:
                run.violation(R, C, "bcd-loop",
                              f"{fl}: the digit loop moves `{bad[0][0]}` bits per decimal digit, "
                              f"must be {want_step} (packed BCD uses 4 bits per digit, unpacked "
                              "BCD 8)", bad[0][1])
            else:
                run.ok(R, C, f"{fl}: {want_step} bits per decimal digit "
                       f"({len(found[fl])} site(s))", found[fl][0][1])


# ----------------------------------------------------------------------- R2
def _siblings(prog: Program, run: Run) -> None:
    R = "C02.R2"
    e = prog.func("EncodeState.emplace_atomic_value")
    d = prog.func("DecodeState.extract_atomic_value")
    pads = {}
    for f in (e, d):
        a = [x for x in walk_no_nested(f.node) if isinstance(x, ast.Assign) and ast.unparse(
            x.targets[0]) == "padding"]
        if not a:
            raise AnalysisError(f"{f.qual}: padding not found")
        pads[f.qual] = (normalize(a[0].value), a[0])
    want = normalize(ast.parse("(8 - (bit_length + self.cursor_bit_position) % 8) % 8",
                               mode="eval").body)
    for q, (nf, st) in pads.items():
        if nf.same(want):
            run.ok(R, q, "left padding = (8 - (bit_length + bit position) % 8) % 8",
                   f"{st.lineno}")
        else:
            run.violation(R, q, "padding-formula",
                          f"`{stmt_key(st)}` is not (8 - (bit_length + bit position) % 8) % 8: "
                          "the value is shifted relative to where the other side expects it",
                          f"{(e if 'Encode' in q else d).module.rel}:{st.lineno}", stmt_key(st))
    # byte reversal condition
    revs = {}
    for f in (e, d):
        for x in walk_no_nested(f.node):
            if isinstance(x, ast.If) and "is_highlow_byte_order" in ast.unparse(x.test):
                types = sorted({ch[-1] for n in ast.walk(x.test) for ch in [attr_chain(n)]
                                if ch and len(ch) == 2 and ch[0] == "DataType"})
                neg = isinstance(x.test, ast.BoolOp) and isinstance(x.test.op, ast.And) and any(
                    ast.unparse(v) == "not is_highlow_byte_order" for v in x.test.values) and \
                    len(x.test.values) == 2
                revs[f.qual] = (types, neg, x)
    want_types = ["A_FLOAT32", "A_FLOAT64", "A_INT32", "A_UINT32"]
    for q, (types, neg, x) in revs.items():
        f = e if "Encode" in q else d
        if types == want_types and neg:
            run.ok(R, q, "bytes are reversed iff low-high byte order and a numeric base type",
                   f"{f.module.rel}:{x.lineno}")
        else:
            run.violation(R, q, "byte-reversal-condition",
                          f"bytes are reversed under `{ast.unparse(x.test)}`; ODX: only for the "
                          "numeric types INT32/UINT32/FLOAT32/FLOAT64 with low-high byte order",
                          f"{f.module.rel}:{x.lineno}", ast.unparse(x.test))
    if len(revs) != 2:
        raise AnalysisError("byte reversal not found in both functions")
    # encoder: data and mask reversed together, mask shifted before
    xe = revs[e.qual][2]
    body_t = [ast.unparse(s) for s in xe.body]
    if "coded = coded[::-1]" in body_t and "used_mask_raw = used_mask_raw[::-1]" in body_t:
        run.ok(R, e.qual, "data and used-bit mask are byte-reversed together",
               f"{e.module.rel}:{xe.lineno}")
    else:
        run.violation(R, e.qual, "mask-not-reversed",
                      "the used-bit mask is not byte-reversed together with the data",
                      f"{e.module.rel}:{xe.lineno}")
    cfg = CFG(e.node)
    # the mask variable is what is handed to emplace_bytes as obj_used_mask
    mask_var = "used_mask_raw"
    for x in walk_no_nested(e.node):
        if isinstance(x, ast.Call) and call_name(x) == "emplace_bytes":
            for k in x.keywords:
                if k.arg == "obj_used_mask" and isinstance(k.value, ast.Name):
                    mask_var = k.value.id
    shifts = [x for x in walk_no_nested(e.node) if isinstance(x, ast.If) and
              "cursor_bit_position" in ast.unparse(x.test) and any(
                  isinstance(y, ast.Name) and y.id == mask_var and isinstance(y.ctx, ast.Store)
                  for s_ in x.body for y in ast.walk(s_))]
    if not shifts:
        run.violation(R, e.qual, "mask-not-shifted",
                      "the used-bit mask is not shifted to the bit position", e.loc)
    else:
        sh = shifts[0]
        if cfg.dominates(cfg.node_of(sh), cfg.node_of(xe)):
            run.ok(R, e.qual, "the mask is shifted to the bit position before byte order is "
                   "applied", f"{e.module.rel}:{sh.lineno}")
        else:
            run.violation(R, e.qual, "mask-shift-after-reversal",
                          "the used-bit mask is shifted to the bit position *after* data and mask "
                          "have been byte-reversed: for little-endian values at a non-zero bit "
                          "position the mask no longer covers the bits of the value, neighbouring "
                          "parameters in the same bytes are overwritten",
                          f"{e.module.rel}:{sh.lineno}", stmt_key(sh))
        w1 = normalize(ast.parse("(self.cursor_bit_position + bit_length + 7) // 8",
                                 mode="eval").body)
        # symbolically: mask' = (int.from_bytes(mask, "big") << bit position).to_bytes(w1, "big")
        width_ok = False
        try:
            sp = symbolic_block_paths(sh.body)
        except AnalysisError:
            sp = []
        for p_ in sp:
            v = p_.env.get(mask_var)
            if isinstance(v, ast.Call) and call_name(v) == "to_bytes" and v.args and isinstance(
                    v.func, ast.Attribute) and normalize(v.args[0]).same(w1):
                inner_ = v.func.value
                if isinstance(inner_, ast.BinOp) and isinstance(inner_.op, ast.LShift) and \
                        ast.unparse(inner_.right) == "self.cursor_bit_position" and isinstance(
                            inner_.left, ast.Call) and call_name(inner_.left) == "from_bytes" and \
                        inner_.left.args and ast.unparse(inner_.left.args[0]) == mask_var:
                    width_ok = True
                    continue
            width_ok = False
            break
        if sp and width_ok:
            run.ok(R, e.qual, "shifted mask is (bit position + bit_length + 7)//8 bytes wide",
                   f"{e.module.rel}:{sh.lineno}")
        else:
            run.violation(R, e.qual, "mask-shift-width",
                          "the shifted mask does not have (bit position + bit_length + 7)//8 bytes",
                          f"{e.module.rel}:{sh.lineno}")
    # byte length: decoder vs static-length function vs ADVANCE of Reserved / NrcConst
    bl = [x for x in walk_no_nested(d.node) if isinstance(x, ast.Assign) and ast.unparse(
        x.targets[0]) == "byte_length"]
    wantb = normalize(ast.parse("(N + B + 7) // 8", mode="eval").body)

    def sub_env(n_expr: str, b_exprs: Set[str]):
        def env(node: ast.AST):
            s = ast.unparse(node)
            if s == n_expr:
                return Rat(Poly.atom("N"))
            if s in b_exprs:
                return Rat(Poly.atom("B"))
            return None
        return env
    if bl and normalize(bl[0].value, sub_env("bit_length", {"self.cursor_bit_position"})).same(
            wantb):
        run.ok(R, d.qual, "consumed bytes = (bit_length + bit position + 7) // 8",
               f"{d.module.rel}:{bl[0].lineno}")
    else:
        run.violation(R, d.qual, "byte-length-formula",
                      "consumed bytes are not (bit_length + bit position + 7) // 8", d.loc)
    g = prog.func("odxtools.codec:composite_codec_get_static_bit_length")
    adv = [x for x in walk_no_nested(g.node) if isinstance(x, ast.AugAssign) and ast.unparse(
        x.target) == "cursor"]
    if adv and normalize(adv[0].value, sub_env("param_bit_length", {
            "param.bit_position or 0", "(param.bit_position or 0)"})).same(wantb):
        run.ok(R, g.qual, "static length advances by ((bit_position or 0) + n + 7) // 8 per "
               "parameter — the decoder's formula", f"{g.module.rel}:{adv[0].lineno}")
    else:
        run.violation(R, g.qual, "static-byte-length-formula",
                      f"`{stmt_key(adv[0]) if adv else '?'}` is not ((bit_position or 0) + "
                      "param_bit_length + 7) // 8: the static length of a message disagrees "
                      "with what encoding it produces (e.g. operator precedence of `or`)",
                      f"{g.module.rel}:{adv[0].lineno if adv else g.node.lineno}",
                      stmt_key(adv[0]) if adv else "")
    for cls, nexpr in (("ReservedParameter", "self.bit_length"), ("NrcConstParameter", "bit_len")):
        f = prog.func(f"{cls}._encode_positioned_into_pdu")
        adv = [x for x in walk_no_nested(f.node) if isinstance(x, ast.AugAssign) and
               "cursor_byte_position" in ast.unparse(x.target)]
        # the amount may be held in a local (whatever it is called) computed just before
        from .common import resolve_locals as _rl
        amt = adv[0].value if adv else None
        if isinstance(amt, ast.Name):
            amt = _rl(f.node, amt, depth=1)
        if adv and (normalize(adv[0].value, sub_env(nexpr, {"encode_state.cursor_bit_position",
                                                            "bit_pos"})).same(wantb) or
                    normalize(amt, sub_env(nexpr, {"encode_state.cursor_bit_position",
                                                   "bit_pos"})).same(wantb)):
            run.ok(R, f.qual, "the skipped bytes equal what the decoder consumes",
                   f"{f.module.rel}:{adv[0].lineno}")
        else:
            run.violation(R, f.qual, "advance-formula",
                          "the encoder skips a different number of bytes than the decoder "
                          "consumes for this parameter", f.loc)
    _atomic_sites(prog, run, R)
    _sized_extent(prog, run, R)


def _sized_extent(prog: Program, run: Run, R: str = "C02.R2") -> None:
    """BYTE-SIZE: the extent of a structure is measured from the cursor position at which the
    structure starts (saved before its content is processed), in encoder and decoder alike."""
    for nm, callee in (("encode_into_pdu", "composite_codec_encode_into_pdu"),
                       ("decode_from_pdu", "composite_codec_decode_from_pdu")):
        f = prog.func(f"BasicStructure.{nm}")
        C = f"BasicStructure.{nm}"
        state = f.params()[-1]
        cfg = CFG(f.node)
        calls = [x for x in walk_no_nested(f.node) if isinstance(x, ast.Call) and
                 call_name(x) == callee]
        subs = [x for x in walk_no_nested(f.node) if isinstance(x, ast.BinOp) and isinstance(
            x.op, ast.Sub) and ast.unparse(x.left) == f"{state}.cursor_byte_position" and
            isinstance(x.right, ast.Name)]
        if not calls or not subs:
            raise AnalysisError(f"{C}: content call / extent computation not found")
        call_node = cfg.node_of(_stmt_of(f.node, calls[0]))
        for sb in subs:
            base = sb.right.id
            defs = [x for x in walk_no_nested(f.node) if isinstance(x, ast.Assign) and
                    ast.unparse(x.targets[0]) == base]
            good = len(defs) == 1 and ast.unparse(defs[0].value) == \
                f"{state}.cursor_byte_position" and cfg.dominates(cfg.node_of(defs[0]), call_node)
            if good:
                run.ok(R, C, f"extent = cursor - `{base}`, where `{base}` is the cursor saved "
                       "before the content is processed", f"{f.module.rel}:{sb.lineno}")
            else:
                src = ast.unparse(defs[0].value) if defs else "?"
                run.violation(R, C, "extent-base",
                              f"the extent of the structure is measured from `{base} = {src}`, "
                              "not from the cursor position at which the structure starts: a "
                              "sized structure that does not begin at its parent's origin is "
                              "padded / skipped by the wrong number of bytes",
                              f"{f.module.rel}:{sb.lineno}", stmt_key(defs[0]) if defs else "")


def _stmt_of(fn: ast.AST, x: ast.AST) -> ast.stmt:
    best = None
    for st in walk_no_nested(fn):
        if isinstance(st, ast.stmt) and st is not fn and not isinstance(
                st, (ast.If, ast.For, ast.While, ast.Try, ast.With)) and any(
                    z is x for z in ast.walk(st)):
            best = st
    if best is None:
        raise AnalysisError("expression without simple statement")
    return best


def _byte_length_of_value(prog: Program, run: Run, R: str = "C02.R5") -> None:
    """DiagCodedType._minimal_byte_length_of feeds the LEADING-LENGTH field: per base data type it
    must be the length of the value's ENCODED bytes (len(bytes(v, codec)) / len(v.encode(codec))),
    with a two-byte code unit codec for A_UNICODE2STRING -- never a count of characters (one
    character outside the basic plane takes four bytes)."""
    from ..absint import eval_test
    from ..cfg import symbolic_paths
    f = prog.func("DiagCodedType._minimal_byte_length_of")
    v = f.params()[1]
    paths = symbolic_paths(f.node)
    table = {"A_BYTEFIELD": "raw", "A_ASCIISTRING": "8", "A_UTF8STRING": "8",
             "A_UNICODE2STRING": "16"}
    for t, want in table.items():
        env = {"self.base_data_type": f"DataType.{t}"}

        def leaf(x: ast.AST):
            if isinstance(x, ast.Call) and call_name(x) == "isinstance":
                return True
            return None
        outs = set()
        for p_ in paths:
            if not all(eval_test(c, env, leaf) in (None, pol) for c, pol in p_.conds):
                continue
            e = p_.retval
            kind = "?" + (ast.unparse(e) if e is not None else "None")
            if isinstance(e, ast.Call) and call_name(e) == "len" and len(e.args) == 1:
                a = e.args[0]
                if isinstance(a, ast.Name) and a.id == v:
                    kind = "raw"
                elif isinstance(a, ast.Call) and a.args and (
                        (call_name(a) in ("bytes", "bytearray") and len(a.args) == 2 and
                         ast.unparse(a.args[0]) == v) or
                        (call_name(a) == "encode" and isinstance(a.func, ast.Attribute) and
                         ast.unparse(a.func.value) == v)):
                    codec = a.args[-1]
                    ctxt = str(codec.value).lower() if isinstance(codec, ast.Constant) else ""
                    kind = "16" if "16" in ctxt or "ucs" in ctxt else (
                        "8" if ctxt else "codec")
            outs.add(kind)
        if outs == {want} or (want == "8" and outs == {"codec"}):
            run.ok(R, "DiagCodedType._minimal_byte_length_of",
                   f"{t}: length of the {'bytes' if want == 'raw' else 'encoded bytes'}", f.loc)
        else:
            run.violation(R, "DiagCodedType._minimal_byte_length_of", f"byte-length-{t}",
                          f"for {t} the byte length is computed as {sorted(outs)}, not as the "
                          "length of the encoded bytes"
                          + (" in a 16-bit code unit codec" if want == "16" else "")
                          + ": the LEADING-LENGTH field disagrees with the bytes that follow "
                          "for values whose characters are not one code unit each", f.loc)


def _const_eval(e: ast.AST, env: Dict[str, object]):
    """evaluate a small constant-building expression (bytes([..]), [x] * n, conditional
    expressions on the scenario) -- raises ValueError on anything else"""
    from ..absint import eval_test
    if isinstance(e, ast.Constant):
        return e.value
    if isinstance(e, (ast.List, ast.Tuple)):
        return [_const_eval(x, env) for x in e.elts]
    if isinstance(e, ast.BinOp) and isinstance(e.op, (ast.Mult, ast.Add)):
        l, r = _const_eval(e.left, env), _const_eval(e.right, env)
        return l * r if isinstance(e.op, ast.Mult) else l + r
    if isinstance(e, ast.IfExp):
        c = eval_test(e.test, env)
        if c is None:
            raise ValueError(ast.unparse(e.test))
        return _const_eval(e.body if c else e.orelse, env)
    if isinstance(e, ast.Call) and call_name(e) in ("bytes", "bytearray") and len(e.args) == 1:
        return bytes(_const_eval(e.args[0], env))
    if isinstance(e, (ast.Name, ast.Attribute)) and ast.unparse(e) in env:
        return env[ast.unparse(e)]
    raise ValueError(ast.unparse(e))


def _terminator_width(prog: Program, run: Run, R: str = "C02.R5") -> None:
    """The terminator is one code unit of the BASE DATA TYPE: two bytes exactly for
    A_UNICODE2STRING, whatever BASE-TYPE-ENCODING says; 0x00 for ZERO, 0xFF for HEX-FF, nothing
    for END-OF-PDU. Decided as a table over (termination, base type, encoding) on the symbolic
    returns of the helper."""
    from ..absint import eval_test
    from ..cfg import symbolic_returns
    ci = prog.cls("MinMaxLengthType")
    f = None
    for nm, m in ci.methods.items():
        if nm.endswith("termination_sequence"):
            f = m
    if f is None:
        raise AnalysisError("MinMaxLengthType.__termination_sequence not found")
    rets = symbolic_returns(f.node)
    bad: Dict[str, str] = {}
    n = 0
    for term, byte in (("ZERO", 0), ("HEX_FF", 255), ("END_OF_PDU", None)):
        for dt in ("A_UNICODE2STRING", "A_ASCIISTRING", "A_UTF8STRING", "A_BYTEFIELD"):
            for enc in (None, "Encoding.UCS2", "Encoding.UTF8", "Encoding.ISO_8859_1"):
                env = {"self.termination": f"Termination.{term}",
                       "self.base_data_type": f"DataType.{dt}", "self.base_type_encoding": enc}
                want = b"" if byte is None else bytes([byte]) * (
                    2 if dt == "A_UNICODE2STRING" else 1)
                got = set()
                for conds, e, _r in rets:
                    if all(eval_test(t, env) in (None, pol) for t, pol in conds):
                        try:
                            got.add(_const_eval(e, env) if e is not None else None)
                        except (ValueError, TypeError) as ex:
                            got.add(f"?{ex}")
                n += 1
                if got != {want}:
                    by_enc = dt != "A_UNICODE2STRING" and enc == "Encoding.UCS2" or (
                        dt == "A_UNICODE2STRING" and enc != "Encoding.UCS2")
                    key = "terminator-width-by-encoding" if by_enc and any(
                        isinstance(g, bytes) for g in got) else "terminator-width"
                    bad.setdefault(key, f"termination {term}, {dt}, encoding "
                                   f"{enc or 'not given'}: the terminator is "
                                   f"{sorted(map(repr, got))}, expected {want!r}")
    if not bad:
        run.ok(R, f.qual, f"terminator byte and width are right in all {n} combinations of "
               "termination, base type and encoding (two bytes exactly for A_UNICODE2STRING)",
               f.loc)
    for key, msg in sorted(bad.items()):
        run.violation(R, f.qual, key, msg + (
            ": the width of the terminator depends on BASE-TYPE-ENCODING, so encoder / decoder "
            "disagree with the ODX layout" if key.endswith("encoding") else
            ": the terminator must be one code unit of the base data type"), f.loc)


def _atomic_sites(prog: Program, run: Run, R: str = "C02.R2") -> None:
    """Every call of the two atomic primitives passes the whole description explicitly, and the
    encoder and the decoder of one class describe the value the same way."""
    KW = ("bit_length", "base_data_type", "base_type_encoding", "is_highlow_byte_order")
    for spec in ("EncodeState.emplace_atomic_value", "DecodeState.extract_atomic_value"):
        f = prog.func(spec)
        a = f.node.args
        kwo = {x.arg: d for x, d in zip(a.kwonlyargs, a.kw_defaults)}
        pos = [x.arg for x in a.args]
        npos_def = len(a.defaults)
        for k in KW:
            has_default = (k in kwo and kwo[k] is not None) or (
                k in pos and pos.index(k) >= len(pos) - npos_def)
            if has_default:
                run.violation(R, spec, f"default-{k}",
                              f"`{k}` has a default value: a call site that forgets it silently "
                              "encodes / decodes with the default instead of the object's "
                              "description", f.loc)
            else:
                run.ok(R, spec, f"`{k}` must be given by every caller", f.loc)
    sites: Dict[str, Dict[str, List[Tuple[ast.Call, Dict[str, str]]]]] = {}
    n = 0
    for f in prog.iter_functions():
        if not f.module.rel.startswith("odxtools/"):
            continue
        for x in walk_no_nested(f.node):
            if isinstance(x, ast.Call) and call_name(x) in ("emplace_atomic_value",
                                                            "extract_atomic_value"):
                n += 1
                kws = {k.arg: " ".join(ast.unparse(k.value).split()) for k in x.keywords if k.arg}
                where = f"{f.module.rel}:{x.lineno}"
                missing = [k for k in KW if k not in kws]
                if missing:
                    run.violation(R, f.qual, f"site-omits-{missing[0]}",
                                  f"`{call_name(x)}(...)` does not pass {missing}: the value is "
                                  "coded with a default instead of this object's description "
                                  "(the sibling direction passes it)", where)
                else:
                    run.ok(R, f.qual, f"{call_name(x)} gets the full description", where)
                if f.cls is not None:
                    sites.setdefault(f.cls.name, {}).setdefault(call_name(x), []).append((x, kws))
    if n < 10:
        run.error(R, f"only {n} call sites of the atomic primitives found")
    for cname, d in sorted(sites.items()):
        enc = [k for _c, k in d.get("emplace_atomic_value", [])
               if k.get("base_data_type") == "self.base_data_type"]
        dec = [k for _c, k in d.get("extract_atomic_value", [])
               if k.get("base_data_type") == "self.base_data_type"]
        if not enc or not dec:
            # all value sites of one direction must still agree among themselves
            for grp in (enc, dec):
                tup = {(k.get("base_type_encoding"), k.get("is_highlow_byte_order")) for k in grp}
                if len(tup) > 1:
                    run.violation(R, cname, "value-sites-disagree",
                                  f"the value is described differently at different call sites: "
                                  f"{sorted(map(str, tup))}", d[next(iter(d))][0][0].lineno and
                                  prog.cls(cname).loc)
            continue
        te = {(k.get("base_type_encoding"), k.get("is_highlow_byte_order")) for k in enc}
        td = {(k.get("base_type_encoding"), k.get("is_highlow_byte_order")) for k in dec}
        if te == td and len(te) == 1:
            run.ok(R, cname, "encoder and decoder pass the same (encoding, byte order) for the "
                   f"value: {sorted(te)[0]}", prog.cls(cname).loc)
        else:
            run.violation(R, cname, "encoder-decoder-description",
                          f"the encoder codes the value with (encoding, byte order) = "
                          f"{sorted(map(str, te))}, the decoder with {sorted(map(str, td))}: the "
                          "bytes written are not the bytes read", prog.cls(cname).loc)


# ----------------------------------------------------------------------- R3
def _single_writer(prog: Program, run: Run) -> None:
    R = "C02.R3"
    n = 0
    bad = False
    for f in prog.iter_functions():
        if f.cls is not None and f.cls.name == "EncodeState":
            continue
        for x in walk_no_nested(f.node):
            tg: List[ast.AST] = []
            if isinstance(x, ast.Assign):
                tg = list(x.targets)
            elif isinstance(x, (ast.AugAssign, ast.AnnAssign)):
                tg = [x.target]
            elif isinstance(x, ast.Delete):
                tg = list(x.targets)
            for t in tg:
                base = t.value if isinstance(t, ast.Subscript) else t
                if isinstance(base, ast.Attribute) and base.attr in ("coded_message",
                                                                     "used_mask") and \
                        isinstance(base.value, ast.Name) and base.value.id in ("encode_state",
                                                                               "state"):
                    bad = True
                    run.violation(R, f"{f.module.rel}:{f.qual}", f"foreign-writer-{base.attr}",
                                  f"`{stmt_key(x)}` writes the PDU outside EncodeState: the "
                                  "used-bit accounting and the overlap warning are bypassed",
                                  f"{f.module.rel}:{x.lineno}", stmt_key(x))
            if isinstance(x, ast.Call) and isinstance(x.func, ast.Attribute) and x.func.attr in (
                    "extend", "append", "insert", "__setitem__", "clear", "pop") and isinstance(
                        x.func.value, ast.Attribute) and x.func.value.attr in (
                            "coded_message", "used_mask") and isinstance(
                                x.func.value.value, ast.Name) and x.func.value.value.id == \
                    "encode_state":
                bad = True
                run.violation(R, f"{f.module.rel}:{f.qual}", f"foreign-writer-{x.func.value.attr}",
                              f"`{ast.unparse(x)}` mutates the PDU outside EncodeState",
                              f"{f.module.rel}:{x.lineno}")
        n += 1
    if not bad:
        run.ok(R, "package", f"no function outside EncodeState writes coded_message / used_mask "
               f"({n} functions scanned)", "odxtools/encodestate.py")
    f = prog.func("EncodeState.emplace_bytes")
    s = ast.unparse(f.node)
    checks = [
        ("self.used_mask[pos + i] |= obj_used_mask[i]", "used-mask-not-accumulated",
         "claimed bits accumulate with OR (a byte remembers every object that used it)",
         "the used mask of a byte is not accumulated with `|=`: it only remembers the most recent "
         "object, so a later overlap with an earlier object's bits goes unwarned"),
        ("self.coded_message[pos + i] &= ~obj_used_mask[i]", "bits-not-cleared",
         "the object's bits are cleared before being set", "the object's bits are not cleared "
         "before the new data is ORed in"),
        ("self.coded_message[pos + i] |= new_data[i] & obj_used_mask[i]", "data-not-masked",
         "only the object's own bits are written", "bits outside the object's mask are written"),
        ("self.used_mask[pos:pos + n] = b'\\xff' * n", "happy-path-mask",
         "unmasked objects claim whole bytes", "unmasked objects do not claim their bytes"),
        ("self.cursor_byte_position += len(new_data)", "cursor-advance",
         "the cursor advances by the emplaced length", "the cursor does not advance by the "
         "emplaced length"),
    ]
    for frag, key, good, badmsg in checks:
        if frag in s:
            run.ok(R, "EncodeState.emplace_bytes", good, f.loc)
        else:
            run.violation(R, "EncodeState.emplace_bytes", key, badmsg + f" (expected `{frag}`)",
                          f.loc)
    warns = [x for x in walk_no_nested(f.node) if isinstance(x, ast.If) and any(
        isinstance(b, ast.Expr) and isinstance(b.value, ast.Call) and call_name(b.value) == "warn"
        and "OdxWarning" in ast.unparse(b.value) for b in x.body)]
    tests = sorted(norm_test(w.test) for w in warns)
    want = sorted([
        norm_test(ast.parse("self.used_mask[pos + i] & obj_used_mask[i] != 0", mode="eval").body),
        norm_test(ast.parse("self.used_mask[pos:pos + n] != b'\\x00' * n", mode="eval").body)])
    if tests == want:
        run.ok(R, "EncodeState.emplace_bytes", "OdxWarning exactly when already-used bits "
               "intersect the object's bits", f.loc)
    else:
        run.violation(R, "EncodeState.emplace_bytes", "overlap-warning-condition",
                      f"the overlap warning is issued under {tests}, expected {want}", f.loc)
    # growth: both buffers are extended by the same run of zero bytes
    grown = {}
    for x in walk_no_nested(f.node):
        if isinstance(x, ast.AugAssign) and isinstance(x.op, ast.Add) and ast.unparse(
                x.target) in ("self.coded_message", "self.used_mask"):
            v = common.resolve_locals(f.node, x.value)
            zero = isinstance(v, ast.BinOp) and isinstance(v.op, ast.Mult) and any(
                isinstance(o, ast.Constant) and o.value == b"\x00" for o in (v.left, v.right))
            grown[ast.unparse(x.target)] = ast.unparse(v) if zero else None
        if isinstance(x, ast.Call) and call_name(x) == "extend" and isinstance(
                x.func, ast.Attribute) and ast.unparse(x.func.value) in (
                    "self.coded_message", "self.used_mask") and x.args:
            v = common.resolve_locals(f.node, x.args[0])
            zero = isinstance(v, ast.BinOp) and isinstance(v.op, ast.Mult) and any(
                isinstance(o, ast.Constant) and o.value == b"\x00" for o in (v.left, v.right))
            grown[ast.unparse(x.func.value)] = ast.unparse(v) if zero else None
    if set(grown) == {"self.coded_message", "self.used_mask"} and None not in grown.values() and \
            len(set(grown.values())) == 1:
        run.ok(R, "EncodeState.emplace_bytes", "the PDU grows by zero bytes that are marked "
               "unused", f.loc)
    else:
        run.violation(R, "EncodeState.emplace_bytes", "growth",
                      "when the PDU has to grow it is not extended by zero bytes marked unused",
                      f.loc)


def mask_byte_order(prog: Program, run: Run, R: str) -> None:
    """BIT-MASK on byte fields: StandardLengthType converts the bytes to an integer, masks and
    converts back. A byte field has no byte order (emplace / extract copy it as it is), so every
    from_bytes / to_bytes in the mask helpers uses one and the same CONSTANT order -- in the
    encoding and in the decoding direction alike."""
    ci = prog.cls("StandardLengthType")
    fs = [m for n, m in ci.methods.items() if n.endswith("apply_mask")]
    if len(fs) < 2:
        raise AnalysisError("StandardLengthType: mask helpers not found")
    orders = []
    for m in fs:
        for x in walk_no_nested(m.node):
            if isinstance(x, ast.Call) and call_name(x) in ("from_bytes", "to_bytes"):
                a = x.args[1] if len(x.args) > 1 else next(
                    (k.value for k in x.keywords if k.arg == "byteorder"), None)
                orders.append((m, x, a))
    if len(orders) < 4:
        raise AnalysisError(f"StandardLengthType mask helpers: only {len(orders)} conversions")
    consts = {a.value for _m, _x, a in orders if isinstance(a, ast.Constant)}
    for m, x, a in orders:
        C = f"StandardLengthType.{m.name}"
        if not isinstance(a, ast.Constant) or len(consts) != 1:
            run.violation(R, C, "mask-byte-order",
                          f"`{ast.unparse(x)}`: the byte order used for masking a byte field is "
                          f"`{ast.unparse(a) if a is not None else 'the default'}`; byte fields "
                          "are stored as given, so mask and value only line up when every "
                          f"conversion uses the same constant order (seen: {sorted(map(str, consts))})",
                          f"{m.module.rel}:{x.lineno}", ast.unparse(x))
        else:
            run.ok(R, C, f"masking converts byte fields with the constant order {a.value!r}",
                   f"{m.module.rel}:{x.lineno}")


def _emplace_alignment(prog: Program, run: Run, R: str = "C02.R3") -> None:
    """EncodeState.emplace_bytes insists on cursor_bit_position == 0 (it reports a RuntimeError
    otherwise). Every caller that moves the bit cursor to a parameter's BIT-POSITION must
    therefore reset it before the call: on no path may an assignment of a possibly non-zero bit
    position reach an emplace_bytes call without passing a reset to 0."""
    n = 0
    for f in prog.iter_functions():
        calls = [x for x in walk_no_nested(f.node) if isinstance(x, ast.Call) and
                 call_name(x) == "emplace_bytes"]
        if not calls or f.name == "emplace_bytes":
            continue
        sets = [x for x in walk_no_nested(f.node) if isinstance(x, ast.Assign) and any(
            isinstance(t, ast.Attribute) and t.attr == "cursor_bit_position" for t in x.targets)]
        if not sets:
            continue
        cfg = CFG(f.node)
        zero = [cfg.node_of(x) for x in sets if isinstance(x.value, ast.Constant) and
                x.value.value == 0]
        nonzero = [x for x in sets if not (isinstance(x.value, ast.Constant) and
                                           x.value.value == 0)]
        for c in calls:
            st = None
            for s_ in walk_no_nested(f.node):
                if isinstance(s_, ast.stmt) and not isinstance(
                        s_, (ast.If, ast.For, ast.While, ast.Try, ast.With)) and any(
                            z is c for z in ast.walk(s_)):
                    st = s_
            if st is None:
                continue
            cn = cfg.node_of(st)
            n += 1
            bad = [d for d in nonzero if cn in cfg.reachable(cfg.node_of(d), blocked=zero)]
            if bad:
                run.violation(R, f.qual, "emplace-bytes-misaligned",
                              f"`{stmt_key(bad[0])}` reaches `{stmt_key(st)[:60]}` without the "
                              "bit cursor being reset to 0: for a parameter with a non-zero "
                              "BIT-POSITION emplace_bytes reports a RuntimeError instead of "
                              "encoding the message", f"{f.module.rel}:{st.lineno}",
                              stmt_key(st))
            else:
                run.ok(R, f.qual, "emplace_bytes is reached with the bit cursor reset to 0",
                       f"{f.module.rel}:{st.lineno}")
    if n < 2:
        raise AnalysisError("emplace_bytes callers that position the bit cursor not found")


def _emplace_paths(prog: Program, run: Run, R: str = "C02.R3") -> None:
    """Every returning path of emplace_bytes passes the growth test and the cursor advance: an
    empty object (RESERVED / NRC-CONST padding) still extends the PDU up to the cursor."""
    f = prog.func("EncodeState.emplace_bytes")
    cfg = CFG(f.node)
    grow = []
    adv = []
    for node in cfg.nodes:
        if node.stmt is None:
            continue
        if node.kind == "if" and "len(self.coded_message)" in ast.unparse(node.expr) and any(
                isinstance(b, ast.AugAssign) and ast.unparse(b.target) == "self.coded_message"
                for b in node.stmt.body):
            grow.append(node.id)
        if node.kind == "stmt" and isinstance(node.stmt, ast.AugAssign) and ast.unparse(
                node.stmt.target) == "self.cursor_byte_position":
            adv.append(node.id)
    for ids, key, what in ((grow, "growth-skipped", "the test that extends the PDU up to "
                            "cursor + len(data)"),
                           (adv, "advance-skipped", "the cursor advance")):
        if not ids:
            run.violation(R, "EncodeState.emplace_bytes", key.replace("skipped", "missing"),
                          f"{what} was not found", f.loc)
        elif cfg.must_pass(0, ids, EXIT):
            run.ok(R, "EncodeState.emplace_bytes", f"every returning path passes {what}", f.loc)
        else:
            run.violation(R, "EncodeState.emplace_bytes", key,
                          f"there is a returning path that bypasses {what}: an empty object "
                          "placed behind the current end (RESERVED or NRC-CONST padding, BYTE-SIZE "
                          "padding) no longer extends the PDU, so it is shorter than its static "
                          "length", f.loc)


# ----------------------------------------------------------------------- R4
def _backend(prog: Program, run: Run) -> None:
    R = "C02.R4"
    for modname in ("odxtools.encodestate", "odxtools.decodestate"):
        m = prog.module(modname)
        ok = False
        for st in m.tree.body:
            if isinstance(st, ast.Try):
                b = [ast.unparse(s) for s in st.body]
                h = [ast.unparse(s) for hh in st.handlers for s in hh.body]
                ht = [ast.unparse(hh.type) for hh in st.handlers if hh.type is not None]
                if b == ["import bitstruct.c as bitstruct"] and h == ["import bitstruct"] and \
                        ht == ["ImportError"]:
                    ok = True
        if ok:
            run.ok(R, m.rel, "bitstruct.c with fall-back to bitstruct on ImportError", m.rel)
        else:
            run.violation(R, m.rel, "backend-binding",
                          "bitstruct is not bound through `try: import bitstruct.c as bitstruct "
                          "/ except ImportError: import bitstruct`", m.rel)
        used = sorted({x.func.attr for x in ast.walk(m.tree) if isinstance(x, ast.Call) and
                       isinstance(x.func, ast.Attribute) and isinstance(x.func.value, ast.Name)
                       and x.func.value.id == "bitstruct"})
        if set(used) <= {"pack", "unpack_from"}:
            run.ok(R, m.rel, f"only {used} of the bitstruct API is used (present in both "
                   "backends)", m.rel)
        else:
            run.violation(R, m.rel, "backend-api",
                          f"uses bitstruct.{set(used) - {'pack', 'unpack_from'}}, which the C "
                          "backend may not provide identically", m.rel)
    # format strings built from the data type's format letter
    e = prog.func("EncodeState.emplace_atomic_value")
    d = prog.func("DecodeState.extract_atomic_value")
    for f in (e, d):
        calls = [x for x in walk_no_nested(f.node) if isinstance(x, ast.Call) and call_name(x) in (
            "pack", "unpack_from") and isinstance(x.func, ast.Attribute) and ast.unparse(
                x.func.value).split(".")[0] == "bitstruct"]
        s = ast.unparse(calls[0].args[0]) if calls else ""
        src = ast.unparse(f.node)
        if calls and "bit_length" in s and ("format_char" in s or "bitstruct_format_letter" in s) \
                and "bitstruct_format_letter" in src:
            run.ok(R, f.qual, "format = [padding] + type letter + bit_length", f.loc)
        else:
            run.violation(R, f.qual, "format-string",
                          f"the bitstruct format `{s}` is not built from the base type's format "
                          "letter and bit_length", f.loc)


# ----------------------------------------------------------------------- R5
def _strings(prog: Program, run: Run) -> None:
    R = "C02.R5"
    f = prog.func("odxtools.encoding:get_string_encoding")
    cfg = CFG(f.node)
    # the decision table, evaluated for every (string type, encoding, byte order): independent
    # of how the chain is written (elif order, merged tests, conditional expressions)
    from ..absint import select_path
    from ..cfg import symbolic_returns
    paths = symbolic_returns(f.node)
    pt, pe, pb = f.params()[0], f.params()[1], f.params()[2]

    def spec(t: str, e: str, hl: bool) -> Optional[str]:
        if e == "Encoding.UTF8" or (t == "DataType.A_UTF8STRING" and e is None):
            return "utf-8"
        if e == "Encoding.UCS2" or (t == "DataType.A_UNICODE2STRING" and e is None):
            return "utf-16-be" if hl else "utf-16-le"
        if e == "Encoding.ISO_8859_1" or (t == "DataType.A_ASCIISTRING" and e is None):
            return "iso-8859-1"
        if e == "Encoding.ISO_8859_2":
            return "iso-8859-2"
        if e == "Encoding.WINDOWS_1252":
            return "cp1252"
        return None
    bad: Dict[str, str] = {}
    n_ok = 0
    for t in ("DataType.A_UTF8STRING", "DataType.A_ASCIISTRING", "DataType.A_UNICODE2STRING"):
        for e in (None, "Encoding.UTF8", "Encoding.UCS2", "Encoding.ISO_8859_1",
                  "Encoding.ISO_8859_2", "Encoding.WINDOWS_1252"):
            for hl in (True, False):
                sel = select_path(paths, {pt: t, pe: e, pb: hl})
                got = None
                if sel is not None and isinstance(sel[1], ast.Constant):
                    got = sel[1].value
                want_v = spec(t, e, hl)
                if got == want_v:
                    n_ok += 1
                else:
                    k = f"{(e or 'no encoding').split('.')[-1]}/{t.split('.')[-1]}"
                    bad.setdefault(k, f"({t.split('.')[-1]}, {e}, "
                                   f"{'high-low' if hl else 'low-high'}) maps to {got!r}, ODX "
                                   f"prescribes {want_v!r}")
    if not bad:
        run.ok(R, "get_string_encoding", f"all {n_ok} combinations of string type, encoding and "
               "byte order map to the codec ODX prescribes", f.loc)
    for k, msg in sorted(bad.items()):
        run.violation(R, "get_string_encoding", f"codec-{k}", msg, f.loc)
    for k in ("UTF8/A_UTF8STRING", "UCS2/A_UNICODE2STRING", "ISO_8859_1/A_ASCIISTRING",
              "ISO_8859_2", "WINDOWS_1252"):
        if not any(b_.startswith(k.split("/")[0]) for b_ in bad):
            run.ok(R, "get_string_encoding", f"{k}: as prescribed", f.loc)
    # both directions use the same helper with the same arguments
    for q in ("EncodeState.emplace_atomic_value", "DecodeState.extract_atomic_value",
              "MinMaxLengthType.encode_into_pdu"):
        g = prog.func(q)
        c = [x for x in walk_no_nested(g.node) if isinstance(x, ast.Call) and call_name(x) ==
             "get_string_encoding"]
        args = [ast.unparse(a).replace("self.", "") for a in c[0].args] if c else []
        if args == ["base_data_type", "base_type_encoding", "is_highlow_byte_order"]:
            run.ok(R, q, "string codec chosen by (base type, encoding, byte order)", g.loc)
        else:
            run.violation(R, q, "codec-arguments",
                          f"get_string_encoding is called with {args}", g.loc)
