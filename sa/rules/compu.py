"""Shared analysis of odxtools/compumethods for C03 and C07."""
from __future__ import annotations

import ast
from fractions import Fraction
from typing import Dict, List, Optional, Set, Tuple

from ..absint import eval_test, specialise
from ..cfg import CFG, symbolic_effects, symbolic_paths, symbolic_returns
from ..exprnorm import Poly, Rat, norm_test, normalize, conj_test
from ..report import Run
from ..src import (AnalysisError, ClassInfo, FuncInfo, Program, attr_chain, call_name, dotted,
                   stmt_key, walk_no_nested)

INT_TYPES = {"DataType.A_INT32", "DataType.A_UINT32"}


def _loc(f: FuncInfo, n: ast.AST) -> str:
    return f"{f.module.rel}:{getattr(n, 'lineno', f.node.lineno)}"


# ===================================================================== interval semantics
def interval_tables(prog: Program, run: Run, R: str) -> None:
    want = {
        "complies_to_upper": {"CLOSED": "<=", "OPEN": "<"},
        "complies_to_lower": {"CLOSED": ">=", "OPEN": ">"},
    }
    sym = {ast.Lt: "<", ast.LtE: "<=", ast.Gt: ">", ast.GtE: ">="}
    flip = {"<": ">", "<=": ">=", ">": "<", ">=": "<="}
    for name, table in want.items():
        f = prog.func(f"Limit.{name}")
        vparam = f.params()[1]

        class _Raise(Exception):
            pass

        def atom(e, env):
            """a value of the tiny domain {None, "VAL", ("IT", <member>)} or _Raise"""
            s = ast.unparse(e)
            if isinstance(e, ast.Constant) and e.value is None:
                return None
            if s in env:
                return env[s]
            if s.startswith("IntervalType.") and s.count(".") == 1:
                return ("IT", s.split(".")[1])
            if isinstance(e, (ast.Tuple, ast.List, ast.Set)):
                return tuple(atom(x, env) for x in e.elts)
            raise _Raise(s)

        def ev(t, env):
            if isinstance(t, ast.BoolOp):
                vals = [ev(v, env) for v in t.values]
                return all(vals) if isinstance(t.op, ast.And) else any(vals)
            if isinstance(t, ast.UnaryOp) and isinstance(t.op, ast.Not):
                return not ev(t.operand, env)
            if isinstance(t, ast.Compare) and len(t.ops) == 1:
                l, r = atom(t.left, env), atom(t.comparators[0], env)
                op = t.ops[0]
                if isinstance(op, (ast.Eq, ast.Is)):
                    return l == r
                if isinstance(op, (ast.NotEq, ast.IsNot)):
                    return l != r
                if isinstance(op, ast.In):
                    return l in r
                if isinstance(op, ast.NotIn):
                    return l not in r
            raise _Raise(ast.unparse(t))

        def walk(body, env):
            """the Return reached (or "RAISE") for the given interval type and value presence"""
            for st in body:
                if isinstance(st, ast.Expr) and isinstance(st.value, ast.Constant):
                    continue
                if isinstance(st, ast.Return):
                    return st
                if isinstance(st, ast.If):
                    r = walk(st.body if ev(st.test, env) else st.orelse, env)
                    if r is not None:
                        return r
                    continue
                if isinstance(st, (ast.Assign, ast.AnnAssign)) and isinstance(
                        st.targets[0] if isinstance(st, ast.Assign) else st.target, ast.Name):
                    tg = st.targets[0] if isinstance(st, ast.Assign) else st.target
                    if st.value is None:
                        continue
                    v = st.value
                    if isinstance(v, ast.IfExp):
                        v = v.body if ev(v.test, env) else v.orelse
                    env[tg.id] = atom(v, env)
                    continue
                if isinstance(st, ast.Expr) and isinstance(st.value, ast.Call) and call_name(
                        st.value) == "odxraise":
                    continue
                if isinstance(st, ast.Raise):
                    return "RAISE"
                if isinstance(st, ast.Pass):
                    continue
                raise _Raise(stmt_key(st))
            return None

        def case(it, has_value=True):
            env = {"self.interval_type": it}
            for nm in ("self._value", "self.value"):
                env[nm] = "VAL" if has_value else None
            try:
                return walk(f.node.body, env), env
            except _Raise as e:
                raise AnalysisError(f"Limit.{name}: statement or test outside the decision "
                                    f"table's language: {e}")

        got: Dict[str, Optional[str]] = {}
        for cname, it in (("CLOSED", ("IT", "CLOSED")), ("OPEN", ("IT", "OPEN")), ("NONE", None)):
            r, env = case(it)
            v = r.value if isinstance(r, ast.Return) else None
            got[cname] = None
            if isinstance(v, ast.Compare) and len(v.ops) == 1 and type(v.ops[0]) in sym:
                l, rr = v.left, v.comparators[0]
                op = sym[type(v.ops[0])]
                if isinstance(l, ast.Constant):
                    l, rr, op = rr, l, flip[op]
                if not (isinstance(l, ast.Call) and call_name(l) == "compare_odx_values" and
                        isinstance(rr, ast.Constant) and rr.value == 0 and len(l.args) == 2):
                    raise AnalysisError(f"Limit.{name}: comparison shape not recognised: "
                                        f"{ast.unparse(v)}")
                args = ["LIMIT" if env.get(ast.unparse(a)) == "VAL" else ast.unparse(a)
                        for a in l.args]
                if args == ["LIMIT", vparam]:
                    op = flip[op]
                elif args != [vparam, "LIMIT"]:
                    run.violation(R, f"Limit.{name}", "compare-args",
                                  f"`{ast.unparse(l)}` does not compare the tested value with the "
                                  "limit's value", _loc(f, r), stmt_key(r))
                    continue
                got[cname] = op
            elif isinstance(v, ast.Constant) and isinstance(v.value, bool):
                got[cname] = str(v.value)
        for cname, op in table.items():
            if got.get(cname) == op:
                run.ok(R, f"Limit.{name}", f"{cname}: value {op} limit", f.loc)
            else:
                run.violation(R, f"Limit.{name}", f"{cname}-operator",
                              f"for interval type {cname} the test is `value {got.get(cname)} "
                              f"limit`, ODX prescribes `value {op} limit`", f.loc)
        r_inf, _ = case(("IT", "INFINITE"))
        r_nov = [case(it, False)[0] for it in (None, ("IT", "CLOSED"), ("IT", "OPEN"),
                                               ("IT", "INFINITE"))]

        def _true(r):
            return isinstance(r, ast.Return) and isinstance(r.value, ast.Constant) and \
                r.value.value is True
        if _true(r_inf) and all(_true(r) for r in r_nov):
            run.ok(R, f"Limit.{name}", "no limit value / INFINITE: always complies", f.loc)
        else:
            run.violation(R, f"Limit.{name}", "infinite",
                          "a limit without value (INFINITE) does not comply with every value",
                          f.loc)
        # the closed case is also the default when no interval type is given
        if got.get("NONE") == table["CLOSED"]:
            run.ok(R, f"Limit.{name}", "missing INTERVAL-TYPE is treated as CLOSED", f.loc)
        else:
            run.violation(R, f"Limit.{name}", "default-closed",
                          "a limit without INTERVAL-TYPE attribute is not treated as CLOSED",
                          f.loc)


def compare_values(prog: Program, run: Run, R: str) -> None:
    """compare_odx_values as a decision table: for each kind of operand (number, string, byte
    field) and each ordering (a < b, a == b, a > b) the consistent symbolic paths must return
    -1 / 0 / +1, and nothing but pure orderings of the two operands may take part in the decision
    (no tolerances, no other quantities)."""
    f = prog.func("odxtools.odxtypes:compare_odx_values")
    a, b = f.params()[0], f.params()[1]
    C = "compare_odx_values"
    paths = symbolic_paths(f.node)
    A, B = Rat(Poly.atom("A")), Rat(Poly.atom("B"))
    kinds = {"num": ("(int, float)", "int", "float", "(float, int)"), "str": ("str",),
             "bytes": ("BytesTypes", "(bytes, bytearray)", "bytes", "bytearray")}

    def sym(n: ast.AST):
        # operands, and their zero-padded copies for byte fields, stand for A and B
        if isinstance(n, ast.Name) and n.id == a:
            return A
        if isinstance(n, ast.Name) and n.id == b:
            return B
        if isinstance(n, ast.Call) and call_name(n) == "ljust" and isinstance(
                n.func, ast.Attribute) and isinstance(n.func.value, ast.Name):
            return A if n.func.value.id == a else (B if n.func.value.id == b else None)
        return None
    for kind, tnames in kinds.items():
        foreign: List[str] = []
        table: Dict[int, Set[object]] = {}
        for sgn in (-1, 0, 1):
            def leaf(t: ast.AST, sgn=sgn, kind=kind, tnames=tnames):
                if isinstance(t, ast.Call) and call_name(t) == "isinstance" and len(t.args) == 2:
                    who = ast.unparse(t.args[0])
                    if who == a:
                        return ast.unparse(t.args[1]) in tnames
                    if who == b:
                        return True  # operands of the same kind
                if isinstance(t, ast.Compare) and len(t.ops) == 1 and isinstance(
                        t.ops[0], (ast.Lt, ast.LtE, ast.Gt, ast.GtE, ast.Eq, ast.NotEq)):
                    names = {n.id for n in ast.walk(t) if isinstance(n, ast.Name)}
                    if not names & {a, b}:
                        return None
                    try:
                        d = normalize(t.left, sym) - normalize(t.comparators[0], sym)
                    except Exception:  # noqa: BLE001
                        d = None
                    s_ = None
                    if d is not None and d.same(A - B):
                        s_ = sgn
                    elif d is not None and d.same(B - A):
                        s_ = -sgn
                    if s_ is None:
                        foreign.append(ast.unparse(t))
                        return None
                    op = type(t.ops[0])
                    return {ast.Lt: s_ < 0, ast.LtE: s_ <= 0, ast.Gt: s_ > 0, ast.GtE: s_ >= 0,
                            ast.Eq: s_ == 0, ast.NotEq: s_ != 0}[op]
                return None
            outs: Set[object] = set()
            for p_ in paths:
                if all(eval_test(t, {}, leaf) in (None, pol) for t, pol in p_.conds):
                    if any(isinstance(st, ast.Expr) and isinstance(st.value, ast.Call) and
                           call_name(st.value) == "odxraise" for st in p_.trace):
                        outs.add("error")
                    elif p_.retval is not None:
                        try:
                            outs.add(ast.literal_eval(p_.retval))
                        except Exception:  # noqa: BLE001
                            outs.add(ast.unparse(p_.retval))
                    else:
                        outs.add(None)
            table[sgn] = outs
        if foreign:
            run.violation(R, C, f"{kind}-foreign-test",
                          f"for {kind} operands the result depends on `{foreign[0]}`, which is "
                          "not an ordering of the two operands (ODX compares exactly: a "
                          "tolerance makes CLOSED limits admit values beyond the limit and OPEN "
                          "limits exclude values inside it)", f.loc, foreign[0])
        elif table == {-1: {-1}, 0: {0}, 1: {1}}:
            run.ok(R, C, f"{kind}: returns sign(a - b) (3 orderings)", f.loc)
        else:
            run.violation(R, C, f"{kind}-sign",
                          f"for {kind} operands the result is not -1/0/+1 = sign(a - b) "
                          f"(a<b -> {sorted(map(str, table[-1]))}, a>b -> "
                          f"{sorted(map(str, table[1]))}, equal -> {sorted(map(str, table[0]))})",
                          f.loc)
    # byte fields are padded with zeros on the right up to the longer one
    pads = [x for x in walk_no_nested(f.node) if isinstance(x, ast.Call) and call_name(x) in (
        "ljust", "rjust")]
    # (counted by distinct text: an inlined temporary repeats the same padding call)
    distinct = {ast.unparse(x) for x in pads}
    if len(distinct) == 2 and all(call_name(x) == "ljust" and len(x.args) == 2 and
                                  ast.unparse(x.args[1]) == "b'\\x00'" for x in pads):
        run.ok(R, C, "byte fields are zero-padded on the right to equal length", f.loc)
    else:
        run.violation(R, C, "bytes-padding", "byte fields are not zero-padded (ljust with "
                      "b'\\x00') before comparison", f.loc)
    # mixed kinds raise
    raises = [x for x in walk_no_nested(f.node) if isinstance(x, ast.Expr) and isinstance(
        x.value, ast.Call) and call_name(x.value) == "odxraise"]
    if len(raises) >= 4:
        run.ok(R, C, "operands of different kinds are rejected", f.loc)
    else:
        run.violation(R, C, "mixed-kinds", "comparing operands of different kinds is not "
                      "rejected in every branch", f.loc)


def scale_applies(prog: Program, run: Run, R: str) -> None:
    """CompuScale.applies as a decision table over (lower limit given?, upper limit given?)."""
    f = prog.func("CompuScale.applies")
    v = f.params()[1]
    C = "CompuScale.applies"
    rets = symbolic_returns(f.node)
    lo, hi = "self.lower_limit", "self.upper_limit"

    def outcomes(has_lo: bool, has_hi: bool) -> Set[str]:
        env = {lo: "L" if has_lo else None, hi: "U" if has_hi else None}
        got = set()
        for conds, e, _r in rets:
            if all(eval_test(t, env) in (None, pol) for t, pol in conds):
                e2 = specialise(e, env)
                if isinstance(e2, ast.Compare) and len(e2.ops) == 1 and isinstance(
                        e2.ops[0], ast.Eq):
                    got.add("eq:" + "|".join(sorted([ast.unparse(e2.left), ast.unparse(
                        e2.comparators[0])])))
                elif isinstance(e2, ast.BoolOp) and isinstance(e2.op, ast.And):
                    got.add("and:" + "|".join(sorted(ast.unparse(x) for x in e2.values)))
                else:
                    got.add(ast.unparse(e2) if e2 is not None else "None")
        return got
    table = [
        ((False, False), {"True"}, "no-limits", "no limits: every value applies",
         "a scale without limits does not apply to every value"),
        ((True, False), {"eq:" + "|".join(sorted([v, f"{lo}.value"]))}, "lower-only",
         "only a lower limit: the value must equal it",
         "a scale with only a lower limit does not require equality with it"),
        ((False, True), {"eq:" + "|".join(sorted([v, f"{hi}.value"]))}, "upper-only",
         "only an upper limit: the value must equal it",
         "a scale with only an upper limit does not require equality with it"),
        ((True, True), {"and:" + "|".join(sorted([f"{lo}.complies_to_lower({v})",
                                                  f"{hi}.complies_to_upper({v})"]))},
         "two-limits", "two limits: lower.complies_to_lower(v) and upper.complies_to_upper(v)",
         "with both limits the value is not required to comply with the lower limit from below "
         "and the upper limit from above"),
    ]
    for scen, want, key, good, bad in table:
        got = outcomes(*scen)
        if got == want:
            run.ok(R, C, good, f.loc)
        else:
            run.violation(R, C, key, f"{bad} (returns {sorted(got)})", f.loc)


# ===================================================================== validity vs conversion
def _expand(fn: ast.AST, e: ast.AST, depth: int = 0, seen: Optional[Set[str]] = None) -> Set[str]:
    """Attribute-name atoms of ``e`` with locals expanded through their definitions."""
    seen = seen or set()
    out: Set[str] = set()
    for n in ast.walk(e):
        if isinstance(n, ast.Attribute):
            out.add(n.attr)
        if isinstance(n, ast.Name) and n.id not in seen and depth < 6:
            seen = seen | {n.id}
            for x in walk_no_nested(fn):
                v = None
                if isinstance(x, ast.Assign) and any(isinstance(t, ast.Name) and t.id == n.id
                                                     for t in x.targets):
                    v = x.value
                if isinstance(x, ast.NamedExpr) and isinstance(x.target, ast.Name) and \
                        x.target.id == n.id:
                    v = x.value
                if isinstance(x, (ast.For, ast.comprehension)) and n.id in {
                        m.id for m in ast.walk(x.target) if isinstance(m, ast.Name)}:
                    v = x.iter
                if v is not None:
                    out |= _expand(fn, v, depth + 1, seen)
    return out


def _guard_atoms(f: FuncInfo) -> Set[str]:
    cfg = CFG(f.node)
    out: Set[str] = set()
    for n in cfg.nodes:
        st = n.stmt
        if st is None or n.kind != "stmt":
            continue
        if isinstance(st, ast.Expr) and isinstance(st.value, ast.Call) and call_name(
                st.value) == "odxassert" and st.value.args:
            out |= _expand(f.node, st.value.args[0])
        is_raise = isinstance(st, ast.Raise) or (isinstance(st, ast.Expr) and isinstance(
            st.value, ast.Call) and call_name(st.value) == "odxraise")
        if not is_raise:
            continue
        for t, _pol in cfg.branch_conditions(n.id):
            out |= _expand(f.node, t)
    return out


def _property_map(prog: Program, ci: ClassInfo) -> Dict[str, str]:
    """property name -> underlying private attribute for trivial getters."""
    out: Dict[str, str] = {}
    for c in prog.mro(ci):
        for n, m in c.methods.items():
            if m.is_property:
                rets = [r for r in walk_no_nested(m.node) if isinstance(r, ast.Return)]
                if len(rets) == 1 and isinstance(rets[0].value, ast.Attribute) and isinstance(
                        rets[0].value.value, ast.Name) and rets[0].value.value.id == "self":
                    out[n] = rets[0].value.attr
    return out


# conversion-guard atoms that validity need not consult, with the reason
VALIDITY_EXEMPT: Dict[Tuple[str, str], Dict[str, str]] = {
    ("TabIntpCompuMethod", "phys"): {
        "_internal_points": "value side of the interpolation; applicability is decided by the "
                            "range samples (_physical_points) only"},
    ("TabIntpCompuMethod", "int"): {
        "_physical_points": "value side of the interpolation; applicability is decided by the "
                            "range samples (_internal_points) only"},
    ("TexttableCompuMethod", "phys"): {
        a: "final odxraise for a scale without inverse value and limits; __post_init__ "
           "already rejects scales without limits (description-level)"
        for a in ("_value", "compu_inverse_value", "lower_limit", "upper_limit", "value")},
    ("TexttableCompuMethod", "int"): {
        a: "final odxraise for a scale without COMPU-CONST (description-level)"
        for a in ("compu_const", "value")},
}
HELPERS = {"__piecewise_linear_interpolate"}


def validity_vs_conversion(prog: Program, run: Run, R: str) -> int:
    n = 0
    dirs = {"phys": ("is_valid_physical_value", "convert_physical_to_internal"),
            "int": ("is_valid_internal_value", "convert_internal_to_physical")}
    for c in prog.subclasses("CompuMethod", strict=True):
        pm = _property_map(prog, c)
        for d, (vn, cn) in dirs.items():
            fv, fc = c.methods.get(vn), c.methods.get(cn)
            if fv is None or fc is None:
                run.violation(R, f"{c.name}", f"missing-{vn if fv is None else cn}",
                              f"{c.name} does not define both {vn} and {cn}: the base class "
                              "raises NotImplementedError", c.loc)
                continue
            n += 1
            sv: Set[str] = set()
            for x in walk_no_nested(fv.node):
                if isinstance(x, ast.expr):
                    sv |= _expand(fv.node, x)
            sc = _guard_atoms(fc)
            sv = {pm.get(a, a) for a in sv}
            sc = {pm.get(a, a) for a in sc} - HELPERS
            ex = VALIDITY_EXEMPT.get((c.name, d), {})
            missing = sorted(a for a in sc - sv if a not in ex)
            src = "physical" if d == "phys" else "internal"
            if not missing:
                run.ok(R, f"{c.name}.{vn}", f"consults everything the rejection in {cn} depends "
                       f"on ({sorted(sc & sv)})", fv.loc)
            for a in missing:
                run.violation(R, f"{c.name}.{vn}", f"ignores-{a}",
                              f"{cn} rejects a {src} value depending on `{a}`, but {vn} never "
                              f"consults `{a}`: a value declared valid can still fail to convert "
                              "(or a convertible value is declared invalid)", fv.loc)
            # the python types admitted by the validity test are the ones the converter admits
            def type_tests(fn_: FuncInfo) -> Set[str]:
                pv_ = fn_.params()[1]
                return {" ".join(ast.unparse(x.args[1]).split()) for x in walk_no_nested(fn_.node)
                        if isinstance(x, ast.Call) and call_name(x) == "isinstance" and
                        len(x.args) == 2 and ast.unparse(x.args[0]) == pv_}
            tv, tc = type_tests(fv), type_tests(fc)
            if tv and tc and tv != tc:
                run.violation(R, f"{c.name}.{vn}", "type-test-differs",
                              f"{vn} admits values of type {sorted(tv)} but {cn} admits "
                              f"{sorted(tc)}: a value the converter handles is declared invalid "
                              "(or the reverse), e.g. the integer 10 for a float typed table",
                              fv.loc)
            # a validity test must not consult state the converter never looks at *instead*
            # (covered by the symmetric rule of the opposite direction)
    return n


def _names_expanded(fn: ast.AST, e: ast.AST, depth: int = 0,
                    seen: Optional[Set[str]] = None) -> Set[str]:
    """Local names that ``e`` depends on, through assignments, loop targets and comprehensions."""
    seen = set(seen or ())
    out: Set[str] = set()
    for n in ast.walk(e):
        if isinstance(n, ast.Name) and n.id not in seen and depth < 6:
            out.add(n.id)
            seen.add(n.id)
            for x in walk_no_nested(fn):
                v = None
                if isinstance(x, ast.Assign) and any(isinstance(t, ast.Name) and t.id == n.id
                                                     for t in x.targets):
                    v = x.value
                if isinstance(x, ast.AnnAssign) and isinstance(x.target, ast.Name) and \
                        x.target.id == n.id and x.value is not None:
                    v = x.value
                if isinstance(x, ast.NamedExpr) and isinstance(x.target, ast.Name) and \
                        x.target.id == n.id:
                    v = x.value
                if isinstance(x, ast.For) and n.id in {
                        m.id for m in ast.walk(x.target) if isinstance(m, ast.Name)}:
                    v = x.iter
                if v is not None:
                    out |= _names_expanded(fn, v, depth + 1, seen)
    return out


def _null_return(r: ast.Return) -> bool:
    v = r.value
    if v is None or isinstance(v, ast.Constant) and v.value is None:
        return True
    return isinstance(v, ast.Call) and call_name(v) == "cast" and any(
        isinstance(a, ast.Constant) and a.value is None for a in v.args)


def conversion_guards(prog: Program, run: Run, R: str, dirs: Tuple[str, ...] = ("phys", "int")
                      ) -> int:
    """Every conversion routine of a compu method rejects, on its own, the values it is not
    applicable to: DtcDop.encode_into_pdu and EnvironmentDataDescription call it without asking
    is_valid_*_value first, and what DataObjectProperty asks first is the same question.  Shapes
    accepted (all eight categories use one of them): the identity; an unconditional rejection; a
    rejection whose condition depends on the value; or converted values returned only under a
    condition on the value, with the rejection at the end."""
    names = {"phys": ("convert_physical_to_internal", "EncodeError"),
             "int": ("convert_internal_to_physical", "DecodeError")}
    n = 0
    for c in prog.subclasses("CompuMethod", strict=True):
        for d in dirs:
            cn, exc = names[d]
            f = c.methods.get(cn)
            if f is None:
                continue  # validity_vs_conversion reports the missing method
            n += 1
            pv = f.params()[1]
            rets = [r for r in walk_no_nested(f.node) if isinstance(r, ast.Return)]
            live = [r for r in rets if not _null_return(r)]
            if live and all(isinstance(r.value, ast.Name) and r.value.id == pv for r in live) and \
                    not any(isinstance(x, (ast.Assign, ast.AugAssign)) for x in
                            walk_no_nested(f.node)):
                run.ok(R, f"{c.name}.{cn}", "identity: nothing to reject", f.loc)
                continue
            cfg = CFG(f.node)
            dep_raise = uncond_raise = False
            for nd in cfg.nodes:
                st = nd.stmt
                if st is None or nd.kind != "stmt":
                    continue
                is_raise = isinstance(st, ast.Raise) and exc in ast.unparse(st) or (
                    isinstance(st, ast.Expr) and isinstance(st.value, ast.Call) and call_name(
                        st.value) in ("odxraise", "odxassert") and exc in ast.unparse(st.value))
                if not is_raise:
                    continue
                conds = [t for t, _p in cfg.branch_conditions(nd.id)]
                if isinstance(st, ast.Expr) and call_name(st.value) == "odxassert":
                    conds = conds + [st.value.args[0]]
                if any(pv in _names_expanded(f.node, t) for t in conds):
                    # a type test alone does not decide applicability
                    if any(pv in _names_expanded(f.node, t) and not (
                            isinstance(_strip_not(t), ast.Call) and call_name(_strip_not(t)) ==
                            "isinstance") for t in conds):
                        dep_raise = True
                elif all(st.lineno > r.lineno for r in live):
                    # the rejection at the end (conditions on the description only)
                    uncond_raise = True
            guarded_returns = all(
                any(pv in _names_expanded(f.node, t) for t, _p in cfg.branch_conditions(
                    cfg.node_of(r))) for r in live)
            if dep_raise:
                run.ok(R, f"{c.name}.{cn}", f"rejects with {exc} under a condition on the value",
                       f.loc)
            elif uncond_raise and guarded_returns:
                run.ok(R, f"{c.name}.{cn}", f"returns converted values only under a condition on "
                       f"the value; {exc} otherwise", f.loc)
            else:
                run.violation(R, f"{c.name}.{cn}", "conversion-does-not-reject",
                              f"{cn} has no {exc} rejection that depends on the value: a value "
                              "outside the applicable range is converted (extrapolated) when the "
                              "caller did not ask is_valid first -- DtcDop.encode_into_pdu and "
                              "EnvironmentDataDescription do not, DataObjectProperty relies on "
                              "the same test", f.loc)
    return n


def _strip_not(t: ast.AST) -> ast.AST:
    while isinstance(t, ast.UnaryOp) and isinstance(t.op, ast.Not):
        t = t.operand
    return t


# ===================================================================== SCALE-LINEAR invertibility
def invertibility(prog: Program, run: Run, R: str) -> None:
    f = prog.func("ScaleLinearCompuMethod.__post_init__")
    cfg = CFG(f.node)
    C = "ScaleLinearCompuMethod.__post_init__"
    falses = [x for x in walk_no_nested(f.node) if isinstance(x, ast.Assign) and ast.unparse(
        x.targets[0]) == "self._is_invertible" and ast.unparse(x.value) == "False"]
    if len(falses) < 4:
        raise AnalysisError("SCALE-LINEAR: fewer than 4 non-invertibility conditions found")
    kinds: Dict[str, bool] = {}
    for a in falses:
        conds = cfg.branch_conditions(cfg.node_of(a))
        # the innermost condition decides
        local = []
        for t, pol in conds:
            if any(a is z for z in ast.walk(_enclosing_if(f.node, a))):
                local.append((t, pol))
        ifn = _enclosing_if(f.node, a)
        t = ifn.test
        s = ast.unparse(t)
        in_body = any(a is z for st in ifn.body for z in ast.walk(st))
        if "factor" in s:
            n = norm_test(t, negate=not in_body)
            ok = "< 0" in n or "0 >" in n
            # ref*f < 0
            if isinstance(t, ast.Compare) and isinstance(t.ops[0], ast.Lt) and isinstance(
                    t.left, ast.BinOp) and isinstance(t.left.op, ast.Mult) and ast.unparse(
                        t.comparators[0]) == "0" and in_body:
                kinds["slope-sign"] = True
                run.ok(R, C, "non-invertible when the slope changes sign (ref*f < 0)", _loc(f, a))
            else:
                run.violation(R, C, "slope-sign-test",
                              f"`{s}` is not the slope sign-change test `ref_factor * factor < 0`",
                              _loc(f, a), s)
        elif "abs(" in s or ("y0" in s and "y1" in s):
            # function values at the common boundary must differ by MORE than the tolerance
            good = False
            if isinstance(t, ast.Compare) and len(t.ops) == 1:
                l, r = t.left, t.comparators[0]
                op = type(t.ops[0])
                if isinstance(l, ast.Constant):
                    l, r = r, l
                    op = {ast.Lt: ast.Gt, ast.Gt: ast.Lt, ast.LtE: ast.GtE, ast.GtE: ast.LtE}.get(
                        op, op)
                if not in_body:
                    op = {ast.Lt: ast.GtE, ast.Gt: ast.LtE, ast.LtE: ast.Gt, ast.GtE: ast.Lt,
                          ast.Eq: ast.NotEq, ast.NotEq: ast.Eq}.get(op, op)
                if isinstance(l, ast.Call) and call_name(l) == "abs" and op in (ast.Gt, ast.GtE):
                    good = True
                if op is ast.NotEq and not isinstance(l, ast.Call):
                    good = True
            kinds["continuity"] = True
            # the two operands are the function values of the two segments at the boundary
            ops_ok = True
            for nm_ in sorted({m.id for m in ast.walk(t) if isinstance(m, ast.Name)}):
                defs_ = [x for x in walk_no_nested(f.node) if isinstance(x, ast.Assign) and
                         ast.unparse(x.targets[0]) == nm_]
                if len(defs_) != 1:
                    continue
                v = defs_[0].value
                if isinstance(v, ast.Call) and isinstance(v.func, ast.Attribute) and \
                        v.func.attr == "convert_internal_to_physical":
                    continue
                segs = sorted({ast.unparse(m.value) for m in ast.walk(v) if isinstance(
                    m, ast.Attribute) and m.attr in ("offset", "factor", "denominator")})
                want_ok = False
                if len(segs) == 1:
                    sg = segs[0]

                    def env(node, sg=sg):
                        u = ast.unparse(node) if isinstance(node, (ast.Attribute,
                                                                     ast.Name)) else None
                        if u == sg + ".offset":
                            return Rat(Poly.atom("o"))
                        if u == sg + ".factor":
                            return Rat(Poly.atom("f"))
                        if u == sg + ".denominator":
                            return Rat(Poly.atom("d"))
                        if isinstance(node, ast.Name):
                            return Rat(Poly.atom("x"))
                        return None
                    try:
                        got = normalize(v, env)
                        want = (Rat(Poly.atom("o")) + Rat(Poly.atom("f")) * Rat(
                            Poly.atom("x"))).div(Rat(Poly.atom("d")))
                        want_ok = got.same(want)
                    except Exception:  # noqa: BLE001
                        want_ok = False
                if not want_ok:
                    ops_ok = False
                    run.violation(R, C, f"continuity-operand-{nm_}",
                                  f"`{stmt_key(defs_[0])}`: the continuity test does not compare "
                                  "the segments' function values (offset + factor*x)/denominator "
                                  "at the common boundary: segments with different denominators "
                                  "are judged (dis)continuous wrongly", _loc(f, defs_[0]),
                                  stmt_key(defs_[0]))
            if good and not ops_ok:
                pass
            elif good:
                run.ok(R, C, "non-invertible when the function values at the common boundary "
                       "differ", _loc(f, a))
            else:
                run.violation(R, C, "continuity-test-inverted",
                              f"`if {s}: self._is_invertible = False` marks the method "
                              "non-invertible when adjacent segments AGREE at their common "
                              "boundary; the ODX condition is that they must not differ "
                              "(|y0 - y1| > tolerance)", _loc(f, a), stmt_key(ifn))
        elif "value" in s and (("!=" in s and in_body) or (
                not in_body and isinstance(t, ast.Compare) and len(t.ops) == 1 and
                isinstance(t.ops[0], ast.Eq))):
            # (`if a != b: no` or the else branch of `if a == b: ...`)
            kinds["reference-point"] = True
            run.ok(R, C, "non-invertible when adjacent segments use different reference points",
                   _loc(f, a))
        elif "is None" in s or "INFINITE" in s:
            kinds["finite-boundary"] = True
            run.ok(R, C, "non-invertible when a common boundary is missing or INFINITE", _loc(f, a))
        else:
            run.violation(R, C, "unknown-condition:" + s[:50],
                          f"`{s}` makes the method non-invertible; this is not one of the ODX "
                          "conditions (7.3.6.6.4)", _loc(f, a), s)
    for k in ("slope-sign", "continuity", "reference-point", "finite-boundary"):
        if k not in kinds:
            run.violation(R, C, f"missing-{k}", f"the {k} condition of the invertibility analysis "
                          "is missing", f.loc)
    # the converter consults the flag
    g = prog.func("ScaleLinearCompuMethod.convert_physical_to_internal")
    if "_is_invertible" in _guard_atoms(g):
        run.ok(R, "ScaleLinearCompuMethod.convert_physical_to_internal",
               "refuses to encode when the method is not invertible", g.loc)
    else:
        run.violation(R, "ScaleLinearCompuMethod.convert_physical_to_internal",
                      "ignores-invertibility", "encodes with a non-invertible method", g.loc)


def _enclosing_if(fn: ast.AST, node: ast.AST) -> ast.If:
    best = None
    for x in walk_no_nested(fn):
        if isinstance(x, ast.If) and any(node is z for st in x.body + x.orelse
                                         for z in ast.walk(st)):
            direct = any(node is st for st in x.body + x.orelse)
            if direct:
                return x
            best = x
    if best is None:
        raise AnalysisError("statement is not inside an if")
    return best


# ===================================================================== symbolic returns
INT_TYPES_TXT = ("A_INT32", "A_UINT32")


def arithmetic_returns(f: FuncInfo, role: str):
    """[(role polarity on the path: True int / False float / None untested, other-role tests,
    returned expression with locals inlined, return node)] for the returns that compute
    something (contain a division)."""
    out = []
    for conds, e, r in symbolic_returns(f.node):
        if e is None or not any(isinstance(x, ast.BinOp) and isinstance(x.op, (ast.Div,
                                                                                 ast.FloorDiv))
                                for x in ast.walk(e)):
            continue
        pol = None
        others = []
        for t, p in conds:
            s_ = ast.unparse(t)
            if " in" in s_ and all(k in s_ for k in INT_TYPES_TXT):
                if s_.startswith(role + " in"):
                    pol = p if pol is None else pol
                elif p:
                    others.append(s_.split(" in")[0])
        out.append((pol, others, e, r))
    return out


def _strip_round(e: ast.AST):
    """(inner expression, rounded?, truncated?)"""
    rounded = False
    trunc = False
    cur = e
    while isinstance(cur, ast.Call) and call_name(cur) in ("round", "int", "floor", "trunc") and \
            cur.args:
        if call_name(cur) == "round":
            rounded = True
        elif not rounded and not any(isinstance(m, ast.Call) and call_name(m) == "round"
                                     for m in ast.walk(cur.args[0])):
            trunc = True
        cur = cur.args[0]
    if any(isinstance(x, ast.BinOp) and isinstance(x.op, ast.FloorDiv) for x in ast.walk(cur)):
        trunc = True
    return cur, rounded, trunc


class _FloorToDiv(ast.NodeTransformer):
    def visit_BinOp(self, node: ast.BinOp) -> ast.AST:
        self.generic_visit(node)
        if isinstance(node.op, ast.FloorDiv):
            return ast.BinOp(left=node.left, op=ast.Div(), right=node.right)
        return node


def _rounding_symbolic(run: Run, R: str, f: FuncInfo, spec: str, role: str) -> None:
    rets = arithmetic_returns(f, role)
    if not rets:
        raise AnalysisError(f"{spec}: no computing return found")
    bad = False
    for pol, others, e, r in rets:
        _inner, rounded, trunc = _strip_round(e)
        txt = " ".join(ast.unparse(e).split())
        for o in others:
            if rounded:
                bad = True
                run.violation(R, spec, "rounding-role",
                              f"rounding is decided by `{o}`, but the result of this direction "
                              f"has type `{role}`", _loc(f, r), txt)
        if pol is False:
            if rounded and not others:
                bad = True
                run.violation(R, spec, "float-result-rounded",
                              f"`{txt}` rounds although {role} is not an integer type on this "
                              "path", _loc(f, r), txt)
            continue
        if trunc:
            bad = True
            run.violation(R, spec, "truncation",
                          f"`{txt}` truncates (floor division / int()) instead of rounding to "
                          "nearest; ODX prescribes rounding for integer result types",
                          _loc(f, r), txt)
        elif not rounded:
            bad = True
            run.violation(R, spec, "no-rounding",
                          f"`{txt}` is returned without rounding on a path where {role} may be "
                          "an integer type", _loc(f, r), txt)
    if not bad:
        run.ok(R, spec, f"every computing return is rounded to nearest exactly when {role} is an "
               f"integer type ({len(rets)} paths)", f.loc)


# ===================================================================== rounding
def rounding(prog: Program, run: Run, R: str) -> int:
    """Computed (arithmetic) results that may have to be integers are rounded, never
    truncated."""
    n = 0
    table = [
        # (function, role type attribute that decides whether the result is integral)
        ("LinearSegment.convert_internal_to_physical", "self.physical_type"),
        ("LinearSegment.convert_physical_to_internal", "self.internal_type"),
        ("RatFuncSegment.convert", "self.value_type"),
        ("TabIntpCompuMethod.convert_internal_to_physical", "self.physical_type"),
        ("TabIntpCompuMethod.convert_physical_to_internal", "self.internal_type"),
    ]
    for spec, role in table:
        f = prog.func(spec)
        n += 1
        if spec.startswith("LinearSegment."):
            _rounding_symbolic(run, R, f, spec, role)
            continue
        cfg = CFG(f.node)
        # the variable that is returned at the end
        rets = [r for r in walk_no_nested(f.node) if isinstance(r, ast.Return) and isinstance(
            r.value, ast.Name)]
        computed = None
        for x in walk_no_nested(f.node):
            if isinstance(x, ast.Assign) and isinstance(x.targets[0], ast.Name):
                v = x.value
                if (isinstance(v, ast.BinOp) and isinstance(v.op, ast.Div)) or (
                        isinstance(v, ast.Call) and "interpolate" in (call_name(v) or "")):
                    computed = x.targets[0].id
        if computed is None:
            raise AnalysisError(f"{spec}: computed result not found")
        bad = False
        rounds = [x for x in walk_no_nested(f.node) if isinstance(x, ast.Assign) and isinstance(
            x.value, ast.Call) and call_name(x.value) == "round" and ast.unparse(
                x.value.args[0]) == computed and ast.unparse(x.targets[0]) == computed]
        ok_round = False
        round_ifs = []
        for r in rounds:
            conds = cfg.branch_conditions(cfg.node_of(r))
            for t, pol in conds:
                s_ = ast.unparse(t)
                if pol and s_.startswith(role + " in") and "A_INT32" in s_ and "A_UINT32" in s_:
                    ok_round = True
                    round_ifs.append(_enclosing_if(f.node, r))
                elif pol and " in" in s_ and "A_INT32" in s_ and not s_.startswith(role):
                    bad = True
                    run.violation(R, spec, "rounding-role",
                                  f"rounding is decided by `{s_.split(' in')[0]}`, but the result "
                                  f"of this direction has type `{role}`", _loc(f, r), s_)
        # truncating conversions of the computed value (harmless after the rounding above)
        for x in walk_no_nested(f.node):
            if isinstance(x, ast.Call) and call_name(x) in ("make_from", "int", "floor", "trunc",
                                                            "python_type") and x.args and \
                    computed in {m.id for m in ast.walk(x.args[0]) if isinstance(m, ast.Name)}:
                if any(isinstance(m, ast.Call) and call_name(m) == "round"
                       for m in ast.walk(x.args[0])):
                    continue
                st_ = _stmt(f.node, x)
                if ok_round and any(cfg.dominates(cfg.node_of(i), cfg.node_of(st_))
                                    for i in round_ifs):
                    continue
                bad = True
                run.violation(R, spec, "truncation",
                              f"`{ast.unparse(x)}` converts the computed value with "
                              f"{call_name(x)}(), which truncates towards zero for integer "
                              "types; ODX prescribes rounding to nearest", _loc(f, x),
                              stmt_key(st_))
        if not bad and ok_round:
            run.ok(R, spec, f"result rounded to nearest when {role} is an integer type", f.loc)
        elif not bad:
            run.violation(R, spec, "no-rounding",
                          f"the computed result is not rounded to nearest when {role} is an "
                          "integer type", f.loc)
    return n


def _stmt(fn: ast.AST, x: ast.AST) -> ast.stmt:
    best = None
    for st in walk_no_nested(fn):
        if isinstance(st, ast.stmt) and st is not fn and not isinstance(
                st, (ast.If, ast.For, ast.While, ast.Try, ast.With)) and any(
                    z is x for z in ast.walk(st)):
            best = st
    if best is None:
        for st in walk_no_nested(fn):
            if isinstance(st, ast.stmt) and st is not fn and any(z is x for z in ast.walk(st)):
                best = st
    return best  # type: ignore[return-value]


# ===================================================================== categories
def categories(prog: Program, run: Run, R: str) -> None:
    f = prog.func("odxtools.compumethods.createanycompumethod:create_any_compu_method_from_et")
    enum = prog.cls("CompuCategory")
    vals = {k: v.value for k, v in enum.enum_members.items() if isinstance(v, ast.Constant)}
    from .common import dispatch_table
    disp: Dict[str, str] = {}
    for k, cname in dispatch_table(prog, f).items():
        if isinstance(k, str) and k.startswith("CompuCategory."):
            k = vals.get(k.split(".", 1)[1])
        if isinstance(k, str):
            disp[k] = cname
    for member, cat in vals.items():
        cls = disp.get(cat)
        if cls is None:
            run.violation(R, "create_any_compu_method_from_et", f"category-{cat}-unhandled",
                          f"no branch constructs a compu method for category {cat}", f.loc)
            continue
        ci = prog.cls(cls)
        pi = ci.methods.get("__post_init__")
        asserted = None
        if pi is not None:
            for x in walk_no_nested(pi.node):
                if isinstance(x, ast.Compare) and ast.unparse(x.left) == "self.category":
                    ch = attr_chain(x.comparators[0])
                    if ch and ch[0] == "CompuCategory":
                        asserted = ch[1]
        if asserted is not None and asserted != member:
            run.violation(R, "create_any_compu_method_from_et", f"category-{cat}-class",
                          f"category {cat} constructs {cls}, which asserts category {asserted}",
                          f.loc)
        else:
            run.ok(R, "create_any_compu_method_from_et", f"{cat} -> {cls}", f.loc)


# ===================================================================== physical limits
def physical_limits(prog: Program, run: Run, R: str) -> None:
    ci = prog.cls("LinearSegment")
    f = ci.methods.get("__compute_physical_limits")
    if f is None:
        raise AnalysisError("LinearSegment.__compute_physical_limits not found")
    C = "LinearSegment.__compute_physical_limits"
    lo_k, hi_k = "self._physical_lower_limit", "self._physical_upper_limit"
    paths = symbolic_effects(f.node)
    if not paths or not all(lo_k in env and hi_k in env for _c, env in paths):
        raise AnalysisError("__compute_physical_limits: physical limits are not assigned on "
                            "every path")

    def source(e: ast.AST) -> str:
        # the internal limit a physical limit is converted from
        if isinstance(e, ast.Call) and e.args:
            return ast.unparse(e.args[0])
        return ast.unparse(e)
    groups: Dict[str, List] = {}
    for conds, env in paths:
        groups.setdefault(conj_test(conds), []).append((conds, env))
    NONNEG = ("-1*self.factor <= 0", "-1*self.factor < 0")
    NEG = ("-1*self.factor > 0", "-1*self.factor >= 0")
    seen_sides = set()
    for key, items in sorted(groups.items()):
        conds, env = items[0]
        got = {lo_k: source(env[lo_k]), hi_k: source(env[hi_k])}
        if key in NONNEG:
            seen_sides.add("nonneg")
            want = {lo_k: "self.internal_lower_limit", hi_k: "self.internal_upper_limit"}
            if got == want:
                run.ok(R, C, "factor >= 0: physical lower/upper from internal lower/upper", f.loc)
            else:
                run.violation(R, C, "increasing",
                              f"for a non-negative factor the limits are {got}", f.loc)
        elif key in NEG:
            seen_sides.add("neg")
            want = {lo_k: "self.internal_upper_limit", hi_k: "self.internal_lower_limit"}
            if got == want:
                run.ok(R, C, "factor < 0: physical lower/upper from internal upper/lower "
                       "(swapped)", f.loc)
            else:
                run.violation(R, C, "decreasing",
                              f"for a negative factor the limits are {got}; they must be swapped",
                              f.loc)
        else:
            run.violation(R, C, "swap-condition",
                          f"whether the limits are swapped depends on `{key or 'nothing'}`, not "
                          "on the sign of the factor: for a decreasing function with a one-sided "
                          "(or INFINITE) interval the physical limit ends up on the wrong side",
                          f.loc, key)
            return
    if seen_sides != {"nonneg", "neg"}:
        run.violation(R, C, "swap-condition", "the limits are not computed separately for "
                      "non-negative and negative factors", f.loc)
        return
    # interval type carried over, value converted with the forward function
    inner = [x for x in f.node.body if isinstance(x, ast.FunctionDef)]
    txt = ast.unparse(inner[0]) if inner else ""
    if "interval_type=internal_limit.interval_type" in txt.replace(" ", "").replace(
            "interval_type=internal_limit.interval_type", "interval_type=internal_limit.interval_type") \
            and "convert_internal_to_physical" in txt and "value_type=self.physical_type" in txt:
        run.ok(R, C, "limit value converted with the forward function, interval type carried over",
               f.loc)
    else:
        run.violation(R, C, "limit-conversion",
                      "a physical limit is not the forward image of the internal limit with the "
                      "same interval type", f.loc)
    # physical_applies / internal_applies use their own role's limits
    for nm, lo, hi, ty in (("physical_applies", "self._physical_lower_limit",
                            "self._physical_upper_limit", "self.physical_type"),
                           ("internal_applies", "self.internal_lower_limit",
                            "self.internal_upper_limit", "self.internal_type")):
        g = ci.methods.get(nm)
        if g is None:
            raise AnalysisError(f"LinearSegment.{nm} not found")
        s = ast.unparse(g.node)
        v = g.params()[1]
        ok = (f"{lo}.complies_to_lower({v})" in s and f"{hi}.complies_to_upper({v})" in s and
              f"{ty}.python_type" in s)
        other = ("internal" if nm.startswith("physical") else "_physical")
        if ok and f"self.{other}_lower_limit" not in s.replace("self._physical", "self._physical"):
            run.ok(R, f"LinearSegment.{nm}", f"type check against {ty}, lower limit from below, "
                   "upper limit from above", g.loc)
        elif ok:
            run.ok(R, f"LinearSegment.{nm}", f"type check against {ty}, limits of its own role",
                   g.loc)
        else:
            run.violation(R, f"LinearSegment.{nm}", "role",
                          f"{nm} does not test {lo}.complies_to_lower / {hi}.complies_to_upper "
                          f"and the python type of {ty}", g.loc)


# ===================================================================== closed forms
def linear_forms(prog: Program, run: Run, R: str, R_inv: str) -> None:
    fwd = prog.func("LinearSegment.convert_internal_to_physical")
    inv = prog.func("LinearSegment.convert_physical_to_internal")

    env_names = {"self.offset": "o", "self.factor": "f", "self.denominator": "d"}

    def env_for(var: str, sym: Rat):
        def env(node: ast.AST):
            s_ = ast.unparse(node) if isinstance(node, (ast.Attribute, ast.Name)) else None
            if s_ in env_names:
                return Rat(Poly.atom(env_names[s_]))
            if s_ == var:
                return sym
            return None
        return env

    def formulas(f: FuncInfo, role: str):
        out = []
        for _pol, _o, e, r in arithmetic_returns(f, role):
            inner, _rd, _tr = _strip_round(e)
            import copy
            out.append((ast.fix_missing_locations(_FloorToDiv().visit(copy.deepcopy(inner))), r))
        if not out:
            raise AnalysisError(f"{f.qual}: formula not found")
        return out
    x = fwd.params()[1]
    y = inv.params()[1]
    X = Rat(Poly.atom("x"))
    want = (Rat(Poly.atom("o")) + Rat(Poly.atom("f")) * X).div(Rat(Poly.atom("d")))
    F = None
    for e, r in formulas(fwd, "self.physical_type"):
        Fi = normalize(e, env_for(x, X))
        txt = " ".join(ast.unparse(e).split())
        if Fi.same(want):
            F = Fi
            run.ok(R, "LinearSegment.convert_internal_to_physical",
                   "forward function is (offset + factor*x)/denominator", _loc(fwd, r))
        else:
            run.violation(R, "LinearSegment.convert_internal_to_physical", "forward-formula",
                          f"`{txt}` is not (offset + factor*x)/denominator", _loc(fwd, r), txt)
    if F is None:
        F = want
    # compose: inverse(forward(x)) == x
    for e, r in formulas(inv, "self.internal_type"):
        G = normalize(e, env_for(y, F))
        txt = " ".join(ast.unparse(e).split())
        if G.same(X):
            run.ok(R_inv, "LinearSegment", "inverse(forward(x)) normalises to x: the two "
                   "formulas are algebraic inverses", _loc(inv, r))
        else:
            run.violation(R_inv, "LinearSegment.convert_physical_to_internal", "not-inverse",
                          f"`{txt}` composed with the forward formula gives `{G.key()}`, not x: "
                          "the two directions are not inverse to each other", _loc(inv, r), txt)
    # factor == 0 -> inverse value
    z = [t for t in walk_no_nested(inv.node) if isinstance(t, ast.If) and "factor" in ast.unparse(
        t.test)]
    if z and any(isinstance(s, ast.Return) and ast.unparse(s.value) == "self.inverse_value"
                 for s in z[0].body):
        run.ok(R, "LinearSegment.convert_physical_to_internal",
               "factor 0: COMPU-INVERSE-VALUE is returned", _loc(inv, z[0]))
    else:
        run.violation(R, "LinearSegment.convert_physical_to_internal", "zero-factor",
                      "for a zero factor COMPU-INVERSE-VALUE is not returned (division by zero)",
                      inv.loc)
    # coefficients: what the constructor receives on every path (locals inlined)
    g = prog.func("LinearSegment.from_compu_scale")
    paths = [(c, e, r) for c, e, r in symbolic_returns(g.node) if isinstance(e, ast.Call) and
             call_name(e) == "LinearSegment"]
    if not paths:
        raise AnalysisError("LinearSegment.from_compu_scale: constructor call not found")

    def txt(e: ast.AST) -> str:
        t_ = " ".join(ast.unparse(e).split())
        return t_.replace("odxrequire(scale.compu_rational_coeffs)",
                          "scale.compu_rational_coeffs")
    one_num = norm_test(ast.parse("len(scale.compu_rational_coeffs.numerators) == 1",
                                  mode="eval").body)
    has_den = norm_test(ast.parse("len(scale.compu_rational_coeffs.denominators) > 0",
                                  mode="eval").body)
    bad: Dict[str, str] = {}
    for conds, e, r in paths:
        kws = {k.arg: k.value for k in e.keywords if k.arg}
        ctx = {norm_test(ast.parse(txt(t_), mode="eval").body, negate=not p_) for t_, p_ in conds}
        want_kw = {
            "offset": "scale.compu_rational_coeffs.numerators[0]",
            "factor": "0" if one_num in ctx else "scale.compu_rational_coeffs.numerators[1]",
            "denominator": "scale.compu_rational_coeffs.denominators[0]" if has_den in ctx
            else "1.0",
            "internal_lower_limit": "scale.lower_limit",
            "internal_upper_limit": "scale.upper_limit",
            "internal_type": "internal_type",
            "physical_type": "physical_type",
        }
        for k, w in want_kw.items():
            got = txt(kws[k]) if k in kws else None
            if got != w and not (k == "denominator" and w == "1.0" and got in ("1", "1.0")):
                bad.setdefault(k, f"`{k}` receives `{got}` where `{w}` is expected")
        iv = txt(kws["inverse_value"]) if "inverse_value" in kws else None
        if iv not in ("0", "scale.compu_inverse_value.value",
                      "odxrequire(scale.compu_inverse_value).value"):
            bad.setdefault("inverse_value", f"`inverse_value` receives `{iv}`")
    if bad:
        for k, msg in sorted(bad.items()):
            run.violation(R, "LinearSegment.from_compu_scale", "cross-wired-" + k
                          if k not in ("offset", "factor", "denominator") else
                          "coefficients:" + k, msg + ": the segment computes with the wrong "
                          "coefficient / limit", g.loc)
    else:
        run.ok(R, "LinearSegment.from_compu_scale", "offset = numerators[0], factor = "
               "numerators[1] (0 if absent), denominator = denominators[0] (1 if absent), limits "
               f"and types passed through ({len(paths)} paths)", g.loc)


def horner(prog: Program, run: Run, R: str) -> None:
    """Unroll RatFuncSegment.convert on a symbolic 3-coefficient list and compare with the
    polynomial a0 + a1 x + a2 x^2."""
    f = prog.func("RatFuncSegment.convert")
    C = "RatFuncSegment.convert"
    v = f.params()[1]
    state: Dict[str, Rat] = {}
    X = Rat(Poly.atom("x"))
    lists = {"self.numerator_coeffs": [Rat(Poly.atom(f"n{i}")) for i in range(3)],
             "self.denominator_coeffs": [Rat(Poly.atom(f"d{i}")) for i in range(3)]}

    def env(node: ast.AST):
        if isinstance(node, ast.Name) and node.id in state:
            return state[node.id]
        if isinstance(node, ast.Call) and call_name(node) == "float" and len(node.args) == 1:
            return normalize(node.args[0], env)
        if isinstance(node, ast.Name) and node.id == v:
            return X
        if isinstance(node, ast.Subscript) and ast.unparse(node.value) in lists and not \
                isinstance(node.slice, ast.Slice):
            try:
                return lists[ast.unparse(node.value)][ast.literal_eval(node.slice)]
            except Exception:
                return None
        return None

    def seq_of(e: ast.AST) -> Optional[List[Rat]]:
        rev = False
        if isinstance(e, ast.Call) and call_name(e) == "reversed" and len(e.args) == 1:
            rev = True
            e = e.args[0]
        sl = None
        if isinstance(e, ast.Subscript) and isinstance(e.slice, ast.Slice):
            sl = e.slice
            e = e.value
        base = lists.get(ast.unparse(e))
        if base is None:
            return None
        seq = list(base)
        if sl is not None:
            lo = ast.literal_eval(sl.lower) if sl.lower is not None else None
            hi = ast.literal_eval(sl.upper) if sl.upper is not None else None
            st = ast.literal_eval(sl.step) if sl.step is not None else None
            seq = seq[lo:hi:st]
        return seq[::-1] if rev else seq
    result_var = None
    for st in f.node.body:
        if isinstance(st, ast.Assign) and isinstance(st.targets[0], ast.Name):
            state[st.targets[0].id] = normalize(st.value, env)
            if isinstance(st.value, ast.BinOp) and isinstance(st.value.op, ast.Div):
                result_var = st.targets[0].id
        elif isinstance(st, ast.For) and isinstance(st.target, ast.Name):
            seq = seq_of(st.iter)
            if seq is None:
                raise AnalysisError(f"{C}: loop over `{ast.unparse(st.iter)}` not understood")
            for item in seq:
                state[st.target.id] = item
                for b in st.body:
                    if isinstance(b, ast.AugAssign) and isinstance(b.target, ast.Name):
                        cur = state.get(b.target.id)
                        val = normalize(b.value, env)
                        if cur is None:
                            raise AnalysisError(f"{C}: accumulator not initialised")
                        if isinstance(b.op, ast.Mult):
                            state[b.target.id] = cur * val
                        elif isinstance(b.op, ast.Add):
                            state[b.target.id] = cur + val
                        else:
                            raise AnalysisError(f"{C}: unsupported accumulation")
                    elif isinstance(b, ast.Assign) and isinstance(b.targets[0], ast.Name):
                        state[b.targets[0].id] = normalize(b.value, env)
                    else:
                        raise AnalysisError(f"{C}: unsupported loop body statement")
        elif isinstance(st, ast.If):
            touches = any(isinstance(z, (ast.For, ast.AugAssign)) or (
                isinstance(z, ast.Assign) and isinstance(z.targets[0], ast.Name) and
                z.targets[0].id in state) for b in st.body + st.orelse for z in ast.walk(b))
            only_round = all(isinstance(b, ast.Assign) and isinstance(b.value, ast.Call) and
                             call_name(b.value) == "round" for b in st.body + st.orelse)
            if not touches or only_round:
                continue
            # only `len(<coefficient list>) <op> <const>` can be decided for the symbolic lists
            t = st.test
            val = None
            if isinstance(t, ast.Compare) and len(t.ops) == 1 and isinstance(
                    t.left, ast.Call) and call_name(t.left) == "len" and ast.unparse(
                        t.left.args[0]) in lists and isinstance(t.comparators[0], ast.Constant):
                n_ = len(lists[ast.unparse(t.left.args[0])])
                k_ = t.comparators[0].value
                val = {ast.Gt: n_ > k_, ast.GtE: n_ >= k_, ast.Lt: n_ < k_, ast.LtE: n_ <= k_,
                       ast.Eq: n_ == k_, ast.NotEq: n_ != k_}.get(type(t.ops[0]))
            elif ast.unparse(t) in lists:
                val = True
            if val is None:
                raise AnalysisError(f"{C}: cannot decide `{ast.unparse(t)}` symbolically")
            for b in (st.body if val else st.orelse):
                if isinstance(b, ast.Assign) and isinstance(b.targets[0], ast.Name):
                    state[b.targets[0].id] = normalize(b.value, env)
                elif isinstance(b, ast.For) and isinstance(b.target, ast.Name):
                    seq = seq_of(b.iter)
                    if seq is None:
                        raise AnalysisError(f"{C}: loop over `{ast.unparse(b.iter)}` not understood")
                    for item in seq:
                        state[b.target.id] = item
                        for bb in b.body:
                            if isinstance(bb, ast.AugAssign) and isinstance(bb.target, ast.Name):
                                cur = state[bb.target.id]
                                v2 = normalize(bb.value, env)
                                state[bb.target.id] = cur * v2 if isinstance(
                                    bb.op, ast.Mult) else cur + v2
                            else:
                                raise AnalysisError(f"{C}: unsupported loop body statement")
                else:
                    raise AnalysisError(f"{C}: unsupported statement in conditional block")
        elif isinstance(st, (ast.Return, ast.Expr)):
            continue
        else:
            raise AnalysisError(f"{C}: unsupported statement {type(st).__name__}")
    if result_var is None:
        raise AnalysisError(f"{C}: quotient not found")
    x2 = X * X
    num = lists["self.numerator_coeffs"]
    den = lists["self.denominator_coeffs"]
    want = (num[0] + num[1] * X + num[2] * x2).div(den[0] + den[1] * X + den[2] * x2)
    got = state[result_var]
    if got.same(want):
        run.ok(R, C, "numerator and denominator are the polynomials sum(c_i * x^i) (symbolic "
               "unrolling for three coefficients) and the result is their quotient", f.loc)
    else:
        run.violation(R, C, "polynomial",
                      f"for coefficients [c0, c1, c2] the function computes `{got.key()}` "
                      "instead of (n0 + n1 x + n2 x^2) / (d0 + d1 x + d2 x^2)", f.loc)
    # applies(): type check against the *domain* type + own limits
    g = prog.func("RatFuncSegment.applies")
    s = ast.unparse(g.node)
    a = g.params()[1]
    et = [x for x in walk_no_nested(g.node) if isinstance(x, ast.Assign) and "python_type" in
          ast.unparse(x.value)]
    mk = prog.func("RatFuncSegment.from_compu_scale")
    ctor = [c for c in walk_no_nested(mk.node) if isinstance(c, ast.Call) and call_name(c) ==
            "RatFuncSegment"]
    if not et or not ctor:
        raise AnalysisError("RatFuncSegment: type check / constructor call not found")
    fld = ast.unparse(et[0].value).replace("self.", "").replace(".python_type", "")
    src = {k.arg: ast.unparse(k.value) for k in ctor[0].keywords}.get(fld, "")
    if src.endswith("domain_type"):
        run.ok(R, "RatFuncSegment.applies", "the input is type-checked against the domain type "
               "of the scale", g.loc)
    else:
        run.violation(R, "RatFuncSegment.applies", "range-type-check",
                      f"the input value is type-checked against `self.{fld}`, which "
                      f"from_compu_scale fills from `{src}` (the type of the function's result): "
                      "float physical values are rejected by the inverse of a RAT-FUNC whose "
                      "internal type is integral", g.loc)
    rnd = prog.func("RatFuncSegment.convert")
    rsrc = {k.arg: ast.unparse(k.value) for k in ctor[0].keywords}.get("value_type", "")
    if rsrc.endswith("range_type"):
        run.ok(R, "RatFuncSegment.convert", "the result is rounded by the range type of the scale",
               rnd.loc)
    else:
        run.violation(R, "RatFuncSegment.convert", "rounding-type",
                      f"the rounding type `value_type` is filled from `{rsrc}`, not from the "
                      "scale's range type", mk.loc)
    if f"self.lower_limit.complies_to_lower({a})" in s and \
            f"self.upper_limit.complies_to_upper({a})" in s:
        run.ok(R, "RatFuncSegment.applies", "lower limit from below, upper limit from above", g.loc)
    else:
        run.violation(R, "RatFuncSegment.applies", "limits",
                      "the domain check does not use lower.complies_to_lower / "
                      "upper.complies_to_upper", g.loc)


def tabintp_forms(prog: Program, run: Run, R: str, R_roles: str) -> None:
    ci = prog.cls("TabIntpCompuMethod")
    f = ci.methods.get("__piecewise_linear_interpolate")
    if f is None:
        raise AnalysisError("TabIntpCompuMethod.__piecewise_linear_interpolate not found")
    C = "TabIntpCompuMethod.__piecewise_linear_interpolate"
    x, rs, ds = f.params()[1], f.params()[2], f.params()[3]
    rets = [r for r in walk_no_nested(f.node) if isinstance(r, ast.Return) and r.value is not None
            and not isinstance(r.value, ast.Constant)]
    if len(rets) != 1:
        raise AnalysisError(f"{C}: expected one interpolation formula")
    # bind x0,x1,y0,y1
    binds: Dict[str, str] = {}
    for n in walk_no_nested(f.node):
        if isinstance(n, ast.NamedExpr):
            binds[n.target.id] = ast.unparse(n.value)
        if isinstance(n, ast.Assign) and isinstance(n.targets[0], ast.Name):
            binds[n.targets[0].id] = ast.unparse(n.value)
    loop = [l for l in walk_no_nested(f.node) if isinstance(l, ast.For)]
    i = ast.unparse(loop[0].target) if loop else "i"
    pairs_ok = False
    if loop:
        # `for i, (l, r) in enumerate(zip(S, S[1:]))`: l, r are S[i], S[i + 1] of every adjacent pair
        it, tg = loop[0].iter, loop[0].target
        if isinstance(it, ast.Call) and call_name(it) == "enumerate" and len(it.args) == 1 and \
                isinstance(tg, ast.Tuple) and len(tg.elts) == 2 and isinstance(tg.elts[0], ast.Name):
            z, lr = it.args[0], tg.elts[1]
            if isinstance(z, ast.Call) and call_name(z) == "zip" and len(z.args) == 2 and \
                    isinstance(lr, ast.Tuple) and len(lr.elts) == 2 and all(
                        isinstance(e, ast.Name) for e in lr.elts) and \
                    ast.unparse(z.args[1]) == f"{ast.unparse(z.args[0])}[1:]" and \
                    ast.unparse(z.args[0]) in (rs, ds):
                i = tg.elts[0].id
                binds[lr.elts[0].id] = f"{ast.unparse(z.args[0])}[{i}]"
                binds[lr.elts[1].id] = f"{ast.unparse(z.args[0])}[{i} + 1]"
                pairs_ok = True
    role = {f"{rs}[{i}]": "X0", f"{rs}[{i} + 1]": "X1", f"{ds}[{i}]": "Y0", f"{ds}[{i} + 1]": "Y1"}

    def env(node: ast.AST):
        if isinstance(node, ast.Name):
            if node.id == x:
                return Rat(Poly.atom("X"))
            b = binds.get(node.id)
            if b in role:
                return Rat(Poly.atom(role[b]))
        if isinstance(node, ast.Subscript) and ast.unparse(node) in role:
            return Rat(Poly.atom(role[ast.unparse(node)]))
        return None
    got = normalize(rets[0].value, env)
    A = {k: Rat(Poly.atom(k)) for k in ("X", "X0", "X1", "Y0", "Y1")}
    want = A["Y0"] + ((A["X"] - A["X0"]) * (A["Y1"] - A["Y0"])).div(A["X1"] - A["X0"])
    if got.same(want):
        run.ok(R, C, "y0 + (x - x0)(y1 - y0)/(x1 - x0) with x from the range samples and y from "
               "the domain samples of the same bracket", _loc(f, rets[0]))
    else:
        run.violation(R, C, "interpolation-formula",
                      f"`{stmt_key(rets[0])}` normalises to `{got.key()}`, not to "
                      "y0 + (x - x0)(y1 - y0)/(x1 - x0)", _loc(f, rets[0]), stmt_key(rets[0]))
    # bracket test x0 <= x <= x1
    tests = [t for t in walk_no_nested(f.node) if isinstance(t, ast.If)]
    okb = False
    for t in tests:
        class Tr(ast.NodeTransformer):
            def visit_NamedExpr(self, n):  # noqa: N802
                return n.target
        tt = Tr().visit(ast.parse(ast.unparse(t.test), mode="eval").body)
        if len(t.body) == 1 and isinstance(t.body[0], ast.Continue) and not t.orelse:
            # `if not x0 <= x <= x1: continue`
            tt = ast.UnaryOp(op=ast.Not(), operand=tt)
        s = norm_test(tt, env)
        w1 = norm_test(ast.parse("X0 <= X and X <= X1", mode="eval").body)
        if s == w1:
            okb = True
    if okb:
        run.ok(R, C, "the first bracket with x0 <= x <= x1 is used", f.loc)
    else:
        run.violation(R, C, "bracket-test", "the bracket is not selected by x0 <= x <= x1", f.loc)
    if loop and (pairs_ok or ast.unparse(loop[0].iter).replace(" ", "") in (
            f"range(0,len({rs})-1)", f"range(len({rs})-1)")):
        run.ok(R, C, "all adjacent pairs of samples are brackets", f.loc)
    else:
        run.violation(R, C, "bracket-range", "not every adjacent pair of samples is tried", f.loc)
    # roles at the call sites
    for nm, src, own, other in (
            ("convert_physical_to_internal", "physical_value", "self._physical_points",
             "self._internal_points"),
            ("convert_internal_to_physical", "internal_value", "self._internal_points",
             "self._physical_points")):
        g = ci.methods[nm]
        calls = [c for c in walk_no_nested(g.node) if isinstance(c, ast.Call) and "interpolate" in
                 (call_name(c) or "")]
        pm = _property_map(prog, ci)

        def canon(e: ast.AST) -> str:
            s = ast.unparse(e)
            if s.startswith("self.") and s[5:] in pm:
                return "self." + pm[s[5:]]
            return s
        if len(calls) == 1 and [canon(a) for a in calls[0].args] == [g.params()[1], own, other]:
            run.ok(R_roles, f"TabIntpCompuMethod.{nm}", f"interpolates ({g.params()[1]}, "
                   f"{own.split('.')[1]} as x, {other.split('.')[1]} as y)", g.loc)
        else:
            run.violation(R_roles, f"TabIntpCompuMethod.{nm}", "roles",
                          f"the interpolation is not called with (value, {own}, {other}): the "
                          "direction is cross-wired", g.loc)


def texttable_roles(prog: Program, run: Run, R: str) -> None:
    ci = prog.cls("TexttableCompuMethod")
    f = ci.methods["convert_physical_to_internal"]
    C = "TexttableCompuMethod.convert_physical_to_internal"
    v = f.params()[1]
    s = ast.unparse(f.node)
    comps = [c for c in walk_no_nested(f.node) if isinstance(c, (ast.ListComp, ast.GeneratorExp))]
    sel = False
    for c in comps:
        for g in c.generators:
            t = ast.unparse(g.target)
            for i in g.ifs:
                for cmp in ast.walk(i):
                    if isinstance(cmp, ast.Compare) and isinstance(cmp.ops[0], ast.Eq) and {
                            ast.unparse(cmp.left), ast.unparse(cmp.comparators[0])} == {
                                f"{t}.compu_const.value", v}:
                        sel = True
    if sel:
        run.ok(R, C, "scales are selected by compu_const.value == physical value", f.loc)
    else:
        run.violation(R, C, "selection", "the scale is not selected by comparing its COMPU-CONST "
                      "with the physical value", f.loc)
    # order: inverse value, lower limit, upper limit
    rets = [r for r in walk_no_nested(f.node) if isinstance(r, ast.Return) and r.value is not None]
    order = []
    for r in rets:
        t = ast.unparse(r.value)
        if t == "civ" or "compu_inverse_value" in t:
            order.append("inverse")
        elif "lower_limit" in t:
            order.append("lower")
        elif "upper_limit" in t:
            order.append("upper")
    # the PRIORITY, not the position in the text: the lower limit is returned only where the
    # inverse value is absent, the upper limit only where inverse value and lower limit are
    inv_names = {"compu_inverse_value"} | {
        x.targets[0].id for x in walk_no_nested(f.node) if isinstance(x, ast.Assign) and
        isinstance(x.targets[0], ast.Name) and "compu_inverse_value" in ast.unparse(x.value)} | {
        x.target.id for x in walk_no_nested(f.node) if isinstance(x, ast.NamedExpr) and
        "compu_inverse_value" in ast.unparse(x.value)}
    ocfg = CFG(f.node)

    def absent(conds, keys) -> bool:
        for t, pol in conds:
            for c_ in ast.walk(t) if not isinstance(t, ast.BoolOp) else t.values:
                txt = ast.unparse(c_)
                if not any(k in txt for k in keys):
                    continue
                if isinstance(c_, ast.Compare) and len(c_.ops) == 1 and isinstance(
                        c_.comparators[0], ast.Constant) and c_.comparators[0].value is None:
                    if isinstance(c_.ops[0], ast.Is) and pol and not isinstance(t, ast.BoolOp):
                        return True
                    if isinstance(c_.ops[0], ast.IsNot) and not pol:
                        return True
                    if isinstance(c_.ops[0], ast.Is) and pol and isinstance(
                            t, ast.BoolOp) and isinstance(t.op, ast.Or):
                        continue
        return False
    prio_ok = len(set(order)) == 3
    for r in rets:
        t = ast.unparse(r.value)
        conds = ocfg.branch_conditions(ocfg.node_of(r))
        if "lower_limit" in t and not absent(conds, inv_names):
            prio_ok = False
        if "upper_limit" in t and not (absent(conds, inv_names) and absent(conds,
                                                                           {"lower_limit"})):
            prio_ok = False
    if order == ["inverse", "lower", "upper"] or prio_ok:
        run.ok(R, C, "returns COMPU-INVERSE-VALUE, else the lower, else the upper limit", f.loc)
    else:
        run.violation(R, C, "inverse-order", f"returns {order} instead of inverse value, lower "
                      "limit, upper limit", f.loc)
    g = ci.methods["convert_internal_to_physical"]
    C = "TexttableCompuMethod.convert_internal_to_physical"
    v = g.params()[1]
    comps = [c for c in walk_no_nested(g.node) if isinstance(c, (ast.ListComp, ast.GeneratorExp))]
    if any(f".applies({v})" in ast.unparse(c) for c in comps):
        run.ok(R, C, "scales are selected by scale.applies(internal value)", g.loc)
    else:
        run.violation(R, C, "selection", "the scale is not selected by applies(internal value)",
                      g.loc)
    if "return scale.compu_const.value" in ast.unparse(g.node):
        run.ok(R, C, "returns the COMPU-CONST of the matching scale", g.loc)
    else:
        run.violation(R, C, "result", "does not return the scale's COMPU-CONST", g.loc)
    # default values of __post_init__ come from their own direction
    pi = ci.methods["__post_init__"]
    t = ast.unparse(pi.node)
    want = [("self._compu_physical_default_value", "citp", "self.physical_type", ".vt"),
            ("self._compu_internal_default_value", "cpti", "self.internal_type", ".v)")]
    for attr, src, ty, fld in want:
        a = [x for x in walk_no_nested(pi.node) if isinstance(x, ast.Assign) and ast.unparse(
            x.targets[0]) == attr and not isinstance(x.value, ast.Constant)]
        if a and ty in ast.unparse(a[0].value) and fld.rstrip(")") in ast.unparse(a[0].value):
            run.ok(R, "TexttableCompuMethod.__post_init__", f"{attr[5:]} parsed with {ty[5:]}",
                   _loc(pi, a[0]))
        else:
            run.violation(R, "TexttableCompuMethod.__post_init__", f"default-{attr[5:]}",
                          f"{attr} is not parsed with {ty}", pi.loc)


# ===================================================================== DOP gates (C03.R4)
def dop_gates(prog: Program, run: Run, R: str, sides: Tuple[str, ...] = ("enc", "dec")) -> None:
    d = prog.func("DataObjectProperty.decode_from_pdu")
    cfg = CFG(d.node)
    conv = [x for x in walk_no_nested(d.node) if isinstance(x, ast.Call) and call_name(x) ==
            "convert_internal_to_physical"]
    if not conv:
        raise AnalysisError("DataObjectProperty.decode_from_pdu: conversion call not found")
    for c in conv if "dec" in sides else []:
        arg = ast.unparse(c.args[0])
        st = _stmt(d.node, c)
        conds = cfg.branch_conditions(cfg.node_of(st))
        def accepted(t: ast.AST, pol: bool) -> bool:
            while isinstance(t, ast.UnaryOp) and isinstance(t.op, ast.Not):
                t, pol = t.operand, not pol
            return isinstance(t, ast.Call) and call_name(t) == "is_valid_internal_value" and \
                pol and bool(t.args) and ast.unparse(t.args[0]) == arg
        ok = any(accepted(t, pol) for t, pol in conds)
        if ok:
            run.ok(R, "DataObjectProperty.decode_from_pdu", "convert_internal_to_physical only "
                   "under is_valid_internal_value(same value)", _loc(d, c))
        else:
            run.violation(R, "DataObjectProperty.decode_from_pdu", "conversion-ungated",
                          "the internal value is converted without (or before) "
                          "is_valid_internal_value having accepted it", _loc(d, c), stmt_key(st))
    e = prog.func("DataObjectProperty.encode_into_pdu")
    ecfg = CFG(e.node)
    conv = [x for x in walk_no_nested(e.node) if isinstance(x, ast.Call) and call_name(x) ==
            "convert_physical_to_internal"]
    if not conv:
        raise AnalysisError("DataObjectProperty.encode_into_pdu: conversion call not found")
    pv = e.params()[1]
    gate = None
    for x in walk_no_nested(e.node):
        if isinstance(x, ast.If) and "is_valid_physical_value" in ast.unparse(x.test):
            gate = x
    for c in conv if "enc" in sides else []:
        st = _stmt(e.node, c)
        good = False
        if gate is not None and norm_test(gate.test) == norm_test(ast.parse(
                f"not self.is_valid_physical_value({pv})", mode="eval").body):
            rs = [s for s in gate.body if isinstance(s, ast.Raise)]
            if rs and "EncodeError" in ast.unparse(rs[0]) and ecfg.dominates(
                    ecfg.node_of(gate), ecfg.node_of(st)):
                good = True
        if good and ast.unparse(c.args[0]) == pv:
            run.ok(R, "DataObjectProperty.encode_into_pdu", "convert_physical_to_internal only "
                   "after is_valid_physical_value rejected invalid values with EncodeError",
                   _loc(e, c))
        else:
            run.violation(R, "DataObjectProperty.encode_into_pdu", "conversion-ungated",
                          "the physical value is converted without is_valid_physical_value "
                          "having rejected invalid values with an unconditional EncodeError",
                          _loc(e, c), stmt_key(st))
    # internal value flows into the coded type
    enc = [x for x in walk_no_nested(e.node) if isinstance(x, ast.Call) and call_name(x) ==
           "encode_into_pdu" and "diag_coded_type" in ast.unparse(x.func)]
    iv = None
    for x in walk_no_nested(e.node):
        if isinstance(x, ast.Assign) and any(x.value is c for c in conv):
            iv = ast.unparse(x.targets[0])
    if "enc" not in sides:
        pass
    elif enc and iv and ast.unparse(enc[0].args[0]) == iv:
        run.ok(R, "DataObjectProperty.encode_into_pdu", "the converted internal value is what "
               "the diag-coded type encodes", _loc(e, enc[0]))
    else:
        run.violation(R, "DataObjectProperty.encode_into_pdu", "encodes-other-value",
                      "the diag-coded type does not encode the converted internal value", e.loc)
    dec = [x for x in walk_no_nested(d.node) if isinstance(x, ast.Assign) and isinstance(
        x.value, ast.Call) and call_name(x.value) == "decode_from_pdu" and "diag_coded_type" in
           ast.unparse(x.value.func)]
    if "dec" not in sides:
        pass
    elif dec and all(ast.unparse(c.args[0]) == ast.unparse(dec[0].targets[0]) for c in [
            x for x in walk_no_nested(d.node) if isinstance(x, ast.Call) and call_name(x) ==
            "convert_internal_to_physical"]):
        run.ok(R, "DataObjectProperty.decode_from_pdu", "the value extracted by the diag-coded "
               "type is what gets converted", _loc(d, dec[0]))
    else:
        run.violation(R, "DataObjectProperty.decode_from_pdu", "converts-other-value",
                      "the converted value is not the one extracted by the diag-coded type", d.loc)


# ===================================================================== parse-side roles
SCALE_FIELD_ROLE = {
    # field of CompuScale -> the type its text is converted with: limits and the inverse value
    # live in the scale's DOMAIN (the side the scale is selected by), the constant and the
    # coefficients' results in its RANGE
    "lower_limit": "domain_type", "upper_limit": "domain_type",
    "compu_inverse_value": "domain_type",
    "compu_const": "range_type", "compu_rational_coeffs": "range_type",
}
DIRECTION_TYPES = {
    # COMPU-INTERNAL-TO-PHYS maps internal -> physical, COMPU-PHYS-TO-INTERNAL the other way
    "CompuInternalToPhys": ("internal_type", "physical_type"),
    "CompuPhysToInternal": ("physical_type", "internal_type"),
}


def scale_parse_roles(prog: Program, run: Run, R: str) -> None:
    """The parser converts the text of each part of a COMPU-SCALE with the data type of the side
    it belongs to (7.3.6.6): wrong types yield strings where numbers are expected, or floats
    where integers are, only for descriptions whose two sides differ in type."""
    f = prog.func("CompuScale.compuscale_from_et")
    C = "CompuScale.compuscale_from_et"
    rets = [r.value for r in walk_no_nested(f.node) if isinstance(r, ast.Return) and isinstance(
        r.value, ast.Call)]
    if not rets:
        raise AnalysisError(f"{C}: constructor call not found")
    kws = {k.arg: k.value for k in rets[0].keywords if k.arg}
    for field, role in SCALE_FIELD_ROLE.items():
        v = kws.get(field)
        if v is None:
            run.violation(R, C, f"field-{field}", f"`{field}` is not passed to CompuScale", f.loc)
            continue
        exprs = [v]
        if isinstance(v, ast.Name):
            exprs = [a.value for a in walk_no_nested(f.node) if isinstance(a, (
                ast.Assign, ast.AnnAssign)) and getattr(a, "value", None) is not None and
                ast.unparse(a.targets[0] if isinstance(a, ast.Assign) else a.target) == v.id]
        used = set()
        for e in exprs:
            for c in ast.walk(e):
                if isinstance(c, ast.Call):
                    for k in c.keywords:
                        if k.arg in ("data_type", "value_type") and isinstance(k.value, ast.Name):
                            used.add(k.value.id)
        if used == {role}:
            run.ok(R, C, f"{field} is converted with {role}", f.loc)
        else:
            run.violation(R, C, f"type-of-{field}",
                          f"`{field}` is converted with {sorted(used) or 'no'} type(s); it "
                          f"belongs to the scale's {role.split('_')[0]} and must be converted "
                          f"with {role}: for a description whose internal and physical types "
                          "differ the parsed value has the wrong Python type and no longer "
                          "converts back", f.loc)
    for cls, (dom, rng) in DIRECTION_TYPES.items():
        ci = prog.cls(cls)
        g = prog.lookup(ci, "compu_internal_to_phys_from_et") or prog.lookup(
            ci, "compu_phys_to_internal_from_et") or prog.lookup(ci, "from_et")
        calls = []
        for m in ci.methods.values():
            for x in walk_no_nested(m.node):
                if isinstance(x, ast.Call) and call_name(x) == "compuscale_from_et":
                    calls.append((m, x))
        if not calls:
            raise AnalysisError(f"{cls}: compuscale_from_et call not found")
        for m, x in calls:
            got = {k.arg: ast.unparse(k.value) for k in x.keywords}
            if got.get("domain_type") == dom and got.get("range_type") == rng:
                run.ok(R, f"{cls}.{m.name}", f"scales parsed with domain={dom}, range={rng}",
                       m.loc)
            else:
                run.violation(R, f"{cls}.{m.name}", "direction-types",
                              f"scales are parsed with domain_type={got.get('domain_type')}, "
                              f"range_type={got.get('range_type')}; {cls} maps {dom} to {rng}",
                              m.loc)


# ===================================================================== tolerances
TOLERANCE_CEILING = {
    # function -> largest tolerance under which two numbers may be taken for equal there; the
    # values are the ones of the tree the rules were written for (ODX itself says `factor = 0`
    # and `equal`): a smaller one, or an exact test, is fine -- a larger one changes which
    # descriptions are encodable
    "LinearSegment.convert_physical_to_internal": 1e-10,
    "ScaleLinearCompuMethod.__post_init__": 1e-10,
}


def tolerances(prog: Program, run: Run, R: str) -> None:
    """Comparisons of `abs(...)` with a float literal in the compu methods are tolerance tests:
    none is wider than the ceiling recorded for its function, and no new one appears."""
    n = 0
    for f in prog.iter_functions():
        if not f.module.rel.startswith("odxtools/compumethods/"):
            continue
        for x in walk_no_nested(f.node):
            if not (isinstance(x, ast.Compare) and len(x.ops) == 1):
                continue
            sides = [x.left, x.comparators[0]]
            lit = [s_ for s_ in sides if isinstance(s_, ast.Constant) and isinstance(
                s_.value, float) and 0 < abs(s_.value) < 1e-2]
            ab = [s_ for s_ in sides if isinstance(s_, ast.Call) and call_name(s_) == "abs"]
            if not lit or not ab:
                continue
            n += 1
            ceil = TOLERANCE_CEILING.get(f.qual)
            if ceil is None:
                run.violation(R, f.qual, "new-tolerance",
                              f"`{ast.unparse(x)}` compares with a tolerance where the "
                              "specification compares exactly and the other compu methods do "
                              "too: values within the tolerance are treated differently",
                              _loc(f, x), ast.unparse(x))
            elif lit[0].value > ceil:
                run.violation(R, f.qual, "tolerance-widened",
                              f"`{ast.unparse(x)}`: the tolerance {lit[0].value!r} is wider than "
                              f"{ceil!r}: e.g. a scale with a factor of 1e-7 (a resolution of "
                              "1e-7 per bit) is now handled as if its factor were 0", _loc(f, x),
                              ast.unparse(x))
            else:
                run.ok(R, f.qual, f"`{ast.unparse(x)}`: tolerance within {ceil!r}", _loc(f, x))
    if n < 2:
        raise AnalysisError(f"only {n} tolerance tests found in the compu methods (expected 2)")
