"""C05 — decoding is total: only the library's decode error escapes."""
from __future__ import annotations

import ast
from typing import Dict, List, Optional, Set, Tuple

from ..callgraph import CallGraph
from ..cfg import CFG, use_before_def
from ..effects import Effects, Site
from ..exprnorm import norm_test, normalize
from ..report import Run
from ..src import AnalysisError, FuncInfo, Program, call_name, stmt_key, walk_no_nested

EXPLANATION = (
    "Exception-escape analysis over the class-hierarchy call graph from the five decode entry "
    "points: every explicit raise / odxraise / odxassert / odxrequire / assert site and every "
    "implicit may-raise construct of a small catalogue (bytes.decode with strict errors, "
    "subscripts of the state dictionaries without a dominating membership test, [i] on a "
    "filtered list without a length guard, reads of possibly unassigned locals) that is not "
    "caught on the way is collected with a witness call path; a site is judged when its "
    "trigger depends on the value of wire data (def-use taint inside the function) and its "
    "class is not within DecodeError. The truncated-PDU guard, the min-length guard and the "
    "callers' handlers are checked by dominance / handler-type rules.")
ASSUMPTIONS = [
    "explicit raises whose deciding test mentions only the description (self.*) or only the "
    "python type of a value are deliberate validation of the database: listed, not judged",
    "the implicit catalogue is finite (listed in evidence); exceptions from constructs outside "
    "it are invisible",
    "termination: the cursor-driven item loops are required to check progress themselves "
    "(C05.R5); counted loops run a number of times that is bounded by a value of the PDU",
]

ENTRIES = ["DiagLayer.decode", "DiagLayer.decode_response", "DiagService.decode_message",
           "Request.decode", "Response.decode"]
DATA_PARAMS = {"message", "raw_message", "coded_message", "internal_value", "raw_value", "value",
               "internal", "a", "b", "param_dict", "response_bytes", "payload"}
DATA_CALLS = {"extract_atomic_value", "decode_from_pdu", "_decode_positioned_from_pdu",
              "convert_internal_to_physical", "decode", "unpack_from", "__unapply_mask",
              "__decode_bcd_p", "__decode_bcd_up"}
DATA_ATTRS = {"coded_message", "length_keys", "table_keys", "journal", "cursor_byte_position"}
CUT = {
    "DiagLayer._prefix_tree": "cached, computed from the description only",
    "composite_codec_get_coded_const_prefix": "constant prefix computation (description and "
                                              "request prefix); analysed under C06/C08",
}

# value-triggered sites that are nevertheless description-level; one line of reason each
EXEMPT: Dict[str, str] = {
    "TexttableCompuMethod.convert_internal_to_physical/odxraise/OdxError/odxraise(f'Encountered "
    "a COMPU-SCALE with no COMPU-CONST":
        "the COMPU-SCALE selected by the value lacks a COMPU-CONST: incomplete description",
    "EnvironmentDataDescription.decode_from_pdu/odxraise/OdxError/odxraise('Environment data "
    "description parameters are only allowed":
        "the DTC parameter referenced by PARAM-SNREF is not located before the ENV-DATA-DESC "
        "parameter: ordering defect of the description",
    "DtcDop.decode_from_pdu/odxassert/OdxError/odxassert(len(dtcs) < 2":
        "two DTCs with the same trouble code in one DTC-DOP: inconsistent database",
    "ParamLengthInfoType.decode_from_pdu/odxraise/OdxError/odxraise(f'Unspecified mandatory":
        "the length key parameter is not located before its user: ordering defect of the "
        "description, independent of the bytes",
}


def _exempt(s: Site) -> Optional[str]:
    ident = s.ident()
    for k, why in EXEMPT.items():
        if ident.startswith(k) or (len(ident) > 60 and k.startswith(ident)):
            return why
    return None


def escape_rule(prog: Program, run: Run, R: str = "C05.R1", info: bool = True):
    """Value-triggered raise sites outside the DecodeError family that can leave a decode entry
    point (shared with C06.R2: such an exception is not caught by the per-candidate handlers
    and aborts the whole dispatch)."""
    cg = CallGraph(prog)
    eff = Effects(prog, cg, DATA_PARAMS, DATA_CALLS, set(CUT), DATA_ATTRS, {"decode_state"})
    entries = [prog.func(e) for e in ENTRIES]
    esc = eff.escaping(entries)
    n_listed = 0
    listed: List[str] = []
    for s, path in esc:
        C = f"{s.func.module.rel}:{s.func.qual}"
        if s.exc in ("e",):
            continue
        if eff.is_sub(s.exc, "DecodeError"):
            run.ok(R, C, f"{s.kind} {s.exc} ({s.trigger}-triggered): within the decode "
                   "error family", s.loc)
            continue
        if s.trigger != "value":
            n_listed += 1
            listed.append(f"{s.loc} {s.func.qual}: {s.kind} {s.exc} [{s.trigger}] {s.what[:60]}")
            continue
        why = _exempt(s)
        if why is not None:
            run.ok(R, C, f"{s.kind} {s.exc}: description-level although data selects the "
                   f"path ({why})", s.loc)
            continue
        run.violation(R, C, f"{s.kind}-{s.exc}:" + " ".join(s.what.split())[:50],
                      f"`{s.what}` raises {s.exc} depending on the value of the bytes being "
                      "decoded; callers only catch DecodeError, so this aborts DiagLayer.decode / "
                      "variant matching / snooping", s.loc, stmt_key(s.stmt), path=path)
    if info:
        run.info("reachable_functions", len(eff.reached))
    if info:
        run.info("call_sites_resolved", cg.n_resolved)
    if info:
        run.info("call_sites_name_fallback", cg.n_fallback)
    if info:
        run.info("not_judged_description_or_type_sites", listed)
    if info:
        run.info("cut", CUT)
    if cg.n_fallback > 0.1 * max(1, cg.n_resolved):
        raise AnalysisError("more than 10% of the call sites needed the name-based fallback")
    return eff


def check(prog: Program, run: Run) -> None:
    run.rule("C05.R1", "every raise site reachable from a decode entry point whose trigger is "
             "the value of wire data raises the decode error family; implicit may-raise "
             "constructs are guarded", floor=30)
    run.rule("C05.R2", "a PDU that is too short is rejected with an unconditional DecodeError "
             "before any byte is read (same length expression in guard and read)", floor=3)
    run.rule("C05.R3", "callers that try several candidates catch DecodeError (not something "
             "narrower)", floor=5)
    run.rule("C05.R4", "the values of key parameters stay available to every dependent "
             "parameter of the PDU: key tables are written by their owners only and never "
             "emptied (shared with C01.R3)", floor=5)
    run.rule("C05.R5", "decoding terminates: an item loop whose only exits depend on the cursor "
             "(END-OF-PDU, dynamic end marker) compares the cursor after each item with the "
             "cursor before it and stops with a DecodeError when the item consumed nothing",
             floor=2)
    from . import c01
    from .common import run_as
    run_as(run, "C01.R3", "C05.R4", lambda r: c01.key_tables(prog, r))
    _progress(prog, run)
    eff = escape_rule(prog, run, "C05.R1")
    _implicit(prog, run, eff)
    from . import common
    # a short name is a string: testing it for membership in a list of OBJECTS is always False
    common.g12_keys_are_not_names(prog, run, "C05.R1", [
        "odxtools/dtcdop.py", "odxtools/parameters/*.py", "odxtools/multiplexer.py",
        "odxtools/*field.py", "odxtools/environmentdatadescription.py", "odxtools/table.py"])
    _truncation(prog, run)
    _counted_loops(prog, run)
    _handlers(prog, run)


# ----------------------------------------------------------------- implicit catalogue
def _implicit(prog: Program, run: Run, eff: Effects) -> None:
    R = "C05.R1"
    funcs = [f for f in eff.reached.values() if f.qual not in eff.cut]
    n = 0
    for f in funcs:
        cfg = eff.cfg(f)
        # (i) bytes.decode(..., errors=<may be 'strict'>) not inside try/except UnicodeDecodeError
        for x in walk_no_nested(f.node):
            if isinstance(x, ast.Call) and call_name(x) == "decode" and isinstance(
                    x.func, ast.Attribute) and (len(x.args) >= 1 or x.keywords) and not \
                    isinstance(x.func.value, ast.Name) or (
                        isinstance(x, ast.Call) and call_name(x) == "decode" and isinstance(
                            x.func, ast.Attribute) and isinstance(x.func.value, ast.Name) and
                        x.func.value.id in ("raw_value", "extracted_bytes", "data")):
                errs = None
                for k in x.keywords:
                    if k.arg == "errors":
                        errs = k.value
                if len(x.args) >= 2:
                    errs = x.args[1]
                strict = errs is None or not (isinstance(errs, ast.Constant) and errs.value in (
                    "replace", "ignore", "backslashreplace", "surrogateescape"))
                if not (x.args or x.keywords):
                    continue
                if isinstance(errs, ast.Constant) and errs.value not in (
                        "strict", "ignore", "replace", "xmlcharrefreplace", "backslashreplace",
                        "namereplace", "surrogateescape", "surrogatepass"):
                    n += 1
                    run.violation(R, f"{f.module.rel}:{f.qual}", "unknown-error-handler",
                                  f"`{ast.unparse(x)}`: {errs.value!r} is not a registered codec "
                                  "error handler; the name is only looked up when a decoding "
                                  "error occurs, and then LookupError is raised instead of "
                                  "UnicodeDecodeError -- past the handler that turns invalid "
                                  "bytes into a DecodeError", f"{f.module.rel}:{x.lineno}",
                                  ast.unparse(x))
                    continue
                if strict:
                    n += 1
                    if eff.caught(f, x, "UnicodeDecodeError"):
                        run.ok(R, f"{f.module.rel}:{f.qual}", "bytes.decode() in strict mode is "
                               "wrapped in except UnicodeDecodeError", f"{f.module.rel}:{x.lineno}")
                    else:
                        run.violation(R, f"{f.module.rel}:{f.qual}", "implicit-UnicodeDecodeError",
                                      f"`{ast.unparse(x)}` may raise UnicodeDecodeError for bytes "
                                      "that are invalid in the string encoding; nothing on the "
                                      "way to the decode entry points converts it into a "
                                      "DecodeError", f"{f.module.rel}:{x.lineno}", ast.unparse(x))
        # (ii) state dictionary subscripts
        for x in walk_no_nested(f.node):
            if isinstance(x, ast.Subscript) and isinstance(x.ctx, ast.Load) and isinstance(
                    x.value, ast.Attribute) and x.value.attr in ("table_keys", "length_keys",
                                                                 "key_pos") and isinstance(
                                                                     x.value.value, ast.Name) and \
                    x.value.value.id == "decode_state":
                n += 1
                key = ast.unparse(x.slice)
                cont = ast.unparse(x.value)
                st = _stmt(f.node, x)
                guarded = False
                for t, pol in cfg.branch_conditions(cfg.node_of(st)):
                    nt = norm_test(t, negate=not pol)
                    if nt == norm_test(ast.parse(f"{key} in {cont}", mode="eval").body):
                        guarded = True
                if guarded or eff.caught(f, x, "KeyError"):
                    run.ok(R, f"{f.module.rel}:{f.qual}", f"`{ast.unparse(x)}` is dominated by a "
                           "membership test", f"{f.module.rel}:{x.lineno}")
                else:
                    run.violation(R, f"{f.module.rel}:{f.qual}", f"implicit-KeyError-{x.value.attr}",
                                  f"`{ast.unparse(x)}` raises KeyError when the key parameter was "
                                  "not decoded before (no dominating `in` test, no .get)",
                                  f"{f.module.rel}:{x.lineno}", stmt_key(st))
        # (iii) [i] on a filtered list
        ln = eff._len_names.get(f.key) if f.key in eff._len_names else None
        if ln is None:
            eff._data_names(f)
            ln = eff._len_names.get(f.key, set())
        for x in walk_no_nested(f.node):
            if isinstance(x, ast.Subscript) and isinstance(x.ctx, ast.Load) and isinstance(
                    x.value, ast.Name) and x.value.id in ln and not isinstance(x.slice, ast.Slice):
                n += 1
                st = _stmt(f.node, x)
                guarded = any(x.value.id in {m.id for m in ast.walk(t) if isinstance(m, ast.Name)}
                              for t, _p in cfg.branch_conditions(cfg.node_of(st)))
                if guarded or eff.caught(f, x, "IndexError"):
                    run.ok(R, f"{f.module.rel}:{f.qual}", f"`{ast.unparse(x)}` on a filtered list "
                           "is dominated by a test of its length",
                           f"{f.module.rel}:{x.lineno}")
                else:
                    run.violation(R, f"{f.module.rel}:{f.qual}", f"implicit-IndexError-{x.value.id}",
                                  f"`{ast.unparse(x)}` indexes a list that was filtered by the "
                                  "decoded value without testing that it is non-empty: "
                                  "IndexError", f"{f.module.rel}:{x.lineno}", stmt_key(st))
        # (vi) next(<filtered generator>) without default: StopIteration when nothing matches
        for x in walk_no_nested(f.node):
            if not (isinstance(x, ast.Call) and isinstance(x.func, ast.Name) and x.func.id == "next"
                    and len(x.args) == 1 and not x.keywords):
                continue
            g = x.args[0]
            if not (isinstance(g, ast.GeneratorExp) and any(c.ifs for c in g.generators) or
                    isinstance(g, ast.Call) and call_name(g) in ("iter", "filter")):
                continue
            n += 1
            st = _stmt(f.node, x)
            if eff.caught(f, x, "StopIteration"):
                run.ok(R, f"{f.module.rel}:{f.qual}", "next() without default is wrapped in except "
                       "StopIteration", f"{f.module.rel}:{x.lineno}")
            else:
                run.violation(R, f"{f.module.rel}:{f.qual}", "implicit-StopIteration",
                              f"`{ast.unparse(x)[:80]}` raises StopIteration when no element "
                              "matches the decoded value (no default, no handler): not a "
                              "DecodeError", f"{f.module.rel}:{x.lineno}", stmt_key(st))
        # (v) numeric presentation types in f-strings (`{v:02x}`): ValueError / TypeError unless the
        #     value is an int (float) -- a decoded value need not be one
        import re as _re
        names_d = eff._data_names(f)
        for x in walk_no_nested(f.node):
            if not (isinstance(x, ast.FormattedValue) and x.format_spec is not None):
                continue
            spec = "".join(v.value for v in x.format_spec.values if isinstance(v, ast.Constant))
            if not _re.search(r"[xXobdeEfFgGn%c]$", spec):
                continue
            if not eff._is_data(x.value, names_d) and not any(
                    isinstance(y, ast.Attribute) and y.attr.endswith("_value")
                    for y in ast.walk(x.value)):
                continue
            n += 1
            vtxt = ast.unparse(x.value)
            st = _stmt(f.node, x)
            sn = cfg.node_of(st)
            guarded = False
            for g in walk_no_nested(f.node):
                t = g.test if isinstance(g, (ast.Assert, ast.If)) else None
                if t is None:
                    continue
                for c in ast.walk(t):
                    if isinstance(c, ast.Call) and call_name(c) == "isinstance" and len(
                            c.args) == 2 and ast.unparse(c.args[0]) == vtxt and any(
                                k in ast.unparse(c.args[1]) for k in ("int", "float")):
                        try:
                            if cfg.dominates(cfg.node_of(g), sn):
                                guarded = True
                        except Exception:  # noqa: BLE001
                            pass
            if guarded or eff.caught(f, x, "ValueError"):
                run.ok(R, f"{f.module.rel}:{f.qual}", f"`{{{vtxt}:{spec}}}` is formatted after an "
                       "isinstance test", f"{f.module.rel}:{x.lineno}")
            else:
                run.violation(R, f"{f.module.rel}:{f.qual}", f"implicit-ValueError-format-{vtxt}",
                              f"`{{{vtxt}:{spec}}}` applies a numeric format to a value that need "
                              "not be a number (a decoded or described value of any ODX type): "
                              "ValueError instead of a DecodeError",
                              f"{f.module.rel}:{x.lineno}", stmt_key(st))
        # (iv) reads of possibly unassigned locals
        hits = use_before_def(f.node, CFG(f.node, odxraise_continues=False))
        for name in sorted({h[0] for h in hits}):
            h = [z for z in hits if z[0] == name][0]
            n += 1
            run.violation(R, f"{f.module.rel}:{f.qual}", f"use-before-assignment-{name}",
                          f"local `{name}` may be read before it is assigned: UnboundLocalError",
                          f"{f.module.rel}:{h[1].lineno}")
    run.info("implicit_catalogue", ["bytes.decode(errors=strict) -> UnicodeDecodeError",
                                    "decode_state.<dict>[key] without membership test -> KeyError",
                                    "[i] on a value-filtered list without length test -> "
                                    "IndexError", "read of a possibly unassigned local -> "
                                    "UnboundLocalError", "next(<filtered generator>) without default or handler -> StopIteration", "numeric format spec on a decoded / "
                                    "described value without isinstance test -> ValueError"])
    run.info("implicit_sites_examined", n)


def _stmt(fn: ast.AST, x: ast.AST) -> ast.stmt:
    best = None
    for st in walk_no_nested(fn):
        if isinstance(st, ast.stmt) and st is not fn and not isinstance(
                st, (ast.If, ast.For, ast.While, ast.Try, ast.With)) and any(
                    z is x for z in ast.walk(st)):
            best = st
    if best is None:
        for st in walk_no_nested(fn):
            if isinstance(st, (ast.If, ast.While)) and any(z is x for z in ast.walk(st.test)):
                best = st
            if isinstance(st, ast.For) and any(z is x for z in ast.walk(st.iter)):
                best = st
    if best is None:
        raise AnalysisError("expression without statement")
    return best


# ----------------------------------------------------------------- truncated PDUs
def _truncation(prog: Program, run: Run) -> None:
    R = "C05.R2"
    f = prog.func("DecodeState.extract_atomic_value")
    cfg = CFG(f.node)
    C = "DecodeState.extract_atomic_value"
    # the read: self.coded_message[cursor : cursor + BL]
    reads = [x for x in walk_no_nested(f.node) if isinstance(x, ast.Subscript) and ast.unparse(
        x.value) == "self.coded_message"]
    unpacks = [x for x in walk_no_nested(f.node) if isinstance(x, ast.Call) and call_name(x) in (
        "unpack_from", "unpack")]
    if not reads or not unpacks:
        raise AnalysisError("extract_atomic_value: read of coded_message / unpack not found")
    guards = [x for x in walk_no_nested(f.node) if isinstance(x, ast.If) and any(
        isinstance(s, ast.Raise) and "DecodeError" in ast.unparse(s) for s in x.body) and
              "len(self.coded_message)" in ast.unparse(x.test)]
    if not guards:
        run.violation(R, C, "no-length-guard",
                      "no `raise DecodeError` guards the read of coded_message against a PDU "
                      "that ends too early (or it uses the mode-dependent odxraise)", f.loc)
        return
    g = guards[0]
    gn = cfg.node_of(g)

    def env(node: ast.AST):
        # resolve single-definition locals
        if isinstance(node, ast.Name):
            defs = [x.value for x in walk_no_nested(f.node) if isinstance(x, ast.Assign) and
                    len(x.targets) == 1 and isinstance(x.targets[0], ast.Name) and
                    x.targets[0].id == node.id]
            if len(defs) == 1:
                return normalize(defs[0], env)
        return None
    for r in reads:
        st = _stmt(f.node, r)
        ok_dom = cfg.dominates(gn, cfg.node_of(st))
        sl = r.slice
        if not isinstance(sl, ast.Slice) or sl.upper is None or sl.lower is None:
            run.violation(R, C, "read-shape", f"`{ast.unparse(r)}` is not a bounded slice",
                          f"{f.module.rel}:{r.lineno}")
            continue
        need = normalize(sl.upper, env)  # last byte read + 1
        # the guard must reject  need > len(message)
        t = g.test
        good = False
        if isinstance(t, ast.Compare) and len(t.ops) == 1:
            l, rr = t.left, t.comparators[0]
            op = type(t.ops[0])
            if "len(" in ast.unparse(l):
                l, rr = rr, l
                op = {ast.Lt: ast.Gt, ast.Gt: ast.Lt, ast.LtE: ast.GtE, ast.GtE: ast.LtE}.get(op, op)
            if op is ast.Gt and ast.unparse(rr) == "len(self.coded_message)" and normalize(
                    l, env).same(need):
                good = True
        if good and ok_dom:
            run.ok(R, C, "the slice of coded_message is dominated by `raise DecodeError` when its "
                   "end exceeds the PDU (same length expression)", f"{f.module.rel}:{r.lineno}")
        elif not ok_dom:
            run.violation(R, C, "guard-does-not-dominate",
                          "the read of coded_message is not dominated by the length guard",
                          f"{f.module.rel}:{r.lineno}")
        else:
            run.violation(R, C, "guard-other-length",
                          f"the guard `{ast.unparse(g.test)}` does not bound the end of the "
                          f"slice `{ast.unparse(r)}` (end = {need.key()}): a PDU truncated inside "
                          "the last byte of a bit-shifted value slips through and the bit "
                          "unpacking raises a foreign exception", f"{f.module.rel}:{g.lineno}",
                          stmt_key(g))
    # nobody else takes bytes out of the PDU of a DecodeState without a guard of its own
    for g_ in prog.iter_functions():
        if not g_.module.rel.startswith("odxtools/") or g_.module.rel.startswith("odxtools/cli/") \
                or g_ is f:
            continue
        for x in walk_no_nested(g_.node):
            if not (isinstance(x, ast.Subscript) and isinstance(x.ctx, ast.Load) and isinstance(
                    x.value, ast.Attribute) and x.value.attr == "coded_message"):
                continue
            root = x.value.value
            if not (isinstance(root, ast.Name) and (root.id == "decode_state" or (
                    root.id == "self" and g_.cls is not None and g_.cls.name == "DecodeState"))):
                continue
            gcfg = CFG(g_.node)
            st_ = _stmt(g_.node, x)
            gs = [y for y in walk_no_nested(g_.node) if isinstance(y, ast.If) and any(
                isinstance(s_, ast.Raise) and "DecodeError" in ast.unparse(s_) for s_ in y.body)
                  and "coded_message)" in ast.unparse(y.test) and "len(" in ast.unparse(y.test)]
            if any(gcfg.dominates(gcfg.node_of(y), gcfg.node_of(st_)) for y in gs):
                run.ok(R, g_.qual, f"`{ast.unparse(x)[:50]}` is dominated by a length guard "
                       "raising DecodeError", f"{g_.module.rel}:{x.lineno}")
            else:
                run.violation(R, g_.qual, "unguarded-read-of-pdu",
                              f"`{ast.unparse(x)[:70]}` takes bytes out of the PDU without the "
                              "length guard of extract_atomic_value: slicing past the end "
                              "silently yields fewer bytes, so a truncated PDU is accepted with "
                              "a shortened value instead of being rejected with a DecodeError",
                              f"{g_.module.rel}:{x.lineno}", stmt_key(st_))
    # byte_length = (bit_length + cursor_bit_position + 7) // 8
    bl = [x for x in walk_no_nested(f.node) if isinstance(x, ast.Assign) and ast.unparse(
        x.targets[0]) == "byte_length"]
    if bl:
        want = normalize(ast.parse("(bit_length + self.cursor_bit_position + 7) // 8",
                                   mode="eval").body)
        if normalize(bl[0].value).same(want):
            run.ok(R, C, "byte_length = (bit_length + bit position + 7) // 8",
                   f"{f.module.rel}:{bl[0].lineno}")
        else:
            run.violation(R, C, "byte-length-formula",
                          f"`{stmt_key(bl[0])}` is not (bit_length + cursor_bit_position + 7)//8",
                          f"{f.module.rel}:{bl[0].lineno}", stmt_key(bl[0]))
    # nobody else subscripts coded_message
    for h in prog.iter_functions():
        if h is f:
            continue
        for x in walk_no_nested(h.node):
            if isinstance(x, ast.Subscript) and isinstance(x.value, ast.Attribute) and \
                    x.value.attr == "coded_message" and isinstance(x.ctx, ast.Load) and \
                    isinstance(x.value.value, ast.Name) and x.value.value.id == "decode_state":
                run.violation(R, f"{h.module.rel}:{h.qual}", "foreign-read",
                              f"`{ast.unparse(x)}` reads the PDU outside extract_atomic_value, "
                              "i.e. without the truncation guard", f"{h.module.rel}:{x.lineno}")
    # MIN-MAX: the min-length guard dominates every extraction
    m = prog.func("MinMaxLengthType.decode_from_pdu")
    mcfg = CFG(m.node)
    mg = [x for x in walk_no_nested(m.node) if isinstance(x, ast.If) and "min_length" in
          ast.unparse(x.test) and any(isinstance(s, ast.Raise) and "DecodeError" in ast.unparse(s)
                                      for s in x.body)]
    ex = [x for x in walk_no_nested(m.node) if isinstance(x, ast.Call) and call_name(x) ==
          "extract_atomic_value"]
    if not mg:
        run.violation(R, "MinMaxLengthType.decode_from_pdu", "no-min-length-guard",
                      "a PDU that ends before MIN-LENGTH bytes are available is not rejected "
                      "with an unconditional DecodeError", m.loc)
    else:
        for e in ex:
            if mcfg.dominates(mcfg.node_of(mg[0]), mcfg.node_of(_stmt(m.node, e))):
                run.ok(R, "MinMaxLengthType.decode_from_pdu", "extraction is dominated by the "
                       "MIN-LENGTH guard", f"{m.module.rel}:{e.lineno}")
            else:
                run.violation(R, "MinMaxLengthType.decode_from_pdu", "min-length-unguarded-path",
                              "there is a path to this extraction that has not checked that "
                              "MIN-LENGTH bytes are available (e.g. the END-OF-PDU branch): a "
                              "too short PDU is decoded to a shorter value instead of being "
                              "rejected", f"{m.module.rel}:{e.lineno}", stmt_key(_stmt(m.node, e)))
        t = mg[0].test
        want = norm_test(ast.parse(
            "decode_state.cursor_byte_position + self.min_length > len(decode_state.coded_message)",
            mode="eval").body)
        if norm_test(t) == want:
            run.ok(R, "MinMaxLengthType.decode_from_pdu", "guard: cursor + MIN-LENGTH > len(PDU)",
                   f"{m.module.rel}:{mg[0].lineno}")
        else:
            run.violation(R, "MinMaxLengthType.decode_from_pdu", "min-length-guard-test",
                          f"`{ast.unparse(t)}` is not cursor + min_length > len(PDU)",
                          f"{m.module.rel}:{mg[0].lineno}")


def _progress(prog: Program, run: Run) -> None:
    """`while <cursor in front of the end>: item.decode_from_pdu(state)` terminates only if each
    item moves the cursor.  Whether it does depends on the description (a structure without
    parameters, or with parameters that consume nothing, is legal), so the loop itself must
    notice: save the cursor, decode, compare, and leave with a DecodeError."""
    R = "C05.R5"
    n = 0
    for f in prog.iter_functions():
        if not f.module.rel.startswith("odxtools/") or f.module.rel.startswith("odxtools/cli/"):
            continue
        S = next((p for p in f.params() if p == "decode_state"), None)
        if S is None:
            continue
        cur = f"{S}.cursor_byte_position"
        for lp in walk_no_nested(f.node):
            if not isinstance(lp, ast.While):
                continue
            calls = [x for s_ in lp.body for x in ast.walk(s_) if isinstance(x, ast.Call) and
                     call_name(x) == "decode_from_pdu"]
            if not calls:
                continue
            n += 1
            # the item decode: the last decode_from_pdu call of the body (an end-marker probe
            # in front of it restores the cursor)
            item = calls[-1]
            saved = set()
            for s_ in lp.body:
                for x in ast.walk(s_):
                    if isinstance(x, ast.Assign) and ast.unparse(x.value) == cur and isinstance(
                            x.targets[0], ast.Name) and x.lineno <= item.lineno:
                        saved.add(x.targets[0].id)
            guard = None
            for s_ in lp.body:
                for x in ast.walk(s_):
                    if not (isinstance(x, ast.If) and x.lineno > item.lineno):
                        continue
                    t = x.test
                    neg = False
                    while isinstance(t, ast.UnaryOp) and isinstance(t.op, ast.Not):
                        t, neg = t.operand, not neg
                    if not (isinstance(t, ast.Compare) and len(t.ops) == 1):
                        continue
                    l, r = ast.unparse(t.left), ast.unparse(t.comparators[0])
                    op = type(t.ops[0])
                    stuck = (l == cur and r in saved and (
                        (op in (ast.LtE, ast.Eq) and not neg) or (op is ast.Gt and neg))) or (
                            r == cur and l in saved and (
                                (op in (ast.GtE, ast.Eq) and not neg) or (op is ast.Lt and neg)))
                    leaves = any(isinstance(y, (ast.Break, ast.Raise, ast.Return)) or (
                        isinstance(y, ast.Expr) and isinstance(y.value, ast.Call) and call_name(
                            y.value) == "odxraise") for b in x.body for y in ast.walk(b))
                    reports = any("DecodeError" in ast.unparse(b) for b in x.body)
                    hard = any(isinstance(y, (ast.Break, ast.Raise, ast.Return))
                               for b in x.body for y in ast.walk(b))
                    if stuck and leaves and reports and hard:
                        guard = x
            if guard is not None:
                run.ok(R, f.qual, f"`while {ast.unparse(lp.test)[:50]}`: an item that leaves the "
                       "cursor where it was ends the loop with a DecodeError",
                       f"{f.module.rel}:{guard.lineno}")
            else:
                run.violation(R, f.qual, "item-loop-without-progress-check",
                              f"`while {ast.unparse(lp.test)[:60]}` repeats "
                              f"`{ast.unparse(item)[:50]}` until the cursor reaches the end of "
                              "the PDU, but nothing checks that an item moved the cursor: for an "
                              "item structure that consumes no bytes (no parameters, or only "
                              "parameters without coded bytes) decoding never terminates",
                              f"{f.module.rel}:{lp.lineno}", stmt_key(lp))
    if n < 2:
        raise AnalysisError(f"only {n} cursor-driven item loops found (expected END-OF-PDU field "
                            "and dynamic end-marker field)")


def _counted_loops(prog: Program, run: Run) -> None:
    """A decoder loop whose iteration count comes from the description or from the PDU
    (`for … in range(n)`) runs n times or raises: leaving it early accepts a PDU that ends
    before the last announced item."""
    R = "C05.R2"
    n = 0
    for f in prog.iter_functions():
        if f.name != "decode_from_pdu" or not f.module.rel.startswith("odxtools/"):
            continue
        for lp in walk_no_nested(f.node):
            if not (isinstance(lp, ast.For) and isinstance(lp.iter, ast.Call) and
                    call_name(lp.iter) == "range"):
                continue
            n += 1
            C = f.qual
            exits = []

            def scan(body):
                for st in body:
                    if isinstance(st, (ast.Break, ast.Return)):
                        exits.append(st)
                    elif isinstance(st, (ast.For, ast.While)):
                        # a break in a nested loop leaves that loop only; returns still count
                        for z in ast.walk(st):
                            if isinstance(z, ast.Return):
                                exits.append(z)
                    else:
                        for fld in ("body", "orelse", "finalbody", "handlers"):
                            sub = getattr(st, fld, None)
                            if isinstance(sub, list):
                                scan([h for h in sub if isinstance(h, ast.stmt)] + [
                                    b for h in sub if isinstance(h, ast.ExceptHandler)
                                    for b in h.body])
            scan(lp.body)
            if exits:
                e = exits[0]
                run.violation(R, C, "counted-loop-left-early",
                              f"the loop `for … in {ast.unparse(lp.iter)}` can be left by "
                              f"`{stmt_key(e)}` (line {e.lineno}) before all announced items "
                              "were decoded: a PDU truncated at an item boundary is accepted "
                              "with fewer items instead of being rejected with a DecodeError",
                              f"{f.module.rel}:{e.lineno}", stmt_key(lp))
            else:
                run.ok(R, C, f"`for … in {ast.unparse(lp.iter)}` decodes every announced item "
                       "or raises", f"{f.module.rel}:{lp.lineno}")
    if n < 2:
        run.error(R, f"only {n} counted decoder loops found (expected DynamicLengthField and "
                  "StaticField)")
    # the END-OF-PDU field repeats its item while ANY byte is left: an incomplete last item must
    # reach the item decoder (which raises), not be dropped by a loop test that stops earlier
    from .common import resolve_locals
    from ..exprnorm import norm_test
    f = prog.func("EndOfPduField.decode_from_pdu")
    ws = [w for w in walk_no_nested(f.node) if isinstance(w, ast.While)]
    st = f.params()[1]
    want = norm_test(ast.parse(f"{st}.cursor_byte_position < len({st}.coded_message)",
                               mode="eval").body)
    if len(ws) == 1 and norm_test(resolve_locals(f.node, ws[0].test)) == want:
        run.ok(R, f.qual, "items are decoded while any byte is left", f"{f.module.rel}:"
               f"{ws[0].lineno}")
    elif len(ws) == 1:
        run.violation(R, f.qual, "end-of-pdu-loop-condition",
                      f"the item loop runs while `{ast.unparse(ws[0].test)}`, not while any byte "
                      "is left: a PDU that ends in the middle of an item is accepted with the "
                      "incomplete item dropped instead of being rejected with a DecodeError",
                      f"{f.module.rel}:{ws[0].lineno}", stmt_key(ws[0]))
    else:
        run.error(R, "EndOfPduField.decode_from_pdu: item loop not found")


# ----------------------------------------------------------------- handlers
def _handlers(prog: Program, run: Run) -> None:
    R = "C05.R3"
    table = [
        ("DiagLayer._decode", "decode_message", 1),
        ("DiagLayer._decode", "decode", 1),
        ("VariantMatcher._ident_response_matches", "decode", 1),
        ("odxtools.cli.snoop:handle_telegram", "decode_response", 1),
        ("odxtools.cli.snoop:handle_telegram", "decode", 1),
        ("DynamicEndmarkerField.decode_from_pdu", "decode_from_pdu", 1),
    ]
    for spec, callee, _n in table:
        f = prog.func(spec)
        found = False
        for t in walk_no_nested(f.node):
            if not isinstance(t, ast.Try):
                continue
            if not any(isinstance(x, ast.Call) and call_name(x) == callee
                       for s in t.body for x in walk_no_nested(s)):
                continue
            names: List[str] = []
            for h in t.handlers:
                if h.type is None:
                    names.append("BaseException")
                elif isinstance(h.type, ast.Tuple):
                    names += [ast.unparse(e).split(".")[-1] for e in h.type.elts]
                else:
                    names.append(ast.unparse(h.type).split(".")[-1])
            found = True
            if any(n in ("DecodeError", "OdxError", "Exception", "BaseException", "Warning")
                   for n in names):
                run.ok(R, f"{f.module.rel}:{f.qual}", f"`{callee}(...)` is tried under except "
                       f"{names}", f"{f.module.rel}:{t.lineno}")
            else:
                run.violation(R, f"{f.module.rel}:{f.qual}", f"handler-too-narrow-{callee}",
                              f"the handler around `{callee}(...)` catches {names}, which does not "
                              "cover DecodeError: one candidate that cannot decode aborts the "
                              "whole operation", f"{f.module.rel}:{t.lineno}")
            break
        if not found:
            run.violation(R, f"{f.module.rel}:{f.qual}", f"no-handler-{callee}",
                          f"`{callee}(...)` is no longer called inside a try that catches "
                          "DecodeError", f.loc)
