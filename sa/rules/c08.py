"""C08 — static descriptions of a message agree with its actual encoding."""
from __future__ import annotations

import ast
from typing import Dict, List, Optional, Set, Tuple

from ..absint import eval_test
from ..cfg import (CFG, path_conditions, symbolic_block_paths, symbolic_paths,
                   symbolic_returns)
from ..exprnorm import Poly, Rat, conj_test, norm_test, normalize
from ..report import Run
from ..src import AnalysisError, ClassInfo, FuncInfo, Program, call_name, stmt_key, walk_no_nested
from . import c01, c04, c06, common
from .common import run_as as _as

EXPLANATION = (
    "Writer/reader agreement between the static descriptions and the codec: for every "
    "diag-coded type and parameter class the expression returned by get_static_bit_length is "
    "compared with the bit length the same class hands to emplace_atomic_value / "
    "extract_atomic_value (or the bytes it skips); the composite static length uses the "
    "decoder's byte-consumption formula; size limits (BYTE-SIZE, ITEM-BYTE-SIZE) are checked on "
    "both sides after the content has been processed; is_required of each parameter kind is "
    "compared with the condition under which its encoder rejects a missing value, including the "
    "table of predefined SYSTEM parameters; required/free lists are the is_required / "
    "is_settable filters; the constant prefix stops at the first non-constant parameter.")
ASSUMPTIONS = [
    "lengths of dynamically sized objects and prefix equality on concrete PDUs are not decided",
]


def check(prog: Program, run: Run) -> None:
    run.rule("C08.R1", "static bit length = bit length actually encoded / decoded", floor=10)
    run.rule("C08.R2", "size limits are enforced by encoder and decoder alike, after the content "
             "was processed", floor=4)
    run.rule("C08.R3", "is_required <=> the encoder rejects a missing value; required / free "
             "parameter lists are the is_required / is_settable filters", floor=8)
    run.rule("C08.R4", "free <=> settable: parameters that are not settable reject supplied "
             "values", floor=4)
    run.rule("C08.R5", "the constant prefix ends at the first parameter that is not constant",
             floor=2)
    run.rule("C08.R6", "the encoder places the cursor behind a sized object where the static "
             "length (and the decoder) put it", floor=8)
    _static_lengths(prog, run)
    _size_limits(prog, run)
    _required(prog, run)
    # shared implementations (reported under this property's ids)
    _as(run, "C04.R5", "C08.R4", lambda r: c04._non_settable(prog, r))
    _as(run, "C06.R4", "C08.R5", lambda r: c06._const_prefix(prog, r))
    # the prefix is a PDU of its own: its last constant is encoded as the end of a PDU
    from . import c01
    c01.encode_state_roots(prog, run, "C08.R5")
    _as(run, "C01.R2", "C08.R6", lambda r: c01._positioning(prog, r))
    from . import c02
    _as(run, "C02.R3", "C08.R6", lambda r: c02._emplace_paths(prog, r))
    _as(run, "C02.R2", "C08.R6", lambda r: c02._sized_extent(prog, r))


def _kw(call: ast.Call, name: str) -> Optional[ast.AST]:
    for k in call.keywords:
        if k.arg == name:
            return k.value
    return None


def _static_lengths(prog: Program, run: Run) -> None:
    R = "C08.R1"
    # ---- diag coded types
    sl = prog.cls("StandardLengthType")
    g = sl.methods["get_static_bit_length"]
    cfg = CFG(g.node)
    enc_bl = None
    for m in ("encode_into_pdu", "decode_from_pdu"):
        f = sl.methods[m]
        calls = [c for c in walk_no_nested(f.node) if isinstance(c, ast.Call) and call_name(c) in (
            "emplace_atomic_value", "extract_atomic_value")]
        if not calls:
            raise AnalysisError(f"StandardLengthType.{m}: atomic call not found")
        bl = _kw(calls[0], "bit_length")
        enc_bl = ast.unparse(bl) if bl is not None else None
        want_cond = norm_test(ast.parse("self.bit_mask is not None and self.is_condensed",
                                        mode="eval").body)
        for r in [x for x in walk_no_nested(g.node) if isinstance(x, ast.Return)]:
            # which case a return serves is read off its path condition (canonical form), not
            # off the way the branches happen to be written
            pc = conj_test(path_conditions(cfg, cfg.node_of(r)))
            got = ast.unparse(r.value)
            label = "condensed BIT-MASK" if pc == want_cond else "plain"
            if got == enc_bl:
                run.ok(R, f"StandardLengthType.{m}", f"{label}: static length `{got}` is the "
                       "bit_length handed to the atomic codec", f"{g.module.rel}:{r.lineno}")
            else:
                run.violation(R, "StandardLengthType.get_static_bit_length",
                              f"{'condensed' if 'condensed' in label else 'plain'}-differs-{m}",
                              f"{label}: the static bit length is `{got}`, but {m} "
                              f"{'encodes' if 'encode' in m else 'decodes'} `{enc_bl}` bits: "
                              "static length, required buffer size and the position of the "
                              "following parameters disagree with the actual PDU",
                              f"{g.module.rel}:{r.lineno}", stmt_key(r))
    for cls in ("MinMaxLengthType", "LeadingLengthInfoType", "ParamLengthInfoType"):
        ci = prog.cls(cls)
        m = prog.lookup(ci, "get_static_bit_length")
        rets = [ast.unparse(r.value) for r in walk_no_nested(m.node) if isinstance(r, ast.Return)]
        if rets == ["None"]:
            run.ok(R, f"{cls}.get_static_bit_length", "dynamic length: reports None", m.loc)
        else:
            run.violation(R, f"{cls}.get_static_bit_length", "claims-static",
                          f"{cls} has a run-time dependent length but reports {rets}", m.loc)
    # ---- parameters / DOPs delegating
    def returned(m: FuncInfo) -> Set[str]:
        """the expressions a method can return (locals substituted), `None` excluded"""
        out = set()
        for _c, e, _r in symbolic_returns(m.node):
            if e is not None and not (isinstance(e, ast.Constant) and e.value is None):
                out.add(ast.unparse(e))
        return out
    deleg = [("CodedConstParameter", {"self.diag_coded_type.get_static_bit_length()"}),
             ("NrcConstParameter", {"self.diag_coded_type.get_static_bit_length()"}),
             ("DataObjectProperty", {"self.diag_coded_type.get_static_bit_length()"})]
    for cls, want in deleg:
        m = prog.cls(cls).methods.get("get_static_bit_length")
        rets = returned(m) if m else set()
        if rets == want:
            run.ok(R, f"{cls}.get_static_bit_length", "delegates to the diag-coded type that does "
                   "the coding", m.loc)
        else:
            run.violation(R, f"{cls}.get_static_bit_length", "delegation",
                          f"returns {sorted(rets)}, expected `{sorted(want)[0]}`",
                          prog.cls(cls).loc)
    pw = prog.cls("ParameterWithDOP").methods.get("get_static_bit_length")
    rets = returned(pw) if pw else set()
    if rets and rets <= {"self.dop.get_static_bit_length()", "self._dop.get_static_bit_length()"}:
        run.ok(R, "ParameterWithDOP.get_static_bit_length", "delegates to its DOP", pw.loc)
    else:
        run.violation(R, "ParameterWithDOP.get_static_bit_length", "delegation",
                      f"does not report the static length of its DOP (returns {sorted(rets)})",
                      prog.cls("ParameterWithDOP").loc)
    # ---- parameters coding themselves
    for cls in ("ReservedParameter", "MatchingRequestParameter"):
        ci = prog.cls(cls)
        m = ci.methods["get_static_bit_length"]
        rets_ = [r.value for r in walk_no_nested(m.node) if isinstance(r, ast.Return)]
        d = ci.methods["_decode_positioned_from_pdu"]
        c = [x for x in walk_no_nested(d.node) if isinstance(x, ast.Call) and call_name(x) ==
             "extract_atomic_value"]
        bl = _kw(c[0], "bit_length") if c else None
        if len(rets_) == 1 and bl is not None and normalize(rets_[0]).same(normalize(bl)):
            run.ok(R, f"{cls}.get_static_bit_length", f"`{ast.unparse(rets_[0])}` = bits consumed "
                   "by the decoder", m.loc)
        else:
            run.violation(R, f"{cls}.get_static_bit_length", "differs-from-decoder",
                          f"static length `{ast.unparse(rets_[0]) if rets_ else None}` but the "
                          f"decoder consumes `{ast.unparse(bl) if bl is not None else None}` bits",
                          m.loc)
    # the encoder emplaces triggering_request[p : p + byte_length] (locals followed)
    mr = prog.cls("MatchingRequestParameter").methods["_encode_positioned_into_pdu"]
    emp = [x for x in walk_no_nested(mr.node) if isinstance(x, ast.Call) and call_name(x) ==
           "emplace_bytes" and x.args]
    good = False
    if emp:
        arg = common.resolve_locals(mr.node, emp[0].args[0])
        while isinstance(arg, ast.Call) and call_name(arg) in ("bytes", "bytearray") and arg.args:
            arg = arg.args[0]
        if isinstance(arg, ast.Subscript) and isinstance(arg.slice, ast.Slice) and \
                arg.slice.lower is not None and arg.slice.upper is not None and \
                "triggering_request" in ast.unparse(arg.value):
            ln = normalize(ast.BinOp(left=arg.slice.upper, op=ast.Sub(), right=arg.slice.lower))
            good = ln.same(normalize(ast.parse("self.byte_length", mode="eval").body)) and \
                normalize(arg.slice.lower).same(normalize(ast.parse(
                    "self.request_byte_position", mode="eval").body))
    # ... and only when the request really has that many bytes: a slice of a shorter request is
    # silently shorter, the PDU then lacks bytes the static length promises
    if good and emp:
        mcfg = CFG(mr.node)
        est = None
        for st_ in walk_no_nested(mr.node):
            if isinstance(st_, ast.stmt) and not isinstance(st_, (ast.If, ast.For, ast.While,
                                                                  ast.Try, ast.With)) and any(
                    z is emp[0] for z in ast.walk(st_)):
                est = st_
        upper = common.resolve_locals(mr.node, arg.slice.upper)
        reqtxt = ast.unparse(arg.value)
        enough = False
        for t, pol in (mcfg.branch_conditions(mcfg.node_of(est)) if est is not None else []):
            t = common.resolve_locals(mr.node, t)
            if not (isinstance(t, ast.Compare) and len(t.ops) == 1):
                continue
            l, r, op = t.left, t.comparators[0], type(t.ops[0])
            if ast.unparse(r) == f"len({reqtxt})":
                l, r = r, l
                op = {ast.Lt: ast.Gt, ast.Gt: ast.Lt, ast.LtE: ast.GtE, ast.GtE: ast.LtE}.get(
                    op, op)
            if ast.unparse(l) != f"len({reqtxt})":
                continue
            if not pol:
                op = {ast.Lt: ast.GtE, ast.LtE: ast.Gt, ast.Gt: ast.LtE, ast.GtE: ast.Lt}.get(
                    op, op)
            extra = {ast.GtE: 0, ast.Gt: 1}.get(op)
            if extra is None:
                continue
            d = (normalize(r) - normalize(upper)).const_value()
            if d is not None and d + extra >= 0:
                enough = True
        if enough:
            run.ok(R, "MatchingRequestParameter._encode_positioned_into_pdu",
                   "the request is required to be at least position + byte_length bytes long",
                   mr.loc)
        else:
            run.violation(R, "MatchingRequestParameter._encode_positioned_into_pdu",
                          "request-length-guard",
                          f"the bytes are taken from `{ast.unparse(arg)}` without establishing "
                          f"len({reqtxt}) >= {ast.unparse(upper)}: a request that is too short "
                          "yields fewer bytes than the static length, silently", mr.loc)
    if good:
        run.ok(R, "MatchingRequestParameter._encode_positioned_into_pdu",
               "emplaces exactly byte_length bytes of the request", mr.loc)
    else:
        run.violation(R, "MatchingRequestParameter._encode_positioned_into_pdu", "length",
                      "does not emplace exactly byte_length bytes of the request, taken at "
                      "request_byte_position", mr.loc)
    # ---- structures
    bs = prog.cls("BasicStructure").methods["get_static_bit_length"]
    sized = norm_test(ast.parse("self.byte_size is not None", mode="eval").body)
    ok_bs = True
    seen_bs = set()
    for conds, e, r in symbolic_returns(bs.node):
        key = conj_test(conds)
        if key == sized:
            seen_bs.add("sized")
            ok_bs &= e is not None and normalize(e).same(normalize(ast.parse(
                "8 * self.byte_size", mode="eval").body))
        elif key == norm_test(ast.parse("self.byte_size is None", mode="eval").body):
            seen_bs.add("unsized")
            ok_bs &= e is not None and ast.unparse(e) == \
                "composite_codec_get_static_bit_length(self)"
        else:
            ok_bs = False
    if ok_bs and seen_bs == {"sized", "unsized"}:
        run.ok(R, "BasicStructure.get_static_bit_length", "8 * BYTE-SIZE if given, else the "
               "composite length", bs.loc)
    else:
        run.violation(R, "BasicStructure.get_static_bit_length", "formula",
                      "not 8 * byte_size / composite length", bs.loc)
    _composite_length(prog, run, R)
    for cls in ("Request", "Response"):
        m = prog.cls(cls).methods.get("get_static_bit_length")
        if m is not None and returned(m) == {"composite_codec_get_static_bit_length(self)"}:
            run.ok(R, f"{cls}.get_static_bit_length", "composite length of its own parameters",
                   m.loc)
        else:
            run.violation(R, f"{cls}.get_static_bit_length", "delegation",
                          "is not the composite length of its parameters", prog.cls(cls).loc)


def _composite_length(prog: Program, run: Run, R: str) -> None:
    """composite_codec_get_static_bit_length as a loop summary: one iteration, symbolically, maps
    (cursor, byte_length) to (start + ((bit_position or 0) + n + 7) // 8, max(byte_length, that))
    with start = BYTE-POSITION if given, else the cursor; an unknown n returns None; the result
    is 8 * byte_length."""
    f = prog.func("odxtools.codec:composite_codec_get_static_bit_length")
    loops = [x for x in f.node.body if isinstance(x, ast.For)]
    if len(loops) != 1 or not isinstance(loops[0].target, ast.Name):
        raise AnalysisError(f"{f.qual}: expected one loop over the parameters")
    lp = loops[0]
    pv = lp.target.id
    it = lp.iter
    while isinstance(it, ast.Call) and call_name(it) in ("list", "tuple", "iter") and it.args:
        it = it.args[0]
    if ast.unparse(it) == f"{f.params()[0]}.parameters":
        run.ok(R, f.qual, "walks codec.parameters", f.loc)
    else:
        run.violation(R, f.qual, "walk", "does not walk codec.parameters", f.loc)
    # the accumulators: initialised to 0 before the loop, `8 * <acc>` returned after it
    after = [x for x in f.node.body if isinstance(x, ast.Return)]
    if len(after) != 1 or after[0].value is None:
        raise AnalysisError(f"{f.qual}: expected one return after the loop")

    def env(node: ast.AST):
        s_ = ast.unparse(node)
        if s_ == f"{pv}.get_static_bit_length()":
            return Rat(Poly.atom("N"))
        if s_ in (f"{pv}.bit_position or 0", f"({pv}.bit_position or 0)"):
            return Rat(Poly.atom("B"))
        return None
    paths = symbolic_block_paths(lp.body)
    n_none = norm_test(ast.parse(f"{pv}.get_static_bit_length() is None", mode="eval").body)
    positioned = norm_test(ast.parse(f"{pv}.byte_position is not None", mode="eval").body)
    accs = [v for v in ("byte_length",) if any(v in p_.env for p_ in paths)]
    # which free name is the cursor / the extent? the extent is the one returned
    ret_names = [n.id for n in ast.walk(after[0].value) if isinstance(n, ast.Name)]
    if len(ret_names) != 1:
        raise AnalysisError(f"{f.qual}: the result is not computed from one accumulator")
    ext = ret_names[0]
    if normalize(after[0].value).same(normalize(ast.parse(f"8 * {ext}", mode="eval").body)):
        run.ok(R, f.qual, "the result is in bits", f.loc)
    else:
        run.violation(R, f.qual, "bits", "expected: the result is in bits", f.loc)
    curs = sorted({k for p_ in paths for k in p_.env if k != ext and "." not in k and
                   isinstance(p_.env[k], ast.AST) and any(
                       isinstance(n, ast.Name) and n.id == k for n in ast.walk(p_.env[k]))})
    problems: List[Tuple[str, str]] = []
    seen = set()
    for p_ in paths:
        conds = [(t, pol) for t, pol in p_.conds]
        keys = {norm_test(t, negate=not pol) for t, pol in conds}
        if n_none in keys:
            seen.add("unknown")
            if p_.ret is None or not (p_.retval is None or (isinstance(
                    p_.retval, ast.Constant) and p_.retval.value is None)):
                problems.append(("none-propagates", "a parameter of unknown length does not "
                                 "make the whole length unknown (return None)"))
            continue
        if p_.ret is not None:
            problems.append(("none-propagates", "the walk is left early although the length of "
                             "the parameter is known"))
            continue
        cur_names = [k for k in p_.env if k != ext and k in curs]
        if ext not in p_.env or len(cur_names) != 1:
            problems.append(("max-extent", "the extent reached is not tracked for every "
                             "parameter"))
            continue
        cur = cur_names[0]
        start = f"{pv}.byte_position" if positioned in keys else cur
        seen.add("positioned" if positioned in keys else "sequential")
        want_cur = normalize(ast.parse(f"{start} + (N + B + 7) // 8", mode="eval").body)
        sub = {"N": f"{pv}.get_static_bit_length()"}
        got_cur = normalize(p_.env[cur], env)
        want_cur = normalize(ast.parse(
            f"{start} + (({pv}.bit_position or 0) + {pv}.get_static_bit_length() + 7) // 8",
            mode="eval").body, env)
        if not got_cur.same(want_cur):
            if positioned in keys and got_cur.same(normalize(ast.parse(
                    f"{cur} + (({pv}.bit_position or 0) + {pv}.get_static_bit_length() + 7) // 8",
                    mode="eval").body, env)):
                problems.append(("explicit-position", "an explicitly positioned parameter does "
                                 "not move the cursor to its BYTE-POSITION"))
            else:
                problems.append(("advance-formula",
                                 f"one parameter moves the cursor to `{ast.unparse(p_.env[cur])}`"
                                 f", not to {start} + ((bit_position or 0) + n + 7) // 8: the "
                                 "reported static length differs from the encoded length for "
                                 "parameters at a non-zero bit position"))
        e = p_.env[ext]
        if isinstance(e, ast.Call) and call_name(e) == "max" and len(e.args) == 2 and \
                not e.keywords:
            ks = {normalize(a_, env).key() for a_ in e.args}
            if ks != {normalize(ast.Name(id=ext, ctx=ast.Load())).key(), got_cur.key()}:
                problems.append(("max-extent", f"the extent becomes `{ast.unparse(e)}`, not the "
                                 "maximum of the extent so far and the new cursor"))
        else:
            problems.append(("max-extent", f"the extent becomes `{ast.unparse(e)}`, not the "
                             "maximum of the extent so far and the new cursor"))
    for need, key, what in (("unknown", "none-propagates", "a parameter of unknown length makes "
                             "the whole length unknown"),
                            ("positioned", "explicit-position", "an explicitly positioned "
                             "parameter moves the cursor to its BYTE-POSITION"),
                            ("sequential", "advance-formula", "a parameter without BYTE-POSITION "
                             "follows the previous one")):
        if need not in seen:
            problems.append((key, f"expected: {what}"))
    reported = set()
    for key, what in problems:
        if key in reported:
            continue
        reported.add(key)
        run.violation(R, f.qual, key, what, f"{f.module.rel}:{lp.lineno}")
    for key, what in (("none-propagates", "a parameter of unknown length makes the whole length "
                       "unknown"),
                      ("explicit-position", "an explicitly positioned parameter moves the cursor "
                       "to its BYTE-POSITION"),
                      ("advance-formula", "each parameter advances the cursor by ((bit_position "
                       "or 0) + n + 7)//8 bytes, the decoder's consumption formula"),
                      ("max-extent", "the length is the maximum extent reached")):
        if key not in reported:
            run.ok(R, f.qual, what, f"{f.module.rel}:{lp.lineno}")


def _size_limits(prog: Program, run: Run) -> None:
    R = "C08.R2"
    table = [
        ("BasicStructure", "encode_into_pdu", "composite_codec_encode_into_pdu", "byte_size",
         "EncodeError"),
        ("BasicStructure", "decode_from_pdu", "composite_codec_decode_from_pdu", "byte_size",
         "DecodeError"),
        ("StaticField", "encode_into_pdu", "encode_into_pdu", "item_byte_size", None),
        ("StaticField", "decode_from_pdu", "decode_from_pdu", "item_byte_size", "DecodeError"),
    ]
    for cls, meth, content_call, limit, exc in table:
        f = prog.cls(cls).methods[meth]
        cfg = CFG(f.node)
        C = f"{cls}.{meth}"
        calls = [x for x in walk_no_nested(f.node) if isinstance(x, ast.Call) and call_name(x) ==
                 content_call and not (isinstance(x.func, ast.Attribute) and isinstance(
                     x.func.value, ast.Name) and x.func.value.id in ("encode_state",
                                                                     "decode_state"))]
        if not calls:
            raise AnalysisError(f"{C}: content call {content_call} not found")
        cn = cfg.node_of(_stmt(f.node, calls[0]))
        # locals that merely stand for self.<limit> are read through
        from .common import resolve_locals as _rl
        lim_alias = {x.targets[0].id for x in walk_no_nested(f.node) if isinstance(x, ast.Assign)
                     and isinstance(x.targets[0], ast.Name) and
                     ast.unparse(x.value) == f"self.{limit}"}

        class _Lim(ast.NodeTransformer):
            def visit_Name(self, node: ast.Name) -> ast.AST:
                if node.id in lim_alias and isinstance(node.ctx, ast.Load):
                    return ast.parse(f"self.{limit}", mode="eval").body
                return node
        import copy as _copy
        for x in walk_no_nested(f.node):
            if isinstance(x, ast.If) and lim_alias and any(
                    isinstance(n_, ast.Name) and n_.id in lim_alias for n_ in ast.walk(x.test)):
                x.test = _Lim().visit(x.test)
        big = [x for x in walk_no_nested(f.node) if isinstance(x, ast.If) and f"self.{limit}" in
               ast.unparse(x.test) and any(isinstance(c, ast.Compare) and isinstance(
                   c.ops[0], (ast.Gt, ast.Lt, ast.GtE, ast.LtE)) for c in ast.walk(x.test)) and
               any(isinstance(y, ast.Call) and call_name(y) == "odxraise" for s in x.body
                   for y in ast.walk(s))]
        over = []
        for x in big:
            # "actual > limit"
            for c in ast.walk(x.test):
                if isinstance(c, ast.Compare) and len(c.ops) == 1:
                    l, r = ast.unparse(c.left), ast.unparse(c.comparators[0])
                    if (isinstance(c.ops[0], ast.Gt) and r == f"self.{limit}") or (
                            isinstance(c.ops[0], ast.Lt) and l == f"self.{limit}"):
                        over.append(x)
        if not over:
            run.violation(R, C, f"oversize-{limit}-unchecked",
                          f"content larger than {limit.upper().replace('_', '-')} is not "
                          f"rejected by {meth} although the sibling direction rejects it", f.loc)
            continue
        o = over[0]
        if cfg.dominates(cn, cfg.node_of(o)):
            run.ok(R, C, f"content larger than {limit} is rejected after the content has been "
                   "processed", f"{f.module.rel}:{o.lineno}")
        else:
            run.violation(R, C, f"oversize-{limit}-dead-check",
                          f"the check `{ast.unparse(o.test)}` runs before the content is "
                          "processed (the measured size is always 0): oversize content is never "
                          "detected", f"{f.module.rel}:{o.lineno}", ast.unparse(o.test))
        if exc is not None:
            raises = [y for s in o.body for y in ast.walk(s) if isinstance(y, ast.Call) and
                      call_name(y) == "odxraise"]
            if raises and exc in ast.unparse(raises[0]):
                run.ok(R, C, f"reported as {exc}", f"{f.module.rel}:{o.lineno}")
            else:
                run.violation(R, C, f"oversize-{limit}-error-type",
                              f"oversize content is not reported as {exc}",
                              f"{f.module.rel}:{o.lineno}")


def _stmt(fn: ast.AST, x: ast.AST) -> ast.stmt:
    best = None
    for st in walk_no_nested(fn):
        if isinstance(st, ast.stmt) and st is not fn and not isinstance(
                st, (ast.If, ast.For, ast.While, ast.Try, ast.With)) and any(
                    z is x for z in ast.walk(st)):
            best = st
    if best is None:
        raise AnalysisError("expression without statement")
    return best


def _bool_returns(m: FuncInfo, env: Dict[str, object]) -> Set[object]:
    """the truth values a predicate method can return in a scenario (None = undecided)"""
    out: Set[object] = set()
    for conds, e, _r in symbolic_returns(m.node):
        if all(eval_test(t, env) in (None, pol) for t, pol in conds):
            out.add(None if e is None else eval_test(e, env))
    return out


def _is_error(st: ast.AST, cls: str = "EncodeError") -> bool:
    if isinstance(st, ast.Raise):
        return st.exc is not None and cls in ast.unparse(st.exc)
    return isinstance(st, ast.Expr) and isinstance(st.value, ast.Call) and call_name(
        st.value) == "odxraise" and cls in ast.unparse(st.value)


def _scenario_paths(fn: ast.AST, env: Dict[str, object], cls: str = "EncodeError"):
    """(paths of fn consistent with the scenario, does every one of them report an EncodeError,
    does none) -- paths that end in a `raise EncodeError` count as reporting"""
    paths = symbolic_paths(fn)
    cons = [p for p in paths if all(eval_test(t, env) in (None, pol) for t, pol in p.conds)]
    errs = [any(_is_error(st, cls) for st in p.trace) for p in cons]
    # a scenario whose every path leaves through `raise` has no path to EXIT at all
    return cons, (all(errs) if cons else True), (not any(errs) and bool(cons))


def _required(prog: Program, run: Run) -> None:
    R = "C08.R3"
    # lists are the filters
    for fn, attr in (("composite_codec_get_required_parameters", "is_required"),
                     ("composite_codec_get_free_parameters", "is_settable")):
        f = prog.func(f"odxtools.codec:{fn}")
        vals = [e for _c, e, _r in symbolic_returns(f.node)]
        good = bool(vals)
        for e in vals:
            while isinstance(e, ast.Call) and call_name(e) in ("list", "tuple") and \
                    len(e.args) == 1:
                e = e.args[0]
            if not (isinstance(e, (ast.ListComp, ast.GeneratorExp)) and len(e.generators) == 1
                    and isinstance(e.generators[0].target, ast.Name)):
                good = False
                continue
            g = e.generators[0]
            v = g.target.id
            good &= ast.unparse(g.iter) == f"{f.params()[0]}.parameters" and ast.unparse(
                e.elt) == v and [norm_test(i) for i in g.ifs] == [norm_test(ast.parse(
                    f"{v}.{attr}", mode="eval").body)]
        if good:
            run.ok(R, fn, f"= parameters with {attr}", f.loc)
        else:
            run.violation(R, fn, "filter",
                          f"returns {[ast.unparse(e) if e is not None else None for e in vals]}, "
                          f"expected the parameters with {attr}", f.loc)
    for cls in ("Request", "Response", "BasicStructure"):
        ci = prog.cls(cls)
        for prop, helper in (("required_parameters", "composite_codec_get_required_parameters"),
                             ("free_parameters", "composite_codec_get_free_parameters")):
            m = ci.methods.get(prop)
            if m is not None and {ast.unparse(e) if e is not None else None
                                  for _c, e, _r in symbolic_returns(m.node)} == {
                                      f"{helper}(self)"}:
                run.ok(R, f"{cls}.{prop}", f"= {helper}(self)", m.loc)
            else:
                run.violation(R, f"{cls}.{prop}", "delegation", f"is not {helper}(self)", ci.loc)
    # per kind: is_required vs the encoder's treatment of a missing value
    vp = prog.cls("ValueParameter")
    enc = vp.methods["_encode_positioned_into_pdu"]
    req = vp.methods.get("is_required")
    pv = enc.params()[1]
    dflt = "self._physical_default_value"
    problems = []
    if req is None or _bool_returns(req, {dflt: None}) != {True} or \
            _bool_returns(req, {dflt: "D"}) != {False}:
        problems.append("is_required is not `there is no PHYSICAL-DEFAULT-VALUE`")
    _cons, all_err, _none = _scenario_paths(enc.node, {pv: None, dflt: None})
    if not all_err:
        problems.append("a missing value without a default is not rejected with EncodeError")
    cons, _all, no_err = _scenario_paths(enc.node, {pv: None, dflt: "D"})
    if not no_err or any(ast.unparse(p.env.get(pv, ast.Name(id=pv))) != dflt for p in cons):
        problems.append("a missing value is not replaced by PHYSICAL-DEFAULT-VALUE")
    cons, _all, no_err = _scenario_paths(enc.node, {pv: "V", dflt: "D"})
    if not no_err or any(pv in p.env and ast.unparse(p.env[pv]) != pv for p in cons):
        problems.append("a supplied value is rejected or replaced")
    if not problems:
        run.ok(R, "ValueParameter.is_required", "required iff there is no default; the encoder "
               "substitutes the default and rejects a missing value otherwise (4 scenarios)",
               enc.loc)
    else:
        run.violation(R, "ValueParameter.is_required", "default",
                      "; ".join(problems) + ": the encoder must use PHYSICAL-DEFAULT-VALUE for "
                      "a missing value and raise EncodeError if there is none, and is_required "
                      "must say exactly when that happens", vp.loc)
    sp = prog.cls("SystemParameter")
    enc = sp.methods["_encode_positioned_into_pdu"]
    consts = set()
    for x in walk_no_nested(enc.node):
        if isinstance(x, ast.Compare) and ast.unparse(x.left) == "self.sysparam" and isinstance(
                x.comparators[0], ast.Constant):
            consts.add(x.comparators[0].value)
    pre = None
    for st in sp.module.tree.body:
        if isinstance(st, ast.Assign) and ast.unparse(st.targets[0]) == \
                "PREDEFINED_SYSPARAM_VALUES":
            try:
                pre = set(ast.literal_eval(st.value))
            except Exception:
                pre = None
    if pre is None:
        raise AnalysisError("PREDEFINED_SYSPARAM_VALUES not found")
    req = sp.methods.get("is_required")
    table_env = {"PREDEFINED_SYSPARAM_VALUES": sorted(pre)}
    req_ok = req is not None and all(
        _bool_returns(req, dict(table_env, **{"self.sysparam": n})) == {n not in pre}
        for n in sorted(pre | consts) + ["SOMETHING-ELSE"])
    if req_ok and consts == pre:
        run.ok(R, "SystemParameter.is_required", f"required iff the SYSPARAM is not one of the "
               f"{len(pre)} predefined ones, and the encoder computes exactly those", enc.loc)
    else:
        run.violation(R, "SystemParameter.is_required", "predefined-table",
                      f"the encoder computes values for {sorted(consts - pre)} that are not in "
                      f"PREDEFINED_SYSPARAM_VALUES and lacks {sorted(pre - consts)}: "
                      "is_required and the encoder disagree for these system parameters",
                      sp.loc)
    # a SYSTEM parameter of a kind odxtools cannot compute is required: its omission is rejected
    # by the structure (centrally, for every kind) or by the parameter itself
    cc = prog.func("odxtools.codec:composite_codec_encode_into_pdu")
    central = False
    for x in walk_no_nested(cc.node):
        if isinstance(x, ast.If) and any(isinstance(y, ast.Attribute) and y.attr == "is_required"
                                         for y in ast.walk(x.test)) and any(
                _is_error(s_) for s_ in x.body):
            central = True
    _c, own_err, _n = _scenario_paths(enc.node, {enc.params()[1]: None,
                                                 "self.sysparam": "SOMETHING-ELSE"}, cls="")
    if central or own_err:
        run.ok(R, "SystemParameter.is_required", "a missing value for a SYSPARAM that cannot be "
               "computed is rejected " + " and ".join(
                   (["by the structure"] if central else []) +
                   (["by the parameter"] if own_err else [])), enc.loc)
    else:
        run.violation(R, "SystemParameter.is_required", "omission-accepted",
                      "a SYSTEM parameter whose SYSPARAM is not predefined is reported as "
                      "required, but neither composite_codec_encode_into_pdu nor the parameter "
                      "rejects its omission: the structure encodes without it", enc.loc)
    ts = prog.cls("TableStructParameter")
    enc = ts.methods["_encode_positioned_into_pdu"]
    req = ts.methods.get("is_required")
    if req is not None and _bool_returns(req, {}) == {True} and _scenario_paths(
            enc.node, {enc.params()[1]: None})[1]:
        run.ok(R, "TableStructParameter.is_required", "always required; a missing value is "
               "rejected first", enc.loc)
    else:
        run.violation(R, "TableStructParameter.is_required", "always",
                      "is_required / encoder disagree", ts.loc)
    for cls in ("CodedConstParameter", "PhysicalConstantParameter", "NrcConstParameter",
                "ReservedParameter", "MatchingRequestParameter", "LengthKeyParameter",
                "TableKeyParameter"):
        ci = prog.cls(cls)
        req = prog.lookup(ci, "is_required")
        if req is None or _bool_returns(req, {}) != {False}:
            run.violation(R, f"{cls}.is_required", "constant",
                          f"{cls} never needs a user supplied value but is_required is "
                          f"`{sorted(map(str, _bool_returns(req, {}))) if req else None}`: encoding fails with 'required parameter missing' "
                          "for a message that can be encoded", ci.loc)
            continue
        enc = prog.lookup(ci, "_encode_positioned_into_pdu")
        name = "encode_placeholder_into_pdu" if "Key" in cls else "_encode_positioned_into_pdu"
        enc = prog.lookup(ci, name)
        cfg = CFG(enc.node)
        bad = False
        for x in walk_no_nested(enc.node):
            if isinstance(x, ast.Call) and call_name(x) == "odxraise" and "EncodeError" in \
                    ast.unparse(x):
                st = _stmt(enc.node, x)
                conds = [norm_test(t, negate=not p) for t, p in cfg.branch_conditions(
                    cfg.node_of(st))]
                pv = enc.params()[1]
                if any(c == f"{pv} is None" for c in conds):
                    bad = True
        if bad:
            run.violation(R, f"{cls}.is_required", "rejects-missing",
                          f"{cls}.is_required is False but its encoder rejects a missing value",
                          enc.loc)
        else:
            run.ok(R, f"{cls}.is_required", "not required, and the encoder accepts a missing "
                   "value", enc.loc)
    # DiagService.encode_request enforces the same sets
    er = prog.func("DiagService.encode_request")
    # some rejection (odxassert / raise / odxraise) depends on the request's required parameters
    # and on the supplied names, another on the request's parameter names and the supplied names
    kw = er.node.args.kwarg.arg if er.node.args.kwarg else "kwargs"
    deps: List[Set[str]] = []
    for x in walk_no_nested(er.node):
        cond = None
        if isinstance(x, ast.Call) and call_name(x) == "odxassert" and x.args:
            cond = x.args[0]
        elif isinstance(x, ast.If) and any(isinstance(y, ast.Raise) or (
                isinstance(y, ast.Call) and call_name(y) == "odxraise")
                for b_ in x.body for y in ast.walk(b_)):
            cond = x.test
        if cond is None:
            continue
        full = common.resolve_locals(er.node, cond)
        d = set()
        for y in ast.walk(full):
            if isinstance(y, ast.Attribute) and ast.unparse(y) == "self.request.required_parameters":
                d.add("required")
            if isinstance(y, ast.Attribute) and ast.unparse(y) == "self.request.parameters":
                d.add("all")
            if isinstance(y, ast.Name) and y.id == kw:
                d.add("supplied")
        deps.append(d)
    if any({"required", "supplied"} <= d for d in deps) and any(
            {"all", "supplied"} <= d for d in deps):
        run.ok(R, "DiagService.encode_request", "checks the request's required parameters and "
               "rejects unknown names", er.loc)
    else:
        run.violation(R, "DiagService.encode_request", "checks", "does not check required / "
                      "unknown parameters against the request", er.loc)
