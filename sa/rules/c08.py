"""C08 — static descriptions of a message agree with its actual encoding."""
from __future__ import annotations

import ast
from typing import Dict, List, Optional, Set, Tuple

from ..cfg import CFG, path_conditions
from ..exprnorm import Poly, Rat, conj_test, norm_test, normalize
from ..report import Run
from ..src import AnalysisError, ClassInfo, FuncInfo, Program, call_name, stmt_key, walk_no_nested
from . import c01, c04, c06
from .common import run_as as _as

EXPLANATION = (
    "Writer/reader agreement between the static descriptions and the codec: for every "
    "diag-coded type and parameter class the expression returned by get_static_bit_length is "
    "compared with the bit length the same class hands to emplace_atomic_value / "
    "extract_atomic_value (or the bytes it skips); the composite static length uses the "
    "decoder's byte-consumption formula; size limits (BYTE-SIZE, ITEM-BYTE-SIZE) are checked on "
    "both sides after the content has been processed; is_required of each parameter kind is "
    "compared with the condition under which its encoder rejects a missing value, including the "
    "table of predefined SYSTEM parameters; required/free lists are the is_required / "
    "is_settable filters; the constant prefix stops at the first non-constant parameter.")
ASSUMPTIONS = [
    "lengths of dynamically sized objects and prefix equality on concrete PDUs are not decided",
]


def check(prog: Program, run: Run) -> None:
    run.rule("C08.R1", "static bit length = bit length actually encoded / decoded", floor=10)
    run.rule("C08.R2", "size limits are enforced by encoder and decoder alike, after the content "
             "was processed", floor=4)
    run.rule("C08.R3", "is_required <=> the encoder rejects a missing value; required / free "
             "parameter lists are the is_required / is_settable filters", floor=8)
    run.rule("C08.R4", "free <=> settable: parameters that are not settable reject supplied "
             "values", floor=4)
    run.rule("C08.R5", "the constant prefix ends at the first parameter that is not constant",
             floor=2)
    run.rule("C08.R6", "the encoder places the cursor behind a sized object where the static "
             "length (and the decoder) put it", floor=8)
    _static_lengths(prog, run)
    _size_limits(prog, run)
    _required(prog, run)
    # shared implementations (reported under this property's ids)
    _as(run, "C04.R5", "C08.R4", lambda r: c04._non_settable(prog, r))
    _as(run, "C06.R4", "C08.R5", lambda r: c06._const_prefix(prog, r))
    _as(run, "C01.R2", "C08.R6", lambda r: c01._positioning(prog, r))
    from . import c02
    _as(run, "C02.R3", "C08.R6", lambda r: c02._emplace_paths(prog, r))
    _as(run, "C02.R2", "C08.R6", lambda r: c02._sized_extent(prog, r))


def _kw(call: ast.Call, name: str) -> Optional[ast.AST]:
    for k in call.keywords:
        if k.arg == name:
            return k.value
    return None


def _static_lengths(prog: Program, run: Run) -> None:
    R = "C08.R1"
    # ---- diag coded types
    sl = prog.cls("StandardLengthType")
    g = sl.methods["get_static_bit_length"]
    cfg = CFG(g.node)
    enc_bl = None
    for m in ("encode_into_pdu", "decode_from_pdu"):
        f = sl.methods[m]
        calls = [c for c in walk_no_nested(f.node) if isinstance(c, ast.Call) and call_name(c) in (
            "emplace_atomic_value", "extract_atomic_value")]
        if not calls:
            raise AnalysisError(f"StandardLengthType.{m}: atomic call not found")
        bl = _kw(calls[0], "bit_length")
        enc_bl = ast.unparse(bl) if bl is not None else None
        want_cond = norm_test(ast.parse("self.bit_mask is not None and self.is_condensed",
                                        mode="eval").body)
        for r in [x for x in walk_no_nested(g.node) if isinstance(x, ast.Return)]:
            # which case a return serves is read off its path condition (canonical form), not
            # off the way the branches happen to be written
            pc = conj_test(path_conditions(cfg, cfg.node_of(r)))
            got = ast.unparse(r.value)
            label = "condensed BIT-MASK" if pc == want_cond else "plain"
            if got == enc_bl:
                run.ok(R, f"StandardLengthType.{m}", f"{label}: static length `{got}` is the "
                       "bit_length handed to the atomic codec", f"{g.module.rel}:{r.lineno}")
            else:
                run.violation(R, "StandardLengthType.get_static_bit_length",
                              f"{'condensed' if 'condensed' in label else 'plain'}-differs-{m}",
                              f"{label}: the static bit length is `{got}`, but {m} "
                              f"{'encodes' if 'encode' in m else 'decodes'} `{enc_bl}` bits: "
                              "static length, required buffer size and the position of the "
                              "following parameters disagree with the actual PDU",
                              f"{g.module.rel}:{r.lineno}", stmt_key(r))
    for cls in ("MinMaxLengthType", "LeadingLengthInfoType", "ParamLengthInfoType"):
        ci = prog.cls(cls)
        m = prog.lookup(ci, "get_static_bit_length")
        rets = [ast.unparse(r.value) for r in walk_no_nested(m.node) if isinstance(r, ast.Return)]
        if rets == ["None"]:
            run.ok(R, f"{cls}.get_static_bit_length", "dynamic length: reports None", m.loc)
        else:
            run.violation(R, f"{cls}.get_static_bit_length", "claims-static",
                          f"{cls} has a run-time dependent length but reports {rets}", m.loc)
    # ---- parameters / DOPs delegating
    deleg = [("CodedConstParameter", "self.diag_coded_type.get_static_bit_length()"),
             ("NrcConstParameter", "self.diag_coded_type.get_static_bit_length()"),
             ("DataObjectProperty", "self.diag_coded_type.get_static_bit_length()")]
    for cls, want in deleg:
        m = prog.cls(cls).methods.get("get_static_bit_length")
        rets = [ast.unparse(r.value) for r in walk_no_nested(m.node) if isinstance(
            r, ast.Return)] if m else []
        if rets == [want]:
            run.ok(R, f"{cls}.get_static_bit_length", "delegates to the diag-coded type that does "
                   "the coding", m.loc)
        else:
            run.violation(R, f"{cls}.get_static_bit_length", "delegation",
                          f"returns {rets}, expected `{want}`", prog.cls(cls).loc)
    pw = prog.cls("ParameterWithDOP").methods.get("get_static_bit_length")
    s = ast.unparse(pw.node) if pw else ""
    if "self.dop.get_static_bit_length()" in s or "self._dop.get_static_bit_length()" in s or \
            "dop.get_static_bit_length()" in s:
        run.ok(R, "ParameterWithDOP.get_static_bit_length", "delegates to its DOP", pw.loc)
    else:
        run.violation(R, "ParameterWithDOP.get_static_bit_length", "delegation",
                      "does not report the static length of its DOP", prog.cls(
                          "ParameterWithDOP").loc)
    # ---- parameters coding themselves
    for cls in ("ReservedParameter", "MatchingRequestParameter"):
        ci = prog.cls(cls)
        m = ci.methods["get_static_bit_length"]
        rets = [r.value for r in walk_no_nested(m.node) if isinstance(r, ast.Return)]
        d = ci.methods["_decode_positioned_from_pdu"]
        c = [x for x in walk_no_nested(d.node) if isinstance(x, ast.Call) and call_name(x) ==
             "extract_atomic_value"]
        bl = _kw(c[0], "bit_length") if c else None
        if len(rets) == 1 and bl is not None and normalize(rets[0]).same(normalize(bl)):
            run.ok(R, f"{cls}.get_static_bit_length", f"`{ast.unparse(rets[0])}` = bits consumed "
                   "by the decoder", m.loc)
        else:
            run.violation(R, f"{cls}.get_static_bit_length", "differs-from-decoder",
                          f"static length `{ast.unparse(rets[0]) if rets else None}` but the "
                          f"decoder consumes `{ast.unparse(bl) if bl is not None else None}` bits",
                          m.loc)
    mr = prog.cls("MatchingRequestParameter").methods["_encode_positioned_into_pdu"]
    s = ast.unparse(mr.node)
    if "triggering_request[rq_pos:rq_pos + rq_len]" in s and "rq_len = self.byte_length" in s:
        run.ok(R, "MatchingRequestParameter._encode_positioned_into_pdu",
               "emplaces exactly byte_length bytes of the request", mr.loc)
    else:
        run.violation(R, "MatchingRequestParameter._encode_positioned_into_pdu", "length",
                      "does not emplace exactly byte_length bytes of the request", mr.loc)
    # ---- structures
    bs = prog.cls("BasicStructure").methods["get_static_bit_length"]
    s = ast.unparse(bs.node)
    if "return 8 * self.byte_size" in s and "composite_codec_get_static_bit_length(self)" in s:
        run.ok(R, "BasicStructure.get_static_bit_length", "8 * BYTE-SIZE if given, else the "
               "composite length", bs.loc)
    else:
        run.violation(R, "BasicStructure.get_static_bit_length", "formula",
                      "not 8 * byte_size / composite length", bs.loc)
    f = prog.func("odxtools.codec:composite_codec_get_static_bit_length")
    s = ast.unparse(f.node)
    cfg = CFG(f.node)
    checks = [("if param_bit_length is None:\n            return None" in s or
               "param_bit_length is None" in s, "none-propagates",
               "a parameter of unknown length makes the whole length unknown"),
              ("cursor = param.byte_position" in s, "explicit-position",
               "an explicitly positioned parameter moves the cursor to its BYTE-POSITION"),
              ("byte_length = max(byte_length, cursor)" in s, "max-extent",
               "the length is the maximum extent reached"),
              ("return byte_length * 8" in s or "return 8 * byte_length" in s, "bits",
               "the result is in bits")]
    for ok, key, what in checks:
        if ok:
            run.ok(R, f.qual, what, f.loc)
        else:
            run.violation(R, f.qual, key, f"expected: {what}", f.loc)
    adv = [x for x in walk_no_nested(f.node) if isinstance(x, ast.AugAssign) and ast.unparse(
        x.target) == "cursor"]

    def env(node: ast.AST):
        s_ = ast.unparse(node)
        if s_ == "param_bit_length":
            return Rat(Poly.atom("N"))
        if s_ in ("param.bit_position or 0", "(param.bit_position or 0)"):
            return Rat(Poly.atom("B"))
        return None
    want = normalize(ast.parse("(N + B + 7) // 8", mode="eval").body)
    if adv and normalize(adv[0].value, env).same(want):
        run.ok(R, f.qual, "each parameter advances the cursor by ((bit_position or 0) + n + 7)//8 "
               "bytes, the decoder's consumption formula", f"{f.module.rel}:{adv[0].lineno}")
    else:
        run.violation(R, f.qual, "advance-formula",
                      f"`{stmt_key(adv[0]) if adv else '?'}` is not ((bit_position or 0) + "
                      "param_bit_length + 7) // 8: the reported static length differs from the "
                      "encoded length for parameters at a non-zero bit position",
                      f"{f.module.rel}:{adv[0].lineno if adv else f.node.lineno}",
                      stmt_key(adv[0]) if adv else "")
    if "for param in codec.parameters" in s:
        run.ok(R, f.qual, "walks codec.parameters", f.loc)
    else:
        run.violation(R, f.qual, "walk", "does not walk codec.parameters", f.loc)
    for cls in ("Request", "Response"):
        m = prog.cls(cls).methods.get("get_static_bit_length")
        if m is not None and "composite_codec_get_static_bit_length(self)" in ast.unparse(m.node):
            run.ok(R, f"{cls}.get_static_bit_length", "composite length of its own parameters",
                   m.loc)
        else:
            run.violation(R, f"{cls}.get_static_bit_length", "delegation",
                          "is not the composite length of its parameters", prog.cls(cls).loc)


def _size_limits(prog: Program, run: Run) -> None:
    R = "C08.R2"
    table = [
        ("BasicStructure", "encode_into_pdu", "composite_codec_encode_into_pdu", "byte_size",
         "EncodeError"),
        ("BasicStructure", "decode_from_pdu", "composite_codec_decode_from_pdu", "byte_size",
         "DecodeError"),
        ("StaticField", "encode_into_pdu", "encode_into_pdu", "item_byte_size", None),
        ("StaticField", "decode_from_pdu", "decode_from_pdu", "item_byte_size", "DecodeError"),
    ]
    for cls, meth, content_call, limit, exc in table:
        f = prog.cls(cls).methods[meth]
        cfg = CFG(f.node)
        C = f"{cls}.{meth}"
        calls = [x for x in walk_no_nested(f.node) if isinstance(x, ast.Call) and call_name(x) ==
                 content_call and not (isinstance(x.func, ast.Attribute) and isinstance(
                     x.func.value, ast.Name) and x.func.value.id in ("encode_state",
                                                                     "decode_state"))]
        if not calls:
            raise AnalysisError(f"{C}: content call {content_call} not found")
        cn = cfg.node_of(_stmt(f.node, calls[0]))
        big = [x for x in walk_no_nested(f.node) if isinstance(x, ast.If) and f"self.{limit}" in
               ast.unparse(x.test) and any(isinstance(c, ast.Compare) and isinstance(
                   c.ops[0], (ast.Gt, ast.Lt, ast.GtE, ast.LtE)) for c in ast.walk(x.test)) and
               any(isinstance(y, ast.Call) and call_name(y) == "odxraise" for s in x.body
                   for y in ast.walk(s))]
        over = []
        for x in big:
            # "actual > limit"
            for c in ast.walk(x.test):
                if isinstance(c, ast.Compare) and len(c.ops) == 1:
                    l, r = ast.unparse(c.left), ast.unparse(c.comparators[0])
                    if (isinstance(c.ops[0], ast.Gt) and r == f"self.{limit}") or (
                            isinstance(c.ops[0], ast.Lt) and l == f"self.{limit}"):
                        over.append(x)
        if not over:
            run.violation(R, C, f"oversize-{limit}-unchecked",
                          f"content larger than {limit.upper().replace('_', '-')} is not "
                          f"rejected by {meth} although the sibling direction rejects it", f.loc)
            continue
        o = over[0]
        if cfg.dominates(cn, cfg.node_of(o)):
            run.ok(R, C, f"content larger than {limit} is rejected after the content has been "
                   "processed", f"{f.module.rel}:{o.lineno}")
        else:
            run.violation(R, C, f"oversize-{limit}-dead-check",
                          f"the check `{ast.unparse(o.test)}` runs before the content is "
                          "processed (the measured size is always 0): oversize content is never "
                          "detected", f"{f.module.rel}:{o.lineno}", ast.unparse(o.test))
        if exc is not None:
            raises = [y for s in o.body for y in ast.walk(s) if isinstance(y, ast.Call) and
                      call_name(y) == "odxraise"]
            if raises and exc in ast.unparse(raises[0]):
                run.ok(R, C, f"reported as {exc}", f"{f.module.rel}:{o.lineno}")
            else:
                run.violation(R, C, f"oversize-{limit}-error-type",
                              f"oversize content is not reported as {exc}",
                              f"{f.module.rel}:{o.lineno}")


def _stmt(fn: ast.AST, x: ast.AST) -> ast.stmt:
    best = None
    for st in walk_no_nested(fn):
        if isinstance(st, ast.stmt) and st is not fn and not isinstance(
                st, (ast.If, ast.For, ast.While, ast.Try, ast.With)) and any(
                    z is x for z in ast.walk(st)):
            best = st
    if best is None:
        raise AnalysisError("expression without statement")
    return best


def _required(prog: Program, run: Run) -> None:
    R = "C08.R3"
    # lists are the filters
    for fn, attr in (("composite_codec_get_required_parameters", "is_required"),
                     ("composite_codec_get_free_parameters", "is_settable")):
        f = prog.func(f"odxtools.codec:{fn}")
        rets = [ast.unparse(r.value) for r in walk_no_nested(f.node) if isinstance(r, ast.Return)]
        if rets == [f"[p for p in codec.parameters if p.{attr}]"]:
            run.ok(R, fn, f"= parameters with {attr}", f.loc)
        else:
            run.violation(R, fn, "filter", f"returns {rets}, expected the parameters with {attr}",
                          f.loc)
    for cls in ("Request", "Response", "BasicStructure"):
        ci = prog.cls(cls)
        for prop, helper in (("required_parameters", "composite_codec_get_required_parameters"),
                             ("free_parameters", "composite_codec_get_free_parameters")):
            m = ci.methods.get(prop)
            if m is not None and f"{helper}(self)" in ast.unparse(m.node):
                run.ok(R, f"{cls}.{prop}", f"= {helper}(self)", m.loc)
            else:
                run.violation(R, f"{cls}.{prop}", "delegation", f"is not {helper}(self)", ci.loc)
    # per kind: is_required vs the encoder's treatment of a missing value
    kinds: Dict[str, str] = {}
    for ci in prog.subclasses("Parameter", strict=True):
        m = ci.methods.get("is_required")
        if m is None:
            continue
        rets = [ast.unparse(r.value) for r in walk_no_nested(m.node) if isinstance(r, ast.Return)]
        if len(rets) == 1:
            kinds[ci.name] = rets[0]
    vp = prog.cls("ValueParameter")
    enc = vp.methods["_encode_positioned_into_pdu"]
    s = ast.unparse(enc.node)
    if kinds.get("ValueParameter") == "self._physical_default_value is None" and \
            "physical_value = self._physical_default_value" in s and "EncodeError" in s:
        run.ok(R, "ValueParameter.is_required", "required iff there is no default; the encoder "
               "substitutes the default and rejects a missing value otherwise", enc.loc)
    else:
        run.violation(R, "ValueParameter.is_required", "default",
                      f"is_required is `{kinds.get('ValueParameter')}`; the encoder must use "
                      "PHYSICAL-DEFAULT-VALUE for a missing value and raise EncodeError if there "
                      "is none", vp.loc)
    sp = prog.cls("SystemParameter")
    enc = sp.methods["_encode_positioned_into_pdu"]
    consts = set()
    for x in walk_no_nested(enc.node):
        if isinstance(x, ast.Compare) and ast.unparse(x.left) == "self.sysparam" and isinstance(
                x.comparators[0], ast.Constant):
            consts.add(x.comparators[0].value)
    pre = None
    for st in sp.module.tree.body:
        if isinstance(st, ast.Assign) and ast.unparse(st.targets[0]) == \
                "PREDEFINED_SYSPARAM_VALUES":
            try:
                pre = set(ast.literal_eval(st.value))
            except Exception:
                pre = None
    if pre is None:
        raise AnalysisError("PREDEFINED_SYSPARAM_VALUES not found")
    if kinds.get("SystemParameter") == "self.sysparam not in PREDEFINED_SYSPARAM_VALUES" and \
            consts == pre:
        run.ok(R, "SystemParameter.is_required", f"required iff the SYSPARAM is not one of the "
               f"{len(pre)} predefined ones, and the encoder computes exactly those", enc.loc)
    else:
        run.violation(R, "SystemParameter.is_required", "predefined-table",
                      f"the encoder computes values for {sorted(consts - pre)} that are not in "
                      f"PREDEFINED_SYSPARAM_VALUES and lacks {sorted(pre - consts)}: "
                      "is_required and the encoder disagree for these system parameters",
                      sp.loc)
    ts = prog.cls("TableStructParameter")
    enc = ts.methods["_encode_positioned_into_pdu"]
    if kinds.get("TableStructParameter") == "True" and "EncodeError" in ast.unparse(
            enc.node.body[0]):
        run.ok(R, "TableStructParameter.is_required", "always required; a missing value is "
               "rejected first", enc.loc)
    else:
        run.violation(R, "TableStructParameter.is_required", "always",
                      "is_required / encoder disagree", ts.loc)
    for cls in ("CodedConstParameter", "PhysicalConstantParameter", "NrcConstParameter",
                "ReservedParameter", "MatchingRequestParameter", "LengthKeyParameter",
                "TableKeyParameter"):
        ci = prog.cls(cls)
        if kinds.get(cls) != "False":
            run.violation(R, f"{cls}.is_required", "constant",
                          f"{cls} never needs a user supplied value but is_required is "
                          f"`{kinds.get(cls)}`: encoding fails with 'required parameter missing' "
                          "for a message that can be encoded", ci.loc)
            continue
        enc = prog.lookup(ci, "_encode_positioned_into_pdu")
        name = "encode_placeholder_into_pdu" if "Key" in cls else "_encode_positioned_into_pdu"
        enc = prog.lookup(ci, name)
        cfg = CFG(enc.node)
        bad = False
        for x in walk_no_nested(enc.node):
            if isinstance(x, ast.Call) and call_name(x) == "odxraise" and "EncodeError" in \
                    ast.unparse(x):
                st = _stmt(enc.node, x)
                conds = [norm_test(t, negate=not p) for t, p in cfg.branch_conditions(
                    cfg.node_of(st))]
                pv = enc.params()[1]
                if any(c == f"{pv} is None" for c in conds):
                    bad = True
        if bad:
            run.violation(R, f"{cls}.is_required", "rejects-missing",
                          f"{cls}.is_required is False but its encoder rejects a missing value",
                          enc.loc)
        else:
            run.ok(R, f"{cls}.is_required", "not required, and the encoder accepts a missing "
                   "value", enc.loc)
    # DiagService.encode_request enforces the same sets
    er = prog.func("DiagService.encode_request")
    s = ast.unparse(er.node)
    if "self.request.required_parameters" in s and "issubset(rq_all_param_names)" in s.replace(
            "\n", "") or ("required_parameters" in s and "self.request.parameters" in s):
        run.ok(R, "DiagService.encode_request", "checks the request's required parameters and "
               "rejects unknown names", er.loc)
    else:
        run.violation(R, "DiagService.encode_request", "checks", "does not check required / "
                      "unknown parameters against the request", er.loc)
