"""C07 — compu methods compute the specified conversion (tables, gates, roles, closed forms)."""
from __future__ import annotations

from ..report import Run
from ..src import Program
from . import common, compu

EXPLANATION = (
    "Decision tables and closed forms of odxtools/compumethods are extracted from the ASTs and "
    "compared with the ODX rules: Limit.complies_to_lower/upper per interval type, "
    "compare_odx_values as sign(a-b) per value kind, CompuScale.applies; for every CompuMethod "
    "subclass the state the converter's rejection depends on must be consulted by the validity "
    "predicate of the same direction (def-use expansion of the guards of every raise site); the "
    "SCALE-LINEAR invertibility conditions; rounding (never truncation) of computed results by "
    "the role type of the direction; the category factory; the slope-dependent swap of physical "
    "limits; LinearSegment formula, Horner evaluation (symbolic unrolling on three "
    "coefficients) and the TAB-INTP interpolation formula as normalised rational expressions.")
ASSUMPTIONS = [
    "numerical equality with exact arithmetic on concrete values is not decided (floating point)",
    "the exemptions of the validity/conversion rule are listed with reasons in "
    "sa/rules/compu.py:VALIDITY_EXEMPT",
]


def check(prog: Program, run: Run) -> None:
    run.rule("C07.R1", "interval semantics: OPEN/CLOSED/INFINITE limits, sign comparison of ODX "
             "values, CompuScale.applies", floor=12)
    run.rule("C07.R2", "validity <=> convertibility: every state a converter's rejection "
             "depends on is consulted by is_valid_* of the same direction", floor=14)
    run.rule("C07.R3", "SCALE-LINEAR is marked non-invertible exactly for the ODX failure "
             "conditions", floor=4)
    run.rule("C07.R4", "computed results are rounded to nearest by the role type of the "
             "direction, never truncated; direction roles of TAB-INTP and TEXTTABLE", floor=8)
    run.rule("C07.R5", "every COMPU category has a factory branch constructing its own class",
             floor=8)
    run.rule("C07.R6", "physical limits follow the sign of the slope", floor=4)
    run.rule("C07.R7", "closed forms: linear segment, Horner evaluation, interpolation",
             floor=8)
    run.rule("C07.G5", "absent values are tested by identity, not truthiness", floor=2)
    run.rule("C07.R8", "each part of a COMPU-SCALE is parsed with the data type of the side it "
             "belongs to (limits and inverse value: domain; constant and coefficients: range)",
             floor=7)
    compu.scale_parse_roles(prog, run, "C07.R8")
    compu.interval_tables(prog, run, "C07.R1")
    compu.compare_values(prog, run, "C07.R1")
    compu.scale_applies(prog, run, "C07.R1")
    compu.validity_vs_conversion(prog, run, "C07.R2")
    compu.conversion_guards(prog, run, "C07.R2")
    compu.tolerances(prog, run, "C07.R7")
    compu.invertibility(prog, run, "C07.R3")
    compu.rounding(prog, run, "C07.R4")
    compu.tabintp_forms(prog, run, "C07.R7", "C07.R4")
    compu.texttable_roles(prog, run, "C07.R4")
    compu.categories(prog, run, "C07.R5")
    compu.physical_limits(prog, run, "C07.R6")
    compu.linear_forms(prog, run, "C07.R7", "C07.R7")
    compu.horner(prog, run, "C07.R7")
    common.g5_absence_by_truthiness(prog, run, "C07.G5", ["odxtools/compumethods/*.py"])
