"""Rules applied to every property over the files it is anchored in (properties.jsonl) plus the
helper modules those files lean on."""
from __future__ import annotations

import json
import os
from typing import Dict, List

from ..report import Run
from ..src import Program
from . import common

EXTRA_SCOPE: Dict[str, List[str]] = {
    # helpers the anchored files call into (found by reading the call graph of the anchors)
    "C01": ["odxtools/encoding.py", "odxtools/odxtypes.py", "odxtools/diagcodedtype.py",
            "odxtools/field.py", "odxtools/linkeddtcdop.py", "odxtools/compumethods/*.py"],
    "C02": ["odxtools/diagcodedtype.py", "odxtools/odxtypes.py", "odxtools/compumethods/*.py",
            "odxtools/dataobjectproperty.py"],
    "C03": ["odxtools/odxtypes.py", "odxtools/parameters/*.py", "odxtools/diagcodedtype.py"],
    "C04": ["odxtools/odxtypes.py", "odxtools/endofpdufield.py", "odxtools/diagcodedtype.py",
            "odxtools/field.py", "odxtools/compumethods/*.py"],
    "C05": ["odxtools/parameters/*.py", "odxtools/codec.py", "odxtools/leadinglengthinfotype.py",
            "odxtools/paramlengthinfotype.py", "odxtools/compumethods/*.py"],
    "C06": ["odxtools/response.py", "odxtools/request.py", "odxtools/diaglayers/*.py"],
    "C07": ["odxtools/compumethods/*.py"],
    "C08": ["odxtools/encodestate.py", "odxtools/diagservice.py"],
    "C09": ["odxtools/diaglayers/*.py"],
    "C10": ["odxtools/request.py", "odxtools/response.py", "odxtools/parameters/*.py"],
    "C11": ["odxtools/*.py", "odxtools/**/*.py"],
    "C12": [],
    "C13": ["odxtools/uds.py"],
    "C14": ["odxtools/diagservice.py", "odxtools/odxtypes.py"],
    "C15": ["odxtools/diaglayers/*.py", "odxtools/basecomparam.py"],
    "C16": ["odxtools/utils.py", "odxtools/database.py"],
    "C17": ["odxtools/*.py", "odxtools/**/*.py"],
    "C18": ["odxtools/diaglayers/*.py", "odxtools/parentref.py", "odxtools/codec.py",
            "odxtools/nameditemlist.py"],
}


def scope(prop: str) -> List[str]:
    here = os.path.dirname(os.path.dirname(os.path.dirname(os.path.abspath(__file__))))
    files: List[str] = []
    with open(os.path.join(here, "properties.jsonl")) as fh:
        for line in fh:
            d = json.loads(line)
            if d["id"] == prop:
                files = [f for f in d["anchors"].get("files", []) if f.endswith(".py")]
    return files + EXTRA_SCOPE.get(prop, [])


def run_shared(prog: Program, run: Run, prop: str) -> None:
    sc = scope(prop)
    if not sc:
        return
    run.rule(f"{prop}.G4", "no hidden state in the anchored code: no mutable default that is "
             "written, no memo keyed by a name, no lazily cached value that ignores an argument, "
             "no memoised method beyond the frozen reference set", floor=1)
    common.g4_hidden_state(prog, run, f"{prop}.G4", sc)
    run.rule(f"{prop}.G5", "absent values are tested by identity, not truthiness, in the anchored "
             "code (0, 0.0, '' and b'' are values)", floor=0)
    common.g5_absence_by_truthiness(prog, run, f"{prop}.G5", sc)
    run.rule(f"{prop}.G11", "the description is read-only at use time: no en-/decoding, "
             "conversion or query method of a parsed class changes its own data in place",
             floor=0)
    common.g11_description_not_mutated(prog, run, f"{prop}.G11", sc)
