"""Shared analysis of odxtools/isotp_state_machine.py for C12 and C13."""
from __future__ import annotations

import ast
import re
from fractions import Fraction
from typing import Dict, List, Optional, Tuple

from ..cfg import CFG, EXIT, RAISE
from ..exprnorm import Poly, Rat, norm_test, normalize, slice_bounds
from ..report import Run
from ..src import (AnalysisError, ClassInfo, FuncInfo, Program, attr_chain, call_name, dotted,
                   stmt_key, walk_no_nested)

MOD = "odxtools.isotp_state_machine"
STATE = ("_telegram_specified_len", "_telegram_data", "_telegram_last_rx_fragment_idx")
ACTIVE_STATE = ("_block_size", "_frames_received")
FRAME_TYPES = {"FRAME_TYPE_SINGLE": 0, "FRAME_TYPE_FIRST": 1, "FRAME_TYPE_CONSECUTIVE": 2,
               "FRAME_TYPE_FLOW_CONTROL": 3}


def fmt_bits(fmt: str) -> Optional[List[int]]:
    parts = re.findall(r"([a-zA-Z])(\d+)", fmt)
    if "".join(a + b for a, b in parts) != fmt.replace("<", "").replace(">", ""):
        return None
    return [int(b) for _a, b in parts]


class Frame:
    """The decode_rx_frame function split into its frame-type branches."""

    def __init__(self, prog: Program):
        self.prog = prog
        self.mod = prog.module(MOD)
        self.f = prog.func("IsoTpStateMachine.decode_rx_frame")
        self.fn = self.f.node
        self.cfg = CFG(self.fn)
        a = self.fn.args.args
        if len(a) < 3:
            raise AnalysisError("decode_rx_frame no longer takes (self, rx_id, data)")
        self.p_id = a[1].arg
        self.p_data = a[2].arg
        # index local: x = self._can_rx_ids.index(<rx_id>)
        self.idx: Optional[str] = None
        for st in walk_no_nested(self.fn):
            if isinstance(st, ast.Assign) and isinstance(st.value, ast.Call) and call_name(
                    st.value) == "index" and dotted(st.value.func) == "self._can_rx_ids.index":
                if len(st.targets) == 1 and isinstance(st.targets[0], ast.Name):
                    if st.value.args and isinstance(st.value.args[0], ast.Name) and \
                            st.value.args[0].id == self.p_id:
                        self.idx = st.targets[0].id
                        self.idx_stmt = st
        # ... or a lookup whose result is parked in an attribute and read back
        self.idx_cached: Optional[str] = None
        if self.idx is None:
            attr = None
            for st in walk_no_nested(self.fn):
                if isinstance(st, ast.Assign) and isinstance(st.value, ast.Call) and dotted(
                        st.value.func) == "self._can_rx_ids.index" and len(st.targets) == 1 and \
                        isinstance(st.targets[0], ast.Attribute) and isinstance(
                            st.targets[0].value, ast.Name) and st.targets[0].value.id == "self":
                    attr = st.targets[0].attr
            for st in walk_no_nested(self.fn):
                if attr is not None and isinstance(st, ast.Assign) and len(st.targets) == 1 and \
                        isinstance(st.targets[0], ast.Name) and dotted(st.value) == f"self.{attr}":
                    self.idx = st.targets[0].id
                    self.idx_stmt = st
                    self.idx_cached = attr
        if self.idx is None:
            raise AnalysisError("decode_rx_frame: no `idx = self._can_rx_ids.index(rx_id)`")
        # enum values
        self.enum = prog.cls("IsoTp")
        self.enum_vals = {k: v.value for k, v in self.enum.enum_members.items()
                          if isinstance(v, ast.Constant)}
        # frame type local and the dispatch chain
        self.ft: Optional[str] = None
        self.ft_unpack: Optional[ast.Assign] = None
        for st in self.fn.body:
            if isinstance(st, ast.Assign) and self._is_unpack(st.value):
                t = st.targets[0]
                if isinstance(t, ast.Tuple) and t.elts and isinstance(t.elts[0], ast.Name):
                    self.ft = t.elts[0].id
                    self.ft_unpack = st
                    break
        if self.ft is None:
            raise AnalysisError("decode_rx_frame: frame type is not taken from bitstruct.unpack")
        self.branches: Dict[str, List[ast.stmt]] = {}
        self.else_body: Optional[List[ast.stmt]] = None
        self.chain_head: Optional[ast.If] = None
        for st in self.fn.body:
            if isinstance(st, ast.If) and self._branch_key(st.test):
                self.chain_head = st
                cur: Optional[ast.If] = st
                while cur is not None:
                    k = self._branch_key(cur.test)
                    if k is None:
                        raise AnalysisError("decode_rx_frame: dispatch chain tests something "
                                            "other than the frame type: " + ast.unparse(cur.test))
                    self.branches[k] = cur.body
                    if len(cur.orelse) == 1 and isinstance(cur.orelse[0], ast.If) and \
                            self._branch_key(cur.orelse[0].test):
                        cur = cur.orelse[0]
                    else:
                        self.else_body = cur.orelse
                        cur = None
                break
        if self.chain_head is None:
            raise AnalysisError("decode_rx_frame: no if/elif chain on the frame type")

    def _is_unpack(self, e: ast.AST) -> bool:
        return isinstance(e, ast.Call) and call_name(e) in ("unpack", "unpack_from") and \
            (dotted(e.func) or "").startswith("bitstruct")

    def _branch_key(self, test: ast.AST) -> Optional[str]:
        if isinstance(test, ast.Compare) and len(test.ops) == 1 and isinstance(
                test.ops[0], ast.Eq):
            l, r = test.left, test.comparators[0]
            if isinstance(r, ast.Name) and r.id == self.ft:
                l, r = r, l
            if isinstance(l, ast.Name) and l.id == self.ft:
                ch = attr_chain(r)
                if ch and len(ch) == 2 and ch[0] == "IsoTp":
                    return ch[1]
                if isinstance(r, ast.Constant) and isinstance(r.value, int):
                    for k, v in self.enum_vals.items():
                        if v == r.value and k.startswith("FRAME_TYPE"):
                            return k
        return None

    def unpacks(self, body: List[ast.stmt]) -> List[Tuple[ast.Assign, str]]:
        out = []
        for st in body:
            for x in walk_no_nested(st):
                if isinstance(x, ast.Assign) and self._is_unpack(x.value):
                    a0 = x.value.args[0] if x.value.args else None  # type: ignore[attr-defined]
                    if isinstance(a0, ast.Constant) and isinstance(a0.value, str):
                        out.append((x, a0.value))
                    else:
                        raise AnalysisError("bitstruct.unpack with a non-literal format")
        return out

    def second_target(self, asg: ast.Assign) -> Optional[str]:
        t = asg.targets[0]
        if isinstance(t, ast.Tuple) and len(t.elts) >= 2 and isinstance(t.elts[1], ast.Name):
            return t.elts[1].id
        return None

    def state_sub(self, node: ast.AST) -> Optional[Tuple[str, ast.AST]]:
        """(state array name, index expr) if node is ``self._telegram_x[i]``."""
        if isinstance(node, ast.Subscript) and isinstance(node.value, ast.Attribute) and \
                isinstance(node.value.value, ast.Name) and node.value.value.id == "self" and \
                node.value.attr in STATE + ACTIVE_STATE:
            return node.value.attr, node.slice
        return None


def loc(fi: FuncInfo, node: ast.AST) -> str:
    return f"{fi.module.rel}:{getattr(node, 'lineno', fi.node.lineno)}"


# ============================================================== C12 rules
def c12_frame_table(fr: Frame, run: Run) -> None:
    R = "C12.R1"
    f = fr.f
    # enum constants
    for k, v in FRAME_TYPES.items():
        if fr.enum_vals.get(k) != v:
            run.violation(R, "IsoTp", f"{k}-value",
                          f"IsoTp.{k} is {fr.enum_vals.get(k)!r}, ISO 15765-2 says {v}",
                          fr.enum.loc)
        else:
            run.ok(R, "IsoTp", f"{k} == {v}", fr.enum.loc)
    for k, v in (("FLOW_CONTROL_CONTINUE", 0), ("FLOW_CONTROL_WAIT", 1),
                 ("FLOW_CONTROL_ABORT", 2)):
        if fr.enum_vals.get(k) != v:
            run.violation(R, "IsoTp", f"{k}-value",
                          f"IsoTp.{k} is {fr.enum_vals.get(k)!r}, ISO 15765-2 says {v}",
                          fr.enum.loc)
    # the discriminant is the high nibble
    bits = fmt_bits(fr.ft_unpack.value.args[0].value)  # type: ignore
    if not bits or bits[0] != 4:
        run.violation(R, "IsoTpStateMachine.decode_rx_frame", "pci-nibble",
                      "the frame type is not the most significant 4 bits of the first byte",
                      loc(f, fr.ft_unpack), stmt_key(fr.ft_unpack))
    else:
        run.ok(R, "decode_rx_frame", "frame type = high nibble of byte 0", loc(f, fr.ft_unpack))
    # all four types dispatched, anything else -> on_frame_type_error
    for k in FRAME_TYPES:
        if k not in fr.branches:
            run.violation(R, "IsoTpStateMachine.decode_rx_frame", f"missing-{k}",
                          f"no branch handles IsoTp.{k}", loc(f, fr.chain_head))
    eb = fr.else_body or []
    if not any(isinstance(x, ast.Call) and call_name(x) == "on_frame_type_error"
               for st in eb for x in ast.walk(st)):
        run.violation(R, "IsoTpStateMachine.decode_rx_frame", "no-frame-type-error",
                      "an unknown PCI type is not reported through on_frame_type_error",
                      loc(f, fr.chain_head))
    else:
        run.ok(R, "decode_rx_frame", "unknown PCI type -> on_frame_type_error", loc(f, fr.chain_head))
    want_len_bits = {"FRAME_TYPE_SINGLE": 4, "FRAME_TYPE_FIRST": 12, "FRAME_TYPE_CONSECUTIVE": 4,
                     "FRAME_TYPE_FLOW_CONTROL": 4}
    for k, body in fr.branches.items():
        if k not in want_len_bits:
            continue
        ups = fr.unpacks(body)
        if not ups:
            run.violation(R, "IsoTpStateMachine.decode_rx_frame", f"{k}-no-unpack",
                          f"the {k} branch does not decode its PCI field", loc(f, body[0]))
            continue
        for asg, fmt in ups:
            b = fmt_bits(fmt)
            if not b or len(b) < 2 or b[0] != 4 or b[1] != want_len_bits[k]:
                run.violation(R, "IsoTpStateMachine.decode_rx_frame", f"{k}-pci-format",
                              f"PCI of {k} decoded with format {fmt!r}; ISO 15765-2: 4-bit type "
                              f"followed by a {want_len_bits[k]}-bit field", loc(f, asg),
                              stmt_key(asg))
            else:
                run.ok(R, "decode_rx_frame", f"{k}: PCI format {fmt}", loc(f, asg))
            if ast.unparse(asg.value.args[1]) != fr.p_data:  # type: ignore[attr-defined]
                run.violation(R, "IsoTpStateMachine.decode_rx_frame", f"{k}-unpack-source",
                              "the PCI is not decoded from the received frame data", loc(f, asg),
                              stmt_key(asg))
    _c12_single(fr, run)
    _c12_first(fr, run)
    _c12_consecutive(fr, run)
    _c12_flow(fr, run)


def _yields(body: List[ast.stmt]) -> List[ast.Yield]:
    return [x for st in body for x in walk_no_nested(st) if isinstance(x, ast.Yield)]


def _c12_single(fr: Frame, run: Run) -> None:
    R = "C12.R1"
    f = fr.f
    body = fr.branches.get("FRAME_TYPE_SINGLE")
    if body is None:
        return
    ups = fr.unpacks(body)
    ln = fr.second_target(ups[0][0]) if ups else None
    ys = _yields(body)
    if not ys:
        run.violation(R, "IsoTpStateMachine.decode_rx_frame", "single-no-yield",
                      "a single frame does not yield a telegram", loc(f, body[0]))
        return
    for y in ys:
        ok = False
        v = y.value
        if isinstance(v, ast.Tuple) and len(v.elts) == 2 and ln:
            idn, pl = v.elts
            if isinstance(idn, ast.Name) and idn.id == fr.p_id and isinstance(pl, ast.Subscript):
                sb = slice_bounds(pl)
                if sb and sb[0] == fr.p_data and sb[1].const_value() == 1 and sb[2] is not None:
                    d = sb[2] - sb[1]
                    ok = d.same(Rat(Poly.atom(ln)))
        if ok:
            run.ok(R, "decode_rx_frame", "single frame yields (rx_id, data[1:1+SF_DL])", loc(f, y))
        else:
            run.violation(R, "IsoTpStateMachine.decode_rx_frame", "single-payload",
                          f"single frame yields `{ast.unparse(v) if v else None}`, expected "
                          f"({fr.p_id}, {fr.p_data}[1:1+SF_DL])", loc(f, y), ast.unparse(y))
    # completion callback
    if not any(isinstance(x, ast.Call) and call_name(x) == "on_telegram_complete"
               for st in body for x in ast.walk(st)):
        run.violation(R, "IsoTpStateMachine.decode_rx_frame", "single-no-complete-callback",
                      "single frame does not call on_telegram_complete", loc(f, body[0]))
    # CAN-FD escape
    if ln and not _tests_zero(body, ln):
        run.violation(R, "IsoTpStateMachine.decode_rx_frame", "canfd-sf-escape",
                      "SF_DL == 0 (the CAN-FD escape: length in the second byte) is not handled; "
                      "such a frame yields an empty telegram", loc(f, body[0]))
    else:
        run.ok(R, "decode_rx_frame", "single frame handles the SF_DL == 0 escape", loc(f, body[0]))


def _tests_zero(body: List[ast.stmt], name: str) -> bool:
    for st in body:
        for x in walk_no_nested(st):
            if isinstance(x, (ast.If, ast.IfExp, ast.While)):
                for c in ast.walk(x.test):
                    if isinstance(c, ast.Compare) and any(
                            isinstance(n, ast.Name) and n.id == name for n in ast.walk(c)):
                        if any(isinstance(k, ast.Constant) and k.value in (0, 1, 7, 8)
                               for k in ast.walk(c)):
                            return True
                    if isinstance(c, ast.UnaryOp) and isinstance(c.op, ast.Not) and isinstance(
                            c.operand, ast.Name) and c.operand.id == name:
                        return True
    return False


def _state_assigns(fr: Frame, body: List[ast.stmt]) -> List[Tuple[str, ast.AST, ast.Assign]]:
    out = []
    for st in body:
        for x in walk_no_nested(st):
            if isinstance(x, ast.Assign):
                for t in x.targets:
                    s = fr.state_sub(t)
                    if s:
                        out.append((s[0], x.value, x))
    return out


def _c12_first(fr: Frame, run: Run) -> None:
    R = "C12.R1"
    f = fr.f
    body = fr.branches.get("FRAME_TYPE_FIRST")
    if body is None:
        return
    ups = fr.unpacks(body)
    ln = fr.second_target(ups[0][0]) if ups else None
    assigns = _state_assigns(fr, body)
    got = {a for a, _v, _s in assigns}
    for a in STATE:
        if a not in got:
            run.violation("C13.R2" if run.prop == "C13" else R,
                          "IsoTpStateMachine.decode_rx_frame", f"first-frame-keeps-{a}",
                          f"a first frame does not (re)initialise {a}[idx]: state of an aborted "
                          "transfer leaks into the next one", loc(f, body[0]))
    for a, v, st in assigns:
        if a == "_telegram_specified_len":
            if not (isinstance(v, ast.Name) and v.id == ln):
                run.violation(R, "IsoTpStateMachine.decode_rx_frame", "first-length",
                              "the announced length is not the 12-bit FF_DL field", loc(f, st),
                              stmt_key(st))
            else:
                run.ok(R, "decode_rx_frame", "first frame: specified_len[idx] = FF_DL", loc(f, st))
        elif a == "_telegram_data":
            ok = False
            if isinstance(v, ast.Call) and call_name(v) == "bytearray" and len(v.args) == 1 and \
                    isinstance(v.args[0], ast.Subscript):
                sb = slice_bounds(v.args[0])
                ok = bool(sb and sb[0] == fr.p_data and sb[1].const_value() == 2 and sb[2] is None)
            if ok:
                run.ok(R, "decode_rx_frame", "first frame: buffer = fresh bytearray(data[2:])",
                       loc(f, st))
            else:
                run.violation(R, "IsoTpStateMachine.decode_rx_frame", "first-payload",
                              f"the buffer of a first frame is `{ast.unparse(v)}`, expected a "
                              f"fresh bytearray({fr.p_data}[2:])", loc(f, st), stmt_key(st))
        elif a == "_telegram_last_rx_fragment_idx":
            if isinstance(v, ast.Constant) and v.value == 0:
                run.ok(R, "decode_rx_frame", "first frame: last sequence number = 0", loc(f, st))
            else:
                run.violation(R, "IsoTpStateMachine.decode_rx_frame", "first-seq",
                              "a first frame has sequence number 0; the next expected consecutive "
                              "frame is 1", loc(f, st), stmt_key(st))
    if _yields(body):
        run.violation(R, "IsoTpStateMachine.decode_rx_frame", "first-yields",
                      "a first frame must not yield a telegram", loc(f, body[0]))
    if not any(isinstance(x, ast.Call) and call_name(x) == "on_first_frame"
               for st in body for x in ast.walk(st)):
        run.violation(R, "IsoTpStateMachine.decode_rx_frame", "first-no-callback",
                      "first frame does not call on_first_frame (flow control is sent there)",
                      loc(f, body[0]))
    else:
        run.ok(R, "decode_rx_frame", "first frame calls on_first_frame", loc(f, body[0]))


def _c12_consecutive(fr: Frame, run: Run) -> None:
    R = "C12.R1"
    f = fr.f
    body = fr.branches.get("FRAME_TYPE_CONSECUTIVE")
    if body is None:
        return
    ups = fr.unpacks(body)
    sn = fr.second_target(ups[0][0]) if ups else None
    # expected = (last[idx] + 1) % 16
    exp_name = None
    for st in body:
        if isinstance(st, ast.Assign) and len(st.targets) == 1 and isinstance(
                st.targets[0], ast.Name):
            v = st.value
            if any(fr.state_sub(x) and fr.state_sub(x)[0] == "_telegram_last_rx_fragment_idx"
                   for x in ast.walk(v)):
                exp_name = st.targets[0].id
                ok = False
                if isinstance(v, ast.BinOp) and isinstance(v.op, ast.Mod):
                    m = normalize(v.right).const_value()
                    inner = normalize(v.left)
                    last = None
                    for x in ast.walk(v.left):
                        if fr.state_sub(x):
                            last = normalize(x)
                    ok = m == 16 and last is not None and (inner - last).const_value() == 1
                elif isinstance(v, ast.BinOp) and isinstance(v.op, ast.BitAnd):
                    m = normalize(v.right).const_value()
                    inner = normalize(v.left)
                    last = None
                    for x in ast.walk(v.left):
                        if fr.state_sub(x):
                            last = normalize(x)
                    ok = m == 15 and last is not None and (inner - last).const_value() == 1
                if ok:
                    run.ok(R, "decode_rx_frame", "expected sequence number = (last + 1) mod 16",
                           loc(f, st))
                else:
                    run.violation(R, "IsoTpStateMachine.decode_rx_frame", "sequence-wrap",
                                  f"expected sequence number is `{ast.unparse(v)}`; ISO 15765-2: "
                                  "(previous + 1) modulo 16", loc(f, st), stmt_key(st))
    if exp_name is None:
        run.violation(R, "IsoTpStateMachine.decode_rx_frame", "no-sequence-check",
                      "consecutive frames are not checked against the expected sequence number",
                      loc(f, body[0]))
        return
    # buffer alias
    buf = None
    for st in body:
        if isinstance(st, ast.Assign) and len(st.targets) == 1 and isinstance(
                st.targets[0], ast.Name) and fr.state_sub(st.value) and fr.state_sub(
                    st.value)[0] == "_telegram_data":
            buf = st.targets[0].id
    # appended payload
    appended = False
    for st in body:
        for x in walk_no_nested(st):
            tgt_ok = False
            val = None
            if isinstance(x, ast.AugAssign) and isinstance(x.op, ast.Add):
                if (isinstance(x.target, ast.Name) and x.target.id == buf) or (
                        fr.state_sub(x.target) and fr.state_sub(x.target)[0] == "_telegram_data"):
                    tgt_ok, val = True, x.value
            elif isinstance(x, ast.Call) and call_name(x) == "extend" and isinstance(
                    x.func, ast.Attribute):
                b = x.func.value
                if (isinstance(b, ast.Name) and b.id == buf) or (
                        fr.state_sub(b) and fr.state_sub(b)[0] == "_telegram_data"):
                    tgt_ok, val = True, x.args[0] if x.args else None
            if tgt_ok:
                appended = True
                sb = slice_bounds(val) if isinstance(val, ast.Subscript) else None
                if sb and sb[0] == fr.p_data and sb[1].const_value() == 1 and sb[2] is None:
                    run.ok(R, "decode_rx_frame", "consecutive frame appends data[1:]", loc(f, x))
                else:
                    run.violation(R, "IsoTpStateMachine.decode_rx_frame", "consecutive-payload",
                                  f"a consecutive frame appends `{ast.unparse(val) if val else '?'}`"
                                  f", expected {fr.p_data}[1:]", loc(f, x), stmt_key(x))
                # appended only when the sequence number matched
                conds = fr.cfg.branch_conditions(fr.cfg.node_of(_stmt_of(fr.fn, x)))
                texts = {norm_test(t, negate=not pol) for t, pol in conds}
                want = norm_test(ast.parse(f"{exp_name} == {sn}", mode="eval").body)
                if want not in texts:
                    run.violation("C13.R3" if run.prop == "C13" else R,
                                  "IsoTpStateMachine.decode_rx_frame", "append-unguarded",
                                  "payload is appended although the sequence number was not "
                                  "checked on this path", loc(f, x), stmt_key(x))
    if not appended:
        run.violation(R, "IsoTpStateMachine.decode_rx_frame", "consecutive-no-append",
                      "the payload of a consecutive frame is never appended to the buffer",
                      loc(f, body[0]))
    # last := rx sequence number on the good path
    upd = [(a, v, s) for a, v, s in _state_assigns(fr, body)
           if a == "_telegram_last_rx_fragment_idx"]
    if not upd:
        run.violation(R, "IsoTpStateMachine.decode_rx_frame", "seq-not-advanced",
                      "the last received sequence number is never advanced", loc(f, body[0]))
    for a, v, s in upd:
        if isinstance(v, ast.Name) and v.id in (sn, exp_name):
            run.ok(R, "decode_rx_frame", "last sequence number := received one", loc(f, s))
        else:
            run.violation(R, "IsoTpStateMachine.decode_rx_frame", "seq-advance",
                          f"last sequence number set to `{ast.unparse(v)}`", loc(f, s), stmt_key(s))
    # completion: yield guarded by len(buf) == n  (n = specified_len[idx]); truncation to n
    ys = _yields(body)
    if not ys:
        run.violation(R, "IsoTpStateMachine.decode_rx_frame", "consecutive-no-yield",
                      "a completed multi-frame telegram is never yielded", loc(f, body[0]))
    nname = None
    for st in body:
        for x in walk_no_nested(st):
            if isinstance(x, ast.Assign) and len(x.targets) == 1 and isinstance(
                    x.targets[0], ast.Name) and fr.state_sub(x.value) and fr.state_sub(
                        x.value)[0] == "_telegram_specified_len":
                nname = x.targets[0].id
    for y in ys:
        st = _stmt_of(fr.fn, y)
        conds = fr.cfg.branch_conditions(fr.cfg.node_of(st))
        texts = [norm_test(t, negate=not pol) for t, pol in conds]
        ok_len = False
        for t, pol in conds:
            for c in ast.walk(t):
                if isinstance(c, ast.Compare) and len(c.ops) == 1 and pol and isinstance(
                        c.ops[0], (ast.Eq, ast.GtE)):
                    l, r = ast.unparse(c.left), ast.unparse(c.comparators[0])
                    if l.startswith("len(") and (r == nname or "_telegram_specified_len" in r):
                        ok_len = True
        if ok_len:
            run.ok(R, "decode_rx_frame", "telegram yielded when len(buffer) == announced length",
                   loc(f, y))
        else:
            run.violation(R, "IsoTpStateMachine.decode_rx_frame", "completion-test",
                          "the telegram is yielded under " + repr(texts) + ", not when the "
                          "buffer reaches the announced length", loc(f, y), stmt_key(st))
        v = y.value
        if not (isinstance(v, ast.Tuple) and len(v.elts) == 2 and isinstance(v.elts[0], ast.Name)
                and v.elts[0].id == fr.p_id):
            run.violation(R, "IsoTpStateMachine.decode_rx_frame", "completion-id",
                          "the yielded tuple does not carry the receive ID of this frame",
                          loc(f, y), stmt_key(st))
    # truncation of padding
    trunc = False
    for st in body:
        for x in walk_no_nested(st):
            if isinstance(x, ast.Subscript):
                sb = slice_bounds(x)
                if sb and sb[1].const_value() == 0 and sb[2] is not None and sb[2].key() in (
                        nname or "", ) and sb[0] in (buf or "", ):
                    trunc = True
    if trunc:
        run.ok(R, "decode_rx_frame", "padding of the last frame truncated to the announced length",
               loc(f, body[0]))
    else:
        run.violation(R, "IsoTpStateMachine.decode_rx_frame", "no-truncation",
                      "padding bytes of the last consecutive frame are not cut off at the "
                      "announced length", loc(f, body[0]))


def _stmt_of(fn: ast.AST, x: ast.AST) -> ast.stmt:
    best = None
    for st in walk_no_nested(fn):
        if isinstance(st, ast.stmt) and st is not fn and not isinstance(
                st, (ast.If, ast.For, ast.While, ast.Try, ast.With)):
            if any(z is x for z in ast.walk(st)):
                best = st
    if best is None:
        for st in walk_no_nested(fn):
            if isinstance(st, ast.stmt) and st is not fn and any(z is x for z in ast.walk(st)):
                best = st
    if best is None:
        raise AnalysisError("expression without statement")
    return best


def _c12_flow(fr: Frame, run: Run) -> None:
    R = "C12.R1"
    body = fr.branches.get("FRAME_TYPE_FLOW_CONTROL")
    if body is None:
        return
    if _yields(body) or _state_assigns(fr, body) or any(
            isinstance(x, ast.AugAssign) for st in body for x in walk_no_nested(st)):
        run.violation(R, "IsoTpStateMachine.decode_rx_frame", "flow-control-touches-state",
                      "a flow-control frame must neither yield nor change reassembly state",
                      loc(fr.f, body[0]))
    else:
        run.ok(R, "decode_rx_frame", "flow-control frames leave the reassembly state alone",
               loc(fr.f, body[0]))


def c12_state_indexing(prog: Program, fr: Frame, run: Run) -> None:
    """R2: per-ID state is only touched through the index of the receive ID."""
    R = "C12.R2"
    n = 0

    class _Fn:  # every function of the package, nested ones (snoop's decoder class) included
        def __init__(self, mod, node, qual):
            self.module, self.node, self.qual, self.name = mod, node, qual, node.name

        def params(self):
            return [a.arg for a in self.node.args.posonlyargs + self.node.args.args]
    all_fns = []
    for mod in prog.modules.values():
        def rec(body, prefix, mod=mod):
            for st in body:
                if isinstance(st, (ast.FunctionDef, ast.AsyncFunctionDef)):
                    all_fns.append(_Fn(mod, st, prefix + st.name))
                    rec(st.body, prefix + st.name + ".")
                elif isinstance(st, ast.ClassDef):
                    rec(st.body, prefix + st.name + ".")
                else:
                    for fld in ("body", "orelse", "finalbody"):
                        b_ = getattr(st, fld, None)
                        if isinstance(b_, list) and b_ and isinstance(b_[0], ast.stmt):
                            rec(b_, prefix)
                    for h in getattr(st, "handlers", []) or []:
                        rec(h.body, prefix)
        rec(mod.tree.body, "")
    for f in all_fns:
        if not any(isinstance(x, ast.Attribute) and x.attr in STATE + ACTIVE_STATE
                   for x in walk_no_nested(f.node)):
            continue
        params = f.params()
        for x in walk_no_nested(f.node):
            # whole-array (re)assignment
            if isinstance(x, (ast.Assign, ast.AugAssign, ast.AnnAssign)):
                tgts = x.targets if isinstance(x, ast.Assign) else [x.target]
                for t in tgts:
                    if isinstance(t, ast.Attribute) and t.attr in STATE + ACTIVE_STATE:
                        n += 1
                        if f.name != "__init__":
                            run.violation(R, f"{f.qual}", f"whole-array-{t.attr}",
                                          f"`{stmt_key(x)}` replaces the state of every receive "
                                          "ID, not only the one the frame belongs to",
                                          loc(f, x), stmt_key(x))
                        else:
                            v = x.value
                            # [<mutable>] * n shares one object between all IDs
                            if isinstance(v, ast.BinOp) and isinstance(v.op, ast.Mult):
                                lst = v.left if isinstance(v.left, ast.List) else v.right
                                if isinstance(lst, ast.List) and any(
                                        isinstance(e, (ast.Call, ast.List, ast.Dict, ast.Set,
                                                       ast.ListComp))
                                        for e in lst.elts):
                                    run.violation(R, f.qual, f"shared-initial-{t.attr}",
                                                  f"`{stmt_key(x)}` makes every receive ID share "
                                                  "one mutable object", loc(f, x), stmt_key(x))
                                    continue
                            run.ok(R, f.qual, f"{t.attr} initialised per receive ID", loc(f, x))
            if isinstance(x, ast.Subscript) and isinstance(x.value, ast.Attribute) and \
                    x.value.attr in STATE + ACTIVE_STATE:
                n += 1
                i = x.slice
                good = False
                if isinstance(i, ast.Name):
                    if f is fr.f or f.node is fr.fn:
                        good = i.id == fr.idx
                    else:
                        good = i.id in params and params.index(i.id) == 1  # (self, telegram_idx,…)
                if good:
                    run.ok(R, f.qual, f"{x.value.attr}[{ast.unparse(i)}] indexed by the frame's "
                           "receive-ID index", loc(f, x))
                else:
                    run.violation(R, f.qual, f"index-{x.value.attr}",
                                  f"`{ast.unparse(x)}` is not indexed by the index of the receive "
                                  "ID the frame belongs to: state of another ID is read or "
                                  "written", loc(f, x), stmt_key(_stmt_of(f.node, x)))
    # callbacks receive the index as first argument
    for x in walk_no_nested(fr.fn):
        if isinstance(x, ast.Call) and isinstance(x.func, ast.Attribute) and isinstance(
                x.func.value, ast.Name) and x.func.value.id == "self" and x.func.attr.startswith(
                    "on_"):
            n += 1
            if x.args and isinstance(x.args[0], ast.Name) and x.args[0].id == fr.idx:
                run.ok(R, "decode_rx_frame", f"{x.func.attr} gets the receive-ID index",
                       loc(fr.f, x))
            else:
                run.violation(R, "IsoTpStateMachine.decode_rx_frame", f"callback-{x.func.attr}",
                              f"`{ast.unparse(x)}` does not pass the receive-ID index first",
                              loc(fr.f, x))
    cache_sound = False
    if fr.idx_cached is not None:
        # a remembered lookup is sound when the remembered ID is only updated after a lookup that
        # succeeded (the store is dominated by the lookup; a failed lookup leaves through the
        # handler) and the read-back is guarded by `rx_id != self.<remembered id>`
        look = [st for st in walk_no_nested(fr.fn) if isinstance(st, ast.Assign) and isinstance(
            st.value, ast.Call) and dotted(st.value.func) == "self._can_rx_ids.index"]
        keys = [st for st in walk_no_nested(fr.fn) if isinstance(st, ast.Assign) and isinstance(
            st.value, ast.Name) and st.value.id == fr.p_id and isinstance(
                st.targets[0], ast.Attribute)]
        if look and keys:
            ln = fr.cfg.node_of(look[0])
            cache_sound = all(fr.cfg.dominates(ln, fr.cfg.node_of(k)) for k in keys) and all(
                any(ast.unparse(k.targets[0]) in ast.unparse(t) and fr.p_id in ast.unparse(t)
                    for t, _p in fr.cfg.branch_conditions(ln)) for k in keys)
    if fr.idx_cached is not None and not cache_sound:
        run.violation(R, "IsoTpStateMachine.decode_rx_frame", "channel-from-earlier-frame",
                      f"the telegram index is read back from self.{fr.idx_cached}, which an "
                      "EARLIER frame may have filled: a frame whose lookup is skipped or fails "
                      "(unknown ID seen twice in a row) is filed under the channel of another "
                      "receive ID", loc(fr.f, fr.idx_stmt), stmt_key(fr.idx_stmt))
    # unknown IDs return before any state access
    cfg = fr.cfg
    idx_node = cfg.node_of(fr.idx_stmt)
    for node in cfg.nodes:
        if node.stmt is None or node.kind == "except":
            continue
        scope = node.expr if node.kind in ("if", "while", "for", "with") else node.stmt
        if node.kind in ("try",):
            continue
        if any(fr.state_sub(y) for y in ast.walk(scope)) and node.id in cfg.reachable(0):
            if not cfg.dominates(idx_node, node.id):
                run.violation(R, "IsoTpStateMachine.decode_rx_frame", "state-before-id-check",
                              "reassembly state is touched on a path that has not looked up the "
                              "receive ID", loc(fr.f, node.stmt))
    # handler of the lookup returns
    ok = False
    for t in walk_no_nested(fr.fn):
        if isinstance(t, ast.Try) and any(
                s is fr.idx_stmt or (isinstance(s, ast.Assign) and isinstance(
                    s.value, ast.Call) and dotted(s.value.func) == "self._can_rx_ids.index")
                for s in t.body):
            for h in t.handlers:
                if h.body and isinstance(h.body[-1], ast.Return):
                    ok = True
    if ok:
        run.ok(R, "decode_rx_frame", "frames of unknown IDs return before any state access",
               loc(fr.f, fr.idx_stmt))
    else:
        run.violation(R, "IsoTpStateMachine.decode_rx_frame", "unknown-id",
                      "a frame of an unknown ID does not leave decode_rx_frame right after the "
                      "failed lookup", loc(fr.f, fr.idx_stmt))


def c12_id_tables(prog: Program, run: Run) -> None:
    """R2 (continued): the telegram index is the POSITION of the receive ID in the caller's list
    (IsoTpActiveDecoder pairs _can_tx_ids[i] with it), so the ID tables must be stored in the
    caller's order, without sorting or de-duplication."""
    R = "C12.R2"
    n = 0
    for cname in ("IsoTpStateMachine", "IsoTpActiveDecoder"):
        f = prog.func(f"{cname}.__init__")
        params = set(f.params())
        for x in walk_no_nested(f.node):
            if not isinstance(x, ast.Assign):
                continue
            for t in x.targets:
                if isinstance(t, ast.Attribute) and t.attr in ("_can_rx_ids", "_can_tx_ids") and \
                        isinstance(t.value, ast.Name) and t.value.id == "self":
                    n += 1
                    v = x.value
                    if isinstance(v, ast.Name) and v.id in params:
                        run.ok(R, f.qual, f"{t.attr} is the caller's list, in the caller's order",
                               loc(f, x))
                    else:
                        run.violation(R, f.qual, f"id-table-{t.attr}",
                                      f"`{stmt_key(x)}`: the telegram index is the position in "
                                      "the caller's ID list (the active decoder answers on "
                                      "_can_tx_ids[index]); storing anything but the list as "
                                      "given re-numbers the telegrams", loc(f, x), stmt_key(x))
    if n < 2:
        run.error(R, "assignments to _can_rx_ids / _can_tx_ids not found in the constructors")
    # ... and the callers in the package hand over every ID they were given: 0 is a valid CAN
    # ID, so an ID list must not be filtered by truthiness
    from .common import resolve_locals
    m = 0
    for f in prog.iter_functions():
        for x in walk_no_nested(f.node):
            if not isinstance(x, ast.Call):
                continue
            for k in x.keywords:
                if k.arg not in ("can_rx_ids", "can_tx_ids"):
                    continue
                m += 1
                v = resolve_locals(f.node, k.value)
                bad = None
                for y in ast.walk(v):
                    if isinstance(y, (ast.ListComp, ast.GeneratorExp, ast.SetComp)):
                        for g in y.generators:
                            tnames = {z.id for z in ast.walk(g.target) if isinstance(z, ast.Name)}
                            for i_ in g.ifs:
                                for a_ in _truthy_atoms(i_):
                                    if isinstance(a_, ast.Name) and a_.id in tnames:
                                        bad = ast.unparse(y)
                    if isinstance(y, ast.Call) and call_name(y) == "filter" and y.args and \
                            isinstance(y.args[0], ast.Constant) and y.args[0].value is None:
                        bad = ast.unparse(y)
                if bad is None:
                    run.ok(R, f.qual, f"{k.arg} handed over unfiltered", loc(f, x))
                else:
                    run.violation(R, f.qual, f"ids-filtered-by-truthiness-{k.arg}",
                                  f"`{bad}` selects the CAN IDs by truthiness: the valid CAN ID 0 "
                                  "is dropped and every telegram on it goes unreported",
                                  loc(f, x), stmt_key(_stmt_of(f.node, x)))
    if m < 2:
        run.error(R, "fewer than 2 decoder constructions with can_rx_ids= found (anchor moved)")


def _truthy_atoms(t: ast.AST):
    if isinstance(t, ast.BoolOp):
        for v in t.values:
            yield from _truthy_atoms(v)
    elif isinstance(t, ast.UnaryOp) and isinstance(t.op, ast.Not):
        yield from _truthy_atoms(t.operand)
    elif isinstance(t, (ast.Name, ast.Attribute)):
        yield t


def c13_callbacks(prog: Program, run: Run) -> None:
    """R1 (continued): the callbacks decode_rx_frame invokes (on_* of every subclass in the
    package) cannot raise on stray frames: no assert, and every Optional per-ID state value is
    used in arithmetic / ordering only under a None test that branches (not an assert)."""
    R = "C13.R1"
    base = prog.cls("IsoTpStateMachine")
    n = 0
    for ci in prog.subclasses(base, strict=True):
        for f in ci.methods.values():
            if not f.name.startswith("on_"):
                continue
            cfg = CFG(f.node)
            for x in walk_no_nested(f.node):
                if isinstance(x, ast.Assert):
                    n += 1
                    run.violation(R, f.qual, "assert-in-callback",
                                  f"`{stmt_key(x)}`: an assert in a frame callback turns a stray "
                                  "or duplicated frame into an AssertionError out of "
                                  "decode_rx_frame", loc(f, x), stmt_key(x))
            # locals holding an Optional state element
            opt: Dict[str, str] = {}
            for x in walk_no_nested(f.node):
                if isinstance(x, ast.Assign) and len(x.targets) == 1 and isinstance(
                        x.targets[0], ast.Name) and isinstance(x.value, ast.Subscript) and \
                        isinstance(x.value.value, ast.Attribute) and \
                        x.value.value.attr in ACTIVE_STATE:
                    opt[x.targets[0].id] = x.value.value.attr
            for node in cfg.nodes:
                if node.stmt is None:
                    continue
                scope = node.expr if node.kind in ("if", "while") else node.stmt
                if scope is None or isinstance(scope, ast.Assert):
                    continue
                for y in ast.walk(scope):
                    names: List[ast.Name] = []
                    if isinstance(y, ast.BinOp):
                        names = [z for z in (y.left, y.right) if isinstance(z, ast.Name)]
                    elif isinstance(y, ast.Compare) and any(
                            isinstance(o, (ast.Lt, ast.LtE, ast.Gt, ast.GtE)) for o in y.ops):
                        names = [z for z in [y.left] + list(y.comparators)
                                 if isinstance(z, ast.Name)]
                    for nm in names:
                        if nm.id not in opt:
                            continue
                        n += 1
                        if _none_guarded(cfg, node, scope, y, nm.id):
                            run.ok(R, f.qual, f"`{ast.unparse(y)}`: {nm.id} "
                                   f"(= {opt[nm.id]}[i]) is used under a None test",
                                   loc(f, node.stmt))
                        else:
                            run.violation(R, f.qual, f"optional-state-{nm.id}",
                                          f"`{ast.unparse(y)}` uses {nm.id} (= self."
                                          f"{opt[nm.id]}[i], None while no transfer is in "
                                          "progress) without a branching None test: a "
                                          "consecutive frame that arrives in that state raises "
                                          "out of decode_rx_frame", loc(f, node.stmt),
                                          stmt_key(node.stmt))
    if n < 2:
        run.error(R, "no Optional per-ID state uses found in the on_* callbacks (anchor moved)")


def _guard_len(fn: ast.AST, cfg: CFG, use: ast.AST, data: str) -> int:
    """len(data) >= k established where ``use`` is evaluated: the branch conditions of its
    statement plus the operands that short-circuit in front of it inside the same test
    (`len(p) > 2 and p[2] == x`)."""
    st = _stmt_of(fn, use)
    node = cfg.node_of(st)
    best = _min_len(cfg, node, data)
    # short-circuit context
    parents: Dict[int, ast.AST] = {}
    scope = cfg.nodes[node].expr if cfg.nodes[node].kind in ("if", "while") else st
    for x in ast.walk(scope):  # type: ignore[arg-type]
        for c in ast.iter_child_nodes(x):
            parents[id(c)] = x
    cur: ast.AST = use
    while id(cur) in parents:
        par = parents[id(cur)]
        if isinstance(par, ast.BoolOp):
            pol = isinstance(par.op, ast.And)  # earlier `and` operands held, `or` ones failed
            for v in par.values:
                if v is cur or any(z is cur for z in ast.walk(v)):
                    break
                best = max(best, _len_bound(v, pol, data))
        if isinstance(par, ast.IfExp) and cur is not par.test:
            best = max(best, _len_bound(par.test, cur is par.body, data))
        cur = par
    return best


def c13_consumers(prog: Program, run: Run) -> None:
    """R1 (continued): what the package itself does with a frame / telegram it was handed must
    not raise on its content either -- snoop's telegram handler (and the helpers it passes the
    payload to) index the payload only under a sufficient length guard, and the frame callbacks
    of the package's decoders do not convert a frame-derived number to an enumeration member
    without a guard (``IsoTp(frame_type)`` raises ValueError for the reserved PCI types)."""
    R = "C13.R1"
    n = 0

    def check_indexes(f: FuncInfo, data: str, depth: int, via: str) -> None:
        nonlocal n
        cfg = CFG(f.node)
        for x in walk_no_nested(f.node):
            if isinstance(x, ast.Subscript) and isinstance(x.value, ast.Name) and \
                    x.value.id == data and not isinstance(x.slice, ast.Slice):
                k = normalize(x.slice).const_value()
                have = _guard_len(f.node, cfg, x, data)
                n += 1
                if k is not None and k >= 0 and have >= k + 1:
                    run.ok(R, f.qual, f"`{ast.unparse(x)}` guarded by len({data}) >= {int(k) + 1}",
                           loc(f, x))
                elif k is not None and k < 0 and have >= -k:
                    run.ok(R, f.qual, f"`{ast.unparse(x)}` guarded by len({data}) >= {int(-k)}",
                           loc(f, x))
                else:
                    run.violation(R, f.qual, f"payload-index-unguarded-{ast.unparse(x.slice)}",
                                  f"`{ast.unparse(x)}` ({via}) may raise IndexError: only "
                                  f"len({data}) >= {have} is established; a truncated telegram "
                                  "crashes the consumer", loc(f, x), stmt_key(_stmt_of(f.node, x)))
            if depth < 2 and isinstance(x, ast.Call):
                pos = [i for i, a in enumerate(x.args) if isinstance(a, ast.Name) and a.id == data]
                kws = [k_.arg for k_ in x.keywords if isinstance(k_.value, ast.Name) and
                       k_.value.id == data and k_.arg]
                if not pos and not kws:
                    continue
                nm = call_name(x)
                cands = [g for g in prog.iter_functions() if g.cls is None and g.name == nm]
                if len(cands) != 1:
                    continue
                g = cands[0]
                ps = g.params()
                for i in pos:
                    if i < len(ps):
                        check_indexes(g, ps[i], depth + 1, f"{via} -> {g.qual}")
                for k_ in kws:
                    if k_ in ps:
                        check_indexes(g, k_, depth + 1, f"{via} -> {g.qual}")
    ht = prog.find_func("odxtools.cli.snoop:handle_telegram")
    if ht is None:
        run.error(R, "odxtools.cli.snoop:handle_telegram not found (anchor moved)")
        return
    check_indexes(ht, ht.params()[1], 0, "snoop.handle_telegram")
    # enum conversions in frame callbacks: every class of the package (nested ones with a
    # dynamic base such as snoop's decoder included) that defines one of the on_* hooks
    base = prog.cls("IsoTpStateMachine")
    hooks = {m for m in base.methods if m.startswith("on_")}

    class _F:  # the little of FuncInfo the report needs
        def __init__(self, mod, cname, node):
            self.module, self.node, self.qual = mod, node, f"{cname}.{node.name}"

        def params(self):
            return [a.arg for a in self.node.args.posonlyargs + self.node.args.args]
    cbs = []
    for mod in prog.modules.values():
        for c in ast.walk(mod.tree):
            if isinstance(c, ast.ClassDef):
                for m in c.body:
                    if isinstance(m, (ast.FunctionDef, ast.AsyncFunctionDef)) and m.name in hooks:
                        cbs.append(_F(mod, c.name, m))
    for f in cbs:
        if True:
            params = set(f.params()[1:])
            for x in walk_no_nested(f.node):
                if not (isinstance(x, ast.Call) and len(x.args) == 1 and not x.keywords):
                    continue
                ch = attr_chain(x.func)
                if not ch or not prog.has_cls(ch[-1]) or not prog.cls(ch[-1]).is_enum:
                    continue
                if not any(isinstance(y, ast.Name) and y.id in params
                           for y in ast.walk(x.args[0])):
                    continue
                n += 1
                caught = any(isinstance(t, ast.Try) and any(z is x for b_ in t.body
                                                           for z in ast.walk(b_)) and any(
                    h.type is None or ast.unparse(h.type) in ("ValueError", "Exception")
                    for h in t.handlers) for t in walk_no_nested(f.node))
                if caught:
                    run.ok(R, f.qual, f"`{ast.unparse(x)}` is wrapped in except ValueError",
                           loc(f, x))
                else:
                    run.violation(R, f.qual, f"enum-conversion-{ch[-1]}",
                                  f"`{ast.unparse(x)}` converts a number taken from the frame to "
                                  f"a member of {ch[-1]}: values without a member (reserved PCI "
                                  "types) raise ValueError out of decode_rx_frame",
                                  loc(f, x), stmt_key(_stmt_of(f.node, x)))
    # callback arguments that the state machine passes as None: no override may use them as
    # numbers (numeric format spec, arithmetic, ordering) without a None test
    sm = prog.func("IsoTpStateMachine.decode_rx_frame")
    none_args: Dict[str, Set[int]] = {}
    for x in walk_no_nested(sm.node):
        if isinstance(x, ast.Call) and isinstance(x.func, ast.Attribute) and \
                x.func.attr in hooks:
            for i, a in enumerate(x.args):
                if isinstance(a, ast.Constant) and a.value is None:
                    none_args.setdefault(x.func.attr, set()).add(i)
    for f in cbs:
        for i in sorted(none_args.get(f.node.name, ())):
            ps = f.params()
            if i + 1 >= len(ps):
                continue
            pn = ps[i + 1]
            cfg_ = CFG(f.node)
            for x in walk_no_nested(f.node):
                use = None
                if isinstance(x, ast.FormattedValue) and x.format_spec is not None and \
                        isinstance(x.value, ast.Name) and x.value.id == pn and re.search(
                            r"[xXobdeEfFgGn%c]$", "".join(
                                v.value for v in x.format_spec.values
                                if isinstance(v, ast.Constant))):
                    use = x
                if isinstance(x, ast.BinOp) and any(isinstance(y, ast.Name) and y.id == pn
                                                    for y in (x.left, x.right)):
                    use = x
                if isinstance(x, ast.Compare) and any(isinstance(o, (ast.Lt, ast.LtE, ast.Gt,
                                                                     ast.GtE)) for o in x.ops) \
                        and any(isinstance(y, ast.Name) and y.id == pn
                                for y in [x.left] + x.comparators):
                    use = x
                if use is None:
                    continue
                st = _stmt_of(f.node, use)
                try:
                    node = cfg_.nodes[cfg_.node_of(st)]
                except Exception:  # noqa: BLE001
                    continue
                if _none_guarded(cfg_, node, st, use, pn):
                    continue
                run.violation(R, f.qual, f"none-argument-{pn}",
                              f"decode_rx_frame calls {f.node.name}() with None for `{pn}`, but "
                              f"`{ast.unparse(use)[:60]}` uses it as a number: TypeError out of "
                              "decode_rx_frame for a stray consecutive frame",
                              loc(f, use), stmt_key(st))
    if n < 3:
        run.error(R, "fewer than 3 payload uses found in the telegram consumers (anchor moved)")


def _is_none_test(t: ast.AST, name: str) -> Optional[bool]:
    """True: `name is not None`; False: `name is None`; None: something else."""
    if isinstance(t, ast.Compare) and len(t.ops) == 1 and isinstance(t.left, ast.Name) and \
            t.left.id == name and isinstance(t.comparators[0], ast.Constant) and \
            t.comparators[0].value is None:
        if isinstance(t.ops[0], ast.IsNot):
            return True
        if isinstance(t.ops[0], ast.Is):
            return False
    return None


def _none_guarded(cfg: CFG, node, scope: ast.AST, use: ast.AST, name: str) -> bool:
    for test, pol in cfg.branch_conditions(node.id):
        conj = test.values if isinstance(test, ast.BoolOp) and isinstance(test.op, ast.And) and \
            pol else [test]
        for c in conj:
            r = _is_none_test(c, name)
            if r is not None and r == pol:
                return True
        if isinstance(test, ast.BoolOp) and isinstance(test.op, ast.Or) and not pol:
            for c in test.values:
                if _is_none_test(c, name) is False:
                    return True
    # same expression: `name is not None and <use>`
    for b in ast.walk(scope):
        if isinstance(b, ast.BoolOp) and isinstance(b.op, ast.And):
            for i, v in enumerate(b.values):
                if any(z is use for z in ast.walk(v)):
                    if any(_is_none_test(w, name) is True for w in b.values[:i]):
                        return True
    return False


def c12_log_regex(prog: Program, run: Run) -> None:
    R = "C12.R3"
    import re._parser as sre  # type: ignore
    cls = prog.cls("IsoTpStateMachine")
    f = prog.func("IsoTpStateMachine.read_telegrams")
    regexes: Dict[str, Tuple[str, ast.AST]] = {}
    for st in cls.node.body:
        if isinstance(st, ast.Assign) and isinstance(st.value, ast.Call) and dotted(
                st.value.func) == "re.compile" and isinstance(st.targets[0], ast.Name):
            a = st.value.args[0]
            try:
                s = ast.literal_eval(a)
            except Exception:
                raise AnalysisError("regex is not a literal")
            regexes[st.targets[0].id] = (s, st)
    if len(regexes) < 3:
        raise AnalysisError("fewer than 3 frame regexes in IsoTpStateMachine")

    def group_info(pattern: str):
        p = sre.parse(pattern)
        out = {}

        def walk(sub):
            for op, av in sub:
                if op is sre.SUBPATTERN:
                    gid, _a, _b, inner = av
                    out[gid] = inner
                    walk(inner)
                elif op in (sre.MAX_REPEAT, sre.MIN_REPEAT):
                    walk(av[2])
                elif op is sre.BRANCH:
                    for b in av[1]:
                        walk(b)
        walk(p)
        return out

    def minlen_nonspace(inner) -> Tuple[int, bool]:
        """(minimal number of repetitions, only hex/space chars)."""
        mn = 0
        hexonly = True
        for op, av in inner:
            if op in (sre.MAX_REPEAT, sre.MIN_REPEAT):
                lo, _hi, sub = av
                m2, h2 = minlen_nonspace(sub)
                mn += lo * m2
                hexonly = hexonly and h2
            elif op is sre.IN:
                chars = set()
                for o2, a2 in av:
                    if o2 is sre.LITERAL:
                        chars.add(chr(a2))
                    elif o2 is sre.RANGE:
                        chars |= {chr(c) for c in range(a2[0], a2[1] + 1)}
                    else:
                        hexonly = False
                if not chars <= set("0123456789abcdefABCDEF "):
                    hexonly = False
                mn += 1
            elif op is sre.LITERAL:
                if chr(av) not in "0123456789abcdefABCDEF ":
                    hexonly = False
                mn += 1
            else:
                hexonly = False
        return mn, hexonly

    # which groups does the code convert with int(..., 16)?
    uses: Dict[str, set] = {}
    for x in walk_no_nested(f.node):
        if isinstance(x, ast.Call) and call_name(x) in ("match", "fullmatch"):
            ch = attr_chain(x.func)
            if ch and len(ch) == 3 and ch[0] == "self" and ch[1] in regexes:
                uses.setdefault(ch[1], set())
    groups_read = set()
    for x in walk_no_nested(f.node):
        if isinstance(x, ast.Call) and call_name(x) == "group" and x.args and isinstance(
                x.args[0], ast.Constant):
            groups_read.add(x.args[0].value)
    if not uses:
        raise AnalysisError("read_telegrams does not match any of the frame regexes")
    for name in uses:
        pat, st = regexes[name]
        gi = group_info(pat)
        for g in sorted(groups_read):
            if g not in gi:
                run.violation(R, f"IsoTpStateMachine.{name}", f"group-{g}-missing",
                              f"read_telegrams reads group({g}) but the pattern has no such group",
                              f"{f.module.rel}:{st.lineno}")
                continue
            mn, hexonly = minlen_nonspace(gi[g])
            if g != 3 and hexonly:
                # only the data group must be non-empty for well-formed candump lines (a frame
                # with DLC 0 is legal input); a missing ID is a malformed line
                mn = max(mn, 1)
            if not hexonly:
                run.violation(R, f"IsoTpStateMachine.{name}", f"group-{g}-not-hex",
                              f"group({g}) is converted with int(x, 16) but may contain non-hex "
                              "characters", f"{f.module.rel}:{st.lineno}")
            elif mn < 1:
                run.violation(R, f"IsoTpStateMachine.{name}", f"group-{g}-may-be-empty",
                              f"group({g}) may match the empty string; int('', 16) raises "
                              "ValueError and aborts the log reader",
                              f"{f.module.rel}:{st.lineno}")
            else:
                run.ok(R, f"IsoTpStateMachine.{name}", f"group({g}) is a non-empty hex field",
                       f"{f.module.rel}:{st.lineno}")
    # bytes.fromhex() wants an even number of digits (and nothing else); the patterns admit any
    # number of hex characters, so a line cut off in the middle of a byte raises ValueError
    for x in walk_no_nested(f.node):
        if isinstance(x, ast.Call) and isinstance(x.func, ast.Attribute) and \
                x.func.attr == "fromhex":
            caught = any(isinstance(t, ast.Try) and any(z is x for b_ in t.body
                                                       for z in ast.walk(b_)) and any(
                h.type is None or ast.unparse(h.type) in ("ValueError", "Exception")
                for h in t.handlers) for t in walk_no_nested(f.node))
            if caught:
                run.ok(R, "IsoTpStateMachine.read_telegrams", "fromhex() is wrapped in except "
                       "ValueError", f"{f.module.rel}:{x.lineno}")
            else:
                run.violation(R, "IsoTpStateMachine.read_telegrams", "fromhex-odd-digits",
                              f"`{ast.unparse(x)[:60]}` raises ValueError for a data field with "
                              "an odd number of hex digits (a log line cut off inside a byte), "
                              "which the frame patterns admit: the log reader dies instead of "
                              "going on with the next line", f"{f.module.rel}:{x.lineno}",
                              ast.unparse(x)[:80])
    # the decimal frame length in brackets (`[8]`, CAN-FD: `[12]` .. `[64]`) admits two digits
    def bracket_fields(seq):
        items = list(seq)
        for i_, (op, av) in enumerate(items):
            if op is sre.LITERAL and chr(av) == "[":
                inner = []
                for op2, av2 in items[i_ + 1:]:
                    if op2 is sre.LITERAL and chr(av2) == "]":
                        yield inner
                        break
                    inner.append((op2, av2))
            if op is sre.SUBPATTERN:
                yield from bracket_fields(av[3])
            elif op in (sre.MAX_REPEAT, sre.MIN_REPEAT):
                yield from bracket_fields(av[2])
            elif op is sre.BRANCH:
                for b_ in av[1]:
                    yield from bracket_fields(b_)
    for name in uses:
        pat, st = regexes[name]
        for inner in bracket_fields(sre.parse(pat)):
            if not inner:
                continue
            wide = any(op in (sre.MAX_REPEAT, sre.MIN_REPEAT) and (
                av[1] is sre.MAXREPEAT or av[1] >= 2) for op, av in inner) or len(inner) >= 2
            if wide:
                run.ok(R, f"IsoTpStateMachine.{name}", "the bracketed frame length admits more "
                       "than one digit", f"{f.module.rel}:{st.lineno}")
            else:
                run.violation(R, f"IsoTpStateMachine.{name}", "length-field-one-digit",
                              "the frame length in brackets matches a single character only: "
                              "candump lines of CAN-FD frames (`[12]` .. `[64]`) match none of "
                              "the patterns and their frames are dropped with a warning",
                              f"{f.module.rel}:{st.lineno}", pat)
    # id from group 2, data from group 3, both fed into decode_rx_frame
    calls = [x for x in walk_no_nested(f.node) if isinstance(x, ast.Call) and call_name(x) ==
             "decode_rx_frame"]
    # every frame obtained (bus.recv() / a matched line whose ID was parsed) reaches a
    # decode_rx_frame call before the next frame is read -- however the branches are arranged
    cfg = CFG(f.node)
    via = set()
    whiles = []
    for node in cfg.nodes:
        scope = node.expr if node.kind in ("for", "while", "if", "with") else node.stmt
        if node.kind == "while":
            whiles.append(node.id)
        if scope is not None and any(isinstance(x, ast.Call) and call_name(x) ==
                                     "decode_rx_frame" for x in ast.walk(scope)):
            via.add(node.id)
    sources = []
    for node in cfg.nodes:
        st = node.stmt
        if node.kind != "stmt" or not isinstance(st, ast.Assign) or not isinstance(
                st.targets[0], ast.Name):
            continue
        if isinstance(st.value, ast.Call) and call_name(st.value) == "recv":
            # `if msg is None: continue` -- nothing was received
            none_skips = set()
            for n2 in cfg.nodes:
                if n2.kind == "stmt" and isinstance(n2.stmt, ast.Continue) and any(
                        pol and norm_test(t) == norm_test(ast.parse(
                            f"{st.targets[0].id} is None", mode="eval").body)
                        for t, pol in cfg.branch_conditions(n2.id)):
                    none_skips.add(n2.id)
            sources.append(("bus", node.id, none_skips, st))
    # a log line that matched one of the frame patterns: the true edge of the test
    # (or, when the match object is tested against None, the edge on which it is one)
    line_starts = []
    match_vars = {x.targets[0].id for x in walk_no_nested(f.node)
                  if isinstance(x, ast.Assign) and isinstance(x.targets[0], ast.Name) and
                  isinstance(x.value, ast.Call) and call_name(x.value) in ("match", "fullmatch")}

    def _is_match(e):
        return (isinstance(e, ast.Call) and call_name(e) in ("match", "fullmatch")) or (
            isinstance(e, ast.Name) and e.id in match_vars) or (
            isinstance(e, ast.NamedExpr) and _is_match(e.value))

    for node in cfg.nodes:
        if node.kind != "if" or node.expr is None:
            continue
        e = node.expr
        edge = var = None
        if isinstance(e, ast.Compare) and len(e.ops) == 1 and isinstance(
                e.comparators[0], ast.Constant) and e.comparators[0].value is None and _is_match(
                    e.left):
            edge = "F" if isinstance(e.ops[0], (ast.Is, ast.Eq)) else "T"
            var = e.left
        elif isinstance(e, ast.UnaryOp) and isinstance(e.op, ast.Not) and _is_match(e.operand):
            edge, var = "F", e.operand
        elif any(isinstance(x, ast.Call) and call_name(x) in ("match", "fullmatch")
                 for x in ast.walk(e)) or _is_match(e):
            edge, var = "T", e
        if edge is None:
            continue
        skips = set()
        if isinstance(var, ast.Name):
            # `if m is None: continue` further down -- no pattern matched this line
            for n2 in cfg.nodes:
                if n2.kind == "stmt" and isinstance(n2.stmt, ast.Continue) and any(
                        pol and norm_test(t) == norm_test(ast.parse(
                            f"{var.id} is None", mode="eval").body)
                        for t, pol in cfg.branch_conditions(n2.id)):
                    skips.add(n2.id)
        for s_ in cfg.succ[node.id]:
            if cfg.label.get((node.id, s_)) == edge:
                line_starts.append((node, s_))
                sources.append(("line", s_, skips, node.stmt))
    kinds = [k for k, *_ in sources]
    lost = []
    for k, nid, skips, st in sources:
        if k == "line" and nid in via:
            continue
        if not all(cfg.must_pass(nid, via | skips, d) for d in whiles + [EXIT]):
            lost.append(st)
    if kinds.count("bus") < 1 or kinds.count("line") < 2 or len(uses) < 3:
        run.violation(R, "IsoTpStateMachine.read_telegrams", "decode-calls",
                      "not every input kind (bus, candump, log) feeds decode_rx_frame", f.loc)
    elif lost:
        run.violation(R, "IsoTpStateMachine.read_telegrams", "decode-calls",
                      f"the frame obtained by `{stmt_key(lost[0])}` can reach the next read "
                      "without being fed into decode_rx_frame: not every input kind (bus, "
                      "candump, log) feeds decode_rx_frame", loc(f, lost[0]))
    else:
        run.ok(R, "read_telegrams", f"every frame obtained ({len(sources)} sources) reaches "
               "decode_rx_frame before the next one is read", f.loc)
    for c in calls:
        st = _stmt_of(f.node, c)
        loop_ok = isinstance(st, ast.For) or any(isinstance(p, ast.For) and any(
            z is c for z in ast.walk(p.iter)) for p in walk_no_nested(f.node))
        if loop_ok:
            run.ok(R, "read_telegrams", f"every telegram of `{ast.unparse(c)}` is re-yielded",
                   loc(f, c))
        else:
            run.violation(R, "IsoTpStateMachine.read_telegrams", "telegrams-dropped",
                          f"the result of `{ast.unparse(c)}` is not iterated and re-yielded",
                          loc(f, c))
    # group numbers
    for x in walk_no_nested(f.node):
        if isinstance(x, ast.Assign) and len(x.targets) == 1 and isinstance(
                x.targets[0], ast.Name):
            tn = x.targets[0].id
            gs = [y.args[0].value for y in ast.walk(x.value) if isinstance(y, ast.Call) and
                  call_name(y) == "group" and y.args and isinstance(y.args[0], ast.Constant)]
            if tn == "frame_id" and gs:
                if gs != [2] or not any(isinstance(y, ast.Constant) and y.value == 16
                                        for y in ast.walk(x.value)):
                    run.violation(R, "IsoTpStateMachine.read_telegrams", "frame-id-group",
                                  f"`{stmt_key(x)}`: the CAN ID is hex group 2 of the pattern",
                                  loc(f, x), stmt_key(x))
                else:
                    run.ok(R, "read_telegrams", "CAN ID = int(group(2), 16)", loc(f, x))
            if tn == "frame_data_formatted" and gs:
                if gs != [3]:
                    run.violation(R, "IsoTpStateMachine.read_telegrams", "frame-data-group",
                                  f"`{stmt_key(x)}`: the data bytes are group 3 of the pattern",
                                  loc(f, x), stmt_key(x))
                else:
                    run.ok(R, "read_telegrams", "frame data = group(3)", loc(f, x))


def c12_flow_control(prog: Program, run: Run) -> None:
    R = "C12.R4"
    f = prog.func("IsoTpActiveDecoder.on_first_frame")
    cfg = CFG(f.node)
    sends = []
    supers = []
    for node in cfg.nodes:
        if node.stmt is None or node.kind != "stmt":
            continue
        for x in ast.walk(node.stmt):
            if isinstance(x, ast.Call) and call_name(x) == "_send_can_message":
                sends.append((node.id, x))
            if isinstance(x, ast.Call) and isinstance(x.func, ast.Attribute) and isinstance(
                    x.func.value, ast.Call) and call_name(x.func.value) == "super" and \
                    x.func.attr == "on_first_frame":
                supers.append(node.id)
    if not sends:
        run.violation(R, "IsoTpActiveDecoder.on_first_frame", "no-flow-control",
                      "a first frame is not answered with a flow-control frame", f.loc)
        return
    if not cfg.must_pass(0, [n for n, _x in sends], EXIT):
        run.violation(R, "IsoTpActiveDecoder.on_first_frame", "flow-control-skipped",
                      "there is a path through on_first_frame that returns without sending the "
                      "clear-to-send flow-control frame", f.loc)
    else:
        run.ok(R, "IsoTpActiveDecoder.on_first_frame", "every path sends a flow-control frame",
               f.loc)
    if not supers or not cfg.must_pass(0, supers, EXIT):
        run.violation(R, "IsoTpActiveDecoder.on_first_frame", "super-not-chained",
                      "on_first_frame does not chain to super().on_first_frame on every path",
                      f.loc)
    else:
        run.ok(R, "IsoTpActiveDecoder.on_first_frame", "chains to super().on_first_frame", f.loc)
    # payload = pack("u4u4u8u8", FLOW_CONTROL, CONTINUE, bs, st) ; tx id = can_tx_id(telegram_idx)
    idxp = f.params()[1]
    for _n, call in sends:
        if len(call.args) < 2:
            run.violation(R, "IsoTpActiveDecoder.on_first_frame", "send-args",
                          "_send_can_message is not given (tx id, payload)", loc(f, call))
            continue
        tx, pl = call.args[0], call.args[1]
        txv = _single_def(f.node, tx)
        if not (isinstance(txv, ast.Call) and call_name(txv) == "can_tx_id" and txv.args and
                isinstance(txv.args[0], ast.Name) and txv.args[0].id == idxp):
            run.violation(R, "IsoTpActiveDecoder.on_first_frame", "tx-id",
                          "the flow-control frame is not sent to can_tx_id(telegram_idx)",
                          loc(f, call), stmt_key(_stmt_of(f.node, call)))
        else:
            run.ok(R, "IsoTpActiveDecoder.on_first_frame", "sent to can_tx_id(telegram_idx)",
                   loc(f, call))
        plv = _single_def(f.node, pl)
        good = False
        if isinstance(plv, ast.Call) and call_name(plv) == "pack" and len(plv.args) >= 5:
            fmt = plv.args[0]
            if isinstance(fmt, ast.Constant) and fmt_bits(fmt.value) == [4, 4, 8, 8]:
                a1, a2 = dotted(plv.args[1]), dotted(plv.args[2])
                good = a1 == "IsoTp.FRAME_TYPE_FLOW_CONTROL" and a2 == "IsoTp.FLOW_CONTROL_CONTINUE"
        if good:
            run.ok(R, "IsoTpActiveDecoder.on_first_frame",
                   "payload = pack('u4u4u8u8', FLOW_CONTROL, CONTINUE, block size, STmin)",
                   loc(f, call))
        else:
            run.violation(R, "IsoTpActiveDecoder.on_first_frame", "fc-payload",
                          "the flow-control payload is not pack('u4u4u8u8', FRAME_TYPE_FLOW_CONTROL,"
                          " FLOW_CONTROL_CONTINUE, block size, STmin)", loc(f, call),
                          ast.unparse(plv) if plv is not None else "")


def _single_def(fn: ast.AST, e: ast.AST) -> Optional[ast.AST]:
    if not isinstance(e, ast.Name):
        return e
    defs = [x.value for x in walk_no_nested(fn) if isinstance(x, ast.Assign) and
            len(x.targets) == 1 and isinstance(x.targets[0], ast.Name) and
            x.targets[0].id == e.id]
    return defs[0] if len(defs) == 1 else None


# ============================================================== C13 rules
def c13_no_raise(prog: Program, fr: Frame, run: Run) -> None:
    R = "C13.R1"
    f = fr.f
    cfg = fr.cfg
    # explicit raises
    for x in walk_no_nested(fr.fn):
        if isinstance(x, ast.Raise):
            run.violation(R, "IsoTpStateMachine.decode_rx_frame", "explicit-raise",
                          "decode_rx_frame raises on a frame", loc(f, x), stmt_key(x))
    # asserts: allowed only as narrowing of a value just produced by bitstruct.unpack
    unpack_targets = set()
    for x in walk_no_nested(fr.fn):
        if isinstance(x, ast.Assign) and fr._is_unpack(x.value):
            for t in ast.walk(x.targets[0]):
                if isinstance(t, ast.Name):
                    unpack_targets.add(t.id)
    for x in walk_no_nested(fr.fn):
        if isinstance(x, ast.Assert):
            t = x.test
            narrowing = isinstance(t, ast.Call) and call_name(t) == "isinstance" and isinstance(
                t.args[0], ast.Name) and t.args[0].id in unpack_targets and ast.unparse(
                    t.args[1]) == "int"
            if narrowing:
                run.ok(R, "decode_rx_frame", f"`{stmt_key(x)}` only narrows the type of an "
                       "unpacked integer field", loc(f, x))
            else:
                run.violation(R, "IsoTpStateMachine.decode_rx_frame",
                              "assert-on-state:" + " ".join(ast.unparse(t).split())[:60],
                              f"`{stmt_key(x)}` tests reassembly state or frame data: a lossy "
                              "frame sequence raises AssertionError", loc(f, x), stmt_key(x))
    # every unpack(fmt, data) is dominated by len(data) >= ceil(bits/8)
    for x in walk_no_nested(fr.fn):
        if isinstance(x, ast.Call) and fr._is_unpack(x):
            fmt = x.args[0]
            bits = fmt_bits(fmt.value) if isinstance(fmt, ast.Constant) else None
            if bits is None:
                raise AnalysisError("unpack format not a literal")
            need = (sum(bits) + 7) // 8
            st = _stmt_of(fr.fn, x)
            have = _min_len(cfg, cfg.node_of(st), fr.p_data)
            if have >= need:
                run.ok(R, "decode_rx_frame", f"unpack({fmt.value!r}) guarded by len(data) >= {need}",
                       loc(f, x))
            else:
                run.violation(R, "IsoTpStateMachine.decode_rx_frame",
                              f"unpack-{fmt.value}-unguarded-{need}",
                              f"`{ast.unparse(x)}` needs {need} byte(s) but only len({fr.p_data}) "
                              f">= {have} is established on the way: a truncated or empty frame "
                              "raises bitstruct.Error", loc(f, x), stmt_key(st))
    # bare subscripts of data (data[0]) need the same guard
    for x in walk_no_nested(fr.fn):
        if isinstance(x, ast.Subscript) and isinstance(x.value, ast.Name) and \
                x.value.id == fr.p_data and not isinstance(x.slice, ast.Slice):
            k = normalize(x.slice).const_value()
            st = _stmt_of(fr.fn, x)
            have = _min_len(cfg, cfg.node_of(st), fr.p_data)
            if k is None or have < k + 1:
                run.violation(R, "IsoTpStateMachine.decode_rx_frame", "index-unguarded",
                              f"`{ast.unparse(x)}` may raise IndexError on a short frame",
                              loc(f, x), stmt_key(st))
    # the id lookup's ValueError is caught
    t_ok = False
    for t in walk_no_nested(fr.fn):
        if isinstance(t, ast.Try) and any(
                s is fr.idx_stmt or (isinstance(s, ast.Assign) and isinstance(
                    s.value, ast.Call) and dotted(s.value.func) == "self._can_rx_ids.index")
                for s in t.body):
            for h in t.handlers:
                if h.type is None or ast.unparse(h.type) in ("ValueError", "Exception"):
                    t_ok = True
    if t_ok:
        run.ok(R, "decode_rx_frame", "list.index(rx_id) is wrapped in except ValueError",
               loc(f, fr.idx_stmt))
    else:
        run.violation(R, "IsoTpStateMachine.decode_rx_frame", "index-valueerror",
                      "a frame of an unknown CAN ID raises ValueError", loc(f, fr.idx_stmt))


def _min_len(cfg: CFG, n: int, data: str) -> int:
    """Largest k such that len(data) >= k is established by the guards that
    control node n (if-tests with a fixed polarity, incl. early returns)."""
    best = 0
    for test, pol in cfg.branch_conditions(n):
        best = max(best, _len_bound(test, pol, data))
    # early-return guards: `if len(data) < k: return`  -> F edge dominates the rest
    return best


def _len_bound(test: ast.AST, pol: bool, data: str) -> int:
    if isinstance(test, ast.UnaryOp) and isinstance(test.op, ast.Not):
        return _len_bound(test.operand, not pol, data)
    if isinstance(test, ast.BoolOp):
        vals = [_len_bound(v, pol, data) for v in test.values]
        if isinstance(test.op, ast.And) == pol:
            return max(vals)  # all conjuncts hold
        return min(vals)
    if isinstance(test, ast.Name) and test.id == data:
        return 1 if pol else 0
    if isinstance(test, ast.Compare) and len(test.ops) == 1:
        l, op, r = test.left, test.ops[0], test.comparators[0]
        def is_len(e):
            return isinstance(e, ast.Call) and call_name(e) == "len" and e.args and isinstance(
                e.args[0], ast.Name) and e.args[0].id == data
        if is_len(r) and not is_len(l):
            flip = {ast.Lt: ast.Gt, ast.Gt: ast.Lt, ast.LtE: ast.GtE, ast.GtE: ast.LtE,
                    ast.Eq: ast.Eq, ast.NotEq: ast.NotEq}
            l, r, op = r, l, flip[type(op)]()
        if is_len(l):
            k = normalize(r).const_value()
            if k is None or k.denominator != 1:
                return 0
            k = int(k)
            t = type(op)
            if not pol:
                t = {ast.Lt: ast.GtE, ast.GtE: ast.Lt, ast.Gt: ast.LtE, ast.LtE: ast.Gt,
                     ast.Eq: ast.NotEq, ast.NotEq: ast.Eq}[t]
            if t is ast.GtE:
                return k
            if t is ast.Gt:
                return k + 1
            if t is ast.Eq:
                return k
            if t is ast.NotEq and k == 0:
                return 1
    return 0


def c13_typestate(prog: Program, fr: Frame, run: Run) -> None:
    R = "C13.R2"
    f = fr.f
    cfg = fr.cfg
    state_writers(prog, fr, run, R)
    _state_before_yield(fr, run, R)
    _c13_typestate_rest(prog, fr, run, R)


def _state_before_yield(fr: Frame, run: Run, R: str) -> None:
    """decode_rx_frame is a generator: what follows a `yield` only runs when (and if) the
    consumer asks for the next element -- after it handled the telegram, possibly after it fed
    the next frame, or never (`next(...)`, `break`).  All updates of the reassembly state
    therefore precede the yield of the frame they belong to."""
    cfg = fr.cfg
    ys = [n for n in cfg.nodes if n.stmt is not None and n.kind == "stmt" and isinstance(
        n.stmt, ast.Expr) and isinstance(n.stmt.value, (ast.Yield, ast.YieldFrom))]
    if not ys:
        raise AnalysisError("decode_rx_frame: no yield statement")
    bad = False
    for y in ys:
        after = cfg.reachable(y.id) - {y.id}
        for nid in sorted(after):
            n = cfg.nodes[nid]
            st = n.stmt
            if st is None or n.kind != "stmt":
                continue
            tg = st.targets if isinstance(st, (ast.Assign, ast.Delete)) else (
                [st.target] if isinstance(st, (ast.AugAssign, ast.AnnAssign)) else [])
            for t in tg:
                base = t.value if isinstance(t, ast.Subscript) else t
                if isinstance(base, ast.Attribute) and isinstance(base.value, ast.Name) and \
                        base.value.id == "self":
                    bad = True
                    run.violation(R, "IsoTpStateMachine.decode_rx_frame",
                                  f"state-after-yield-{base.attr}",
                                  f"`{stmt_key(st)}` runs after `{stmt_key(y.stmt)}`: the "
                                  "generator is suspended there, so the state is still the old "
                                  "one while the consumer handles the telegram and when it "
                                  "feeds the next frame before resuming (or never resumes)",
                                  loc(fr.f, st), stmt_key(st))
    if not bad:
        run.ok(R, "IsoTpStateMachine.decode_rx_frame", f"no state update follows any of the "
               f"{len(ys)} yield statements", fr.f.loc)


def state_writers(prog: Program, fr: Frame, run: Run, R: str) -> None:
    """who may write the reassembly buffers: only __init__ and decode_rx_frame"""
    f = fr.f
    for g in prog.iter_functions():
        for x in ast.walk(g.node):
            tgts = []
            if isinstance(x, ast.Assign):
                tgts = x.targets
            elif isinstance(x, (ast.AugAssign, ast.AnnAssign)):
                tgts = [x.target]
            elif isinstance(x, ast.Delete):
                tgts = x.targets
            for t in tgts:
                base = t.value if isinstance(t, ast.Subscript) else t
                if isinstance(base, ast.Attribute) and base.attr in STATE:
                    if g.node is fr.fn or (g.cls is not None and g.cls.name == "IsoTpStateMachine"
                                           and g.name == "__init__"):
                        continue
                    run.violation(R, f"{g.module.rel}:{g.qual}", f"foreign-writer-{base.attr}",
                                  f"`{stmt_key(x)}` changes the reassembly state outside "
                                  "decode_rx_frame (callbacks and subclasses must not)",
                                  loc(g, x), stmt_key(x))
    # nested classes (snoop builds its decoder inside a function)
    for m in prog.modules.values():
        for x in ast.walk(m.tree):
            if isinstance(x, ast.ClassDef):
                for y in ast.walk(x):
                    if isinstance(y, (ast.Assign, ast.AugAssign, ast.Delete)):
                        tg = y.targets if isinstance(y, (ast.Assign, ast.Delete)) else [y.target]
                        for t in tg:
                            base = t.value if isinstance(t, ast.Subscript) else t
                            if isinstance(base, ast.Attribute) and base.attr in STATE and \
                                    x.name != "IsoTpStateMachine":
                                run.violation(R, f"{m.rel}:{x.name}",
                                              f"foreign-writer-{base.attr}",
                                              f"`{stmt_key(y)}` changes the reassembly state "
                                              "outside decode_rx_frame", f"{m.rel}:{y.lineno}",
                                              stmt_key(y))
    run.ok(R, "package", "reassembly buffers are written only by IsoTpStateMachine.__init__ / "
           "decode_rx_frame (who-may-write scan of all modules)", f.loc)


def _c13_typestate_rest(prog: Program, fr: Frame, run: Run, R: str) -> None:
    f = fr.f
    cfg = fr.cfg
    body = fr.branches.get("FRAME_TYPE_CONSECUTIVE")
    if body is None:
        return
    # (a) a consecutive frame in idle state (buffer None) takes an exit without touching it
    buf = None
    buf_stmt = None
    for st in body:
        if isinstance(st, ast.Assign) and len(st.targets) == 1 and isinstance(
                st.targets[0], ast.Name) and fr.state_sub(st.value) and fr.state_sub(
                    st.value)[0] == "_telegram_data":
            buf, buf_stmt = st.targets[0].id, st
    uses = []
    for st in body:
        for x in walk_no_nested(st):
            is_use = False
            if isinstance(x, ast.AugAssign) and isinstance(x.target, ast.Name) and \
                    x.target.id == buf:
                is_use = True
            if isinstance(x, ast.Call) and call_name(x) == "len" and x.args and isinstance(
                    x.args[0], ast.Name) and x.args[0].id == buf:
                is_use = True
            if isinstance(x, ast.Subscript) and isinstance(x.value, ast.Name) and \
                    x.value.id == buf:
                is_use = True
            if fr.state_sub(x) and fr.state_sub(x)[0] == "_telegram_data" and isinstance(
                    getattr(x, "ctx", None), ast.Load) and x is not getattr(buf_stmt, "value",
                                                                             None):
                is_use = True
            if is_use:
                uses.append(x)
    idle_guarded = True
    for u in uses:
        st = _stmt_of(fr.fn, u)
        conds = cfg.branch_conditions(cfg.node_of(st))
        ok = False
        for t, pol in conds:
            txt = norm_test(t, negate=not pol)
            if buf and (txt == f"{buf} is not None" or txt == buf):
                ok = True
            if "_telegram_data" in txt and "is not None" in txt:
                ok = True
            if buf and f"isinstance({buf}, bytearray)" in txt and pol:
                ok = True
        if not ok:
            idle_guarded = False
    if idle_guarded and uses:
        run.ok(R, "decode_rx_frame", "the buffer is only used under a `buffer is not None` guard: "
               "a consecutive frame without a running transfer is rejected", loc(f, body[0]))
    else:
        run.violation(R, "IsoTpStateMachine.decode_rx_frame", "idle-buffer-used",
                      "a consecutive frame that arrives while no transfer is running (before any "
                      "first frame, or after completion) reaches code that uses the buffer; "
                      "there is no `is None` guard", loc(f, buf_stmt or body[0]))
    # (b) completion returns the ID to idle: the path that yields resets _telegram_data[idx]
    for y in _yields(body):
        st = _stmt_of(fr.fn, y)
        yn = cfg.node_of(st)
        resets = []
        for a, v, s in _state_assigns(fr, body):
            if a == "_telegram_data" and isinstance(v, ast.Constant) and v.value is None:
                resets.append(cfg.node_of(s))
        ok = bool(resets) and (any(cfg.dominates(r, yn) and _same_branch(cfg, r, yn)
                                   for r in resets) or cfg.must_pass(yn, resets, EXIT))
        if ok:
            run.ok(R, "decode_rx_frame", "completion resets the buffer (ID returns to idle)",
                   loc(f, y))
        else:
            run.violation(R, "IsoTpStateMachine.decode_rx_frame", "buffer-not-reset",
                          "after a telegram has been yielded the buffer of that ID is not reset: "
                          "a stray consecutive frame re-reports the previous telegram",
                          loc(f, y), stmt_key(st))
    # (c) first frame resets all state -> reported by _c12_first under C13.R2
    _c12_first_for_c13(fr, run)


def _same_branch(cfg: CFG, a: int, b: int) -> bool:
    ca = {(ast.unparse(t), p) for t, p in cfg.branch_conditions(a)}
    cb = {(ast.unparse(t), p) for t, p in cfg.branch_conditions(b)}
    return ca == cb


def _c12_first_for_c13(fr: Frame, run: Run) -> None:
    body = fr.branches.get("FRAME_TYPE_FIRST")
    if body is None:
        return
    got = {a for a, _v, _s in _state_assigns(fr, body)}
    ok = True
    for a in STATE:
        if a not in got:
            ok = False
            run.violation("C13.R2", "IsoTpStateMachine.decode_rx_frame", f"first-frame-keeps-{a}",
                          f"a first frame does not (re)initialise {a}[idx]: state of an aborted "
                          "transfer leaks into the next one", loc(fr.f, body[0]))
    for a, v, s in _state_assigns(fr, body):
        if a == "_telegram_last_rx_fragment_idx" and not (isinstance(v, ast.Constant) and
                                                          v.value == 0):
            ok = False
            run.violation("C13.R2", "IsoTpStateMachine.decode_rx_frame", "first-seq",
                          "a first frame must reset the sequence counter to 0", loc(fr.f, s),
                          stmt_key(s))
    if ok:
        run.ok("C13.R2", "decode_rx_frame", "a first frame re-initialises length, buffer and "
               "sequence counter of its ID", loc(fr.f, body[0]))


def c13_seq_error(fr: Frame, run: Run) -> None:
    R = "C13.R3"
    f = fr.f
    cfg = fr.cfg
    body = fr.branches.get("FRAME_TYPE_CONSECUTIVE")
    if body is None:
        return
    ups = fr.unpacks(body)
    sn = fr.second_target(ups[0][0]) if ups else None
    exp_name = None
    for st in body:
        if isinstance(st, ast.Assign) and len(st.targets) == 1 and isinstance(
                st.targets[0], ast.Name) and any(
                    fr.state_sub(x) and fr.state_sub(x)[0] == "_telegram_last_rx_fragment_idx"
                    for x in ast.walk(st.value)):
            exp_name = st.targets[0].id
    if not (sn and exp_name):
        run.violation(R, "IsoTpStateMachine.decode_rx_frame", "no-sequence-check",
                      "no expected/received sequence number pair found", loc(f, body[0]))
        return
    want = norm_test(ast.parse(f"{exp_name} == {sn}", mode="eval").body)
    n = 0
    for st in body:
        for x in walk_no_nested(st):
            write = None
            if isinstance(x, ast.Assign) and any(fr.state_sub(t) for t in x.targets):
                # the completion reset is a state write on the *good* path too
                write = x
            if isinstance(x, ast.AugAssign):
                write = x
            if write is None:
                continue
            n += 1
            conds = cfg.branch_conditions(cfg.node_of(_stmt_of(fr.fn, write)))
            texts = {norm_test(t, negate=not pol) for t, pol in conds}
            if want in texts:
                run.ok(R, "decode_rx_frame", f"`{stmt_key(write)}` only on the in-sequence path",
                       loc(f, write))
            else:
                run.violation(R, "IsoTpStateMachine.decode_rx_frame",
                              "state-write-on-sequence-error",
                              f"`{stmt_key(write)}` also executes when the sequence number is "
                              "wrong: a duplicated or reordered frame corrupts the transfer",
                              loc(f, write), stmt_key(write))
    # the error callback is invoked on the mismatch path
    called = False
    for x in walk_no_nested(fr.fn):
        if isinstance(x, ast.Call) and call_name(x) == "on_sequence_error":
            conds = cfg.branch_conditions(cfg.node_of(_stmt_of(fr.fn, x)))
            texts = {norm_test(t, negate=not pol) for t, pol in conds}
            neg = norm_test(ast.parse(f"{exp_name} != {sn}", mode="eval").body)
            if neg in texts:
                called = True
    if called:
        run.ok(R, "decode_rx_frame", "sequence mismatch -> on_sequence_error", loc(f, body[0]))
    else:
        run.violation(R, "IsoTpStateMachine.decode_rx_frame", "sequence-error-unreported",
                      "a sequence mismatch is not reported through on_sequence_error",
                      loc(f, body[0]))
    # a yield never happens on the mismatch path
    for y in _yields(body):
        conds = cfg.branch_conditions(cfg.node_of(_stmt_of(fr.fn, y)))
        texts = {norm_test(t, negate=not pol) for t, pol in conds}
        if want in texts:
            run.ok(R, "decode_rx_frame", "telegrams are yielded only on the in-sequence path",
                   loc(f, y))
        else:
            run.violation(R, "IsoTpStateMachine.decode_rx_frame", "yield-on-sequence-error",
                          "a telegram may be yielded although the frame was out of sequence",
                          loc(f, y))
