"""C13 — lossy CAN traffic: nothing raises on frame data, buffer typestate, sequence errors."""
from __future__ import annotations

from ..report import Run
from ..src import Program
from . import isotp
from .common import run_as

EXPLANATION = (
    "Exception-freedom and typestate analysis of IsoTpStateMachine.decode_rx_frame on its CFG: "
    "every bitstruct.unpack / index of the frame data must be dominated by a sufficient "
    "len(data) guard, no assert may test reassembly state, the buffer may only be used under an "
    "`is not None` guard (idle state), the yielding path must reset the buffer, a first frame "
    "re-initialises all per-ID state, state writes of consecutive frames are control-dependent "
    "on the sequence check, and nobody outside decode_rx_frame/__init__ writes the buffers "
    "(who-may-write scan of every module, nested classes included).")
ASSUMPTIONS = [
    "callbacks (on_*) of the package's own subclasses and snoop's telegram handler are checked "
    "for asserts, unguarded Optional state, unguarded payload indexes and enum conversions; "
    "other exceptions raised inside user-supplied callbacks are outside the property",
    "the guards recognised are comparisons of len(data) with integer constants and truthiness of "
    "data",
]


def check(prog: Program, run: Run) -> None:
    run.rule("C13.R1", "processing a frame cannot raise: no assert on state/data, every "
             "unpack/index of the frame dominated by a sufficient length guard, id lookup caught",
             floor=5)
    run.rule("C13.R2", "buffer typestate: used only when not None, reset when a telegram is "
             "yielded, fully re-initialised by a first frame, written only by decode_rx_frame",
             floor=3)
    run.rule("C13.R3", "a sequence error changes no state and yields nothing", floor=3)
    fr = isotp.Frame(prog)
    isotp.c13_no_raise(prog, fr, run)
    isotp.c13_callbacks(prog, run)
    isotp.c13_consumers(prog, run)
    run_as(run, "C12.R3", "C13.R1", lambda r: isotp.c12_log_regex(prog, r))
    isotp.c13_typestate(prog, fr, run)
    # what is reported after a loss or a corrupted length is still made of whole frame payloads
    # cut at the announced length (the append / truncate / completion shape, shared with C12.R1)
    run_as(run, "C12.R1", "C13.R2", lambda r: isotp._c12_consecutive(fr, r))
    isotp.c13_seq_error(fr, run)
    run.info("functions", [fr.f.key])
