"""C12 — ISO-TP reassembly: frame table, per-ID state indexing, log regexes, flow control."""
from __future__ import annotations

from ..report import Run
from ..src import Program
from . import isotp

EXPLANATION = (
    "Structural analysis of IsoTpStateMachine.decode_rx_frame / read_telegrams and "
    "IsoTpActiveDecoder.on_first_frame: the if/elif dispatch on the PCI nibble is extracted as "
    "a decision table and compared with ISO 15765-2 (PCI formats, payload slices, modulo-16 "
    "sequence numbers, completion test, padding truncation); every subscript of the per-ID "
    "state arrays in the whole package must use the receive-ID index; the candump regexes are "
    "parsed with re._parser and their groups checked against the int(x, 16) conversions; "
    "flow-control sending is a must-pass-through query on the CFG.")
ASSUMPTIONS = [
    "decides the frame table, state indexing, regex groups and flow-control path shape; "
    "correctness over interleavings and all lengths 1..4095 as such is not decided",
    "bitstruct.unpack/pack semantics of the format letters u<N> are trusted",
]


def check(prog: Program, run: Run) -> None:
    run.rule("C12.R1", "decode_rx_frame implements the ISO 15765-2 frame table (PCI nibble "
             "dispatch, u4u4/u4u12 PCI formats, payload slices, (last+1) mod 16, completion when "
             "the announced length is reached, padding cut off)", floor=15)
    run.rule("C12.R2", "per-ID reassembly state is only accessed through the index of the "
             "frame's receive ID; unknown IDs return before any state access", floor=10)
    run.rule("C12.R3", "the candump/log regexes provide non-empty hex groups for exactly the "
             "groups read_telegrams converts, and all input kinds feed decode_rx_frame", floor=6)
    run.rule("C12.R4", "IsoTpActiveDecoder.on_first_frame sends a clear-to-send flow-control "
             "frame to can_tx_id(idx) on every path and chains to super()", floor=3)
    fr = isotp.Frame(prog)
    isotp.c12_frame_table(fr, run)
    isotp.c12_state_indexing(prog, fr, run)
    isotp.state_writers(prog, fr, run, "C12.R2")
    isotp.c12_id_tables(prog, run)
    isotp.c12_log_regex(prog, run)
    isotp.c12_flow_control(prog, run)
    run.info("functions", [fr.f.key, "IsoTpStateMachine.read_telegrams",
                           "IsoTpActiveDecoder.on_first_frame"])
    run.info("branches", sorted(fr.branches))
