"""C16 — named item lists keep their list and name views consistent.

Structural rules over ``ItemAttributeList`` / ``NamedItemList``:
 R1 every membership mutator of the property's operation list is overridden and
    updates *both* views on every path (CFG must-pass-through);
 R2 removal deletes exactly the name of the removed element: the deleted key is
    selected by comparison with the removed object and at most one key is
    deleted per removed element;
 R3 the name of a new item is chosen by a loop whose exit test covers existing
    item names *and* attributes/methods of the list object, starting from
    ``_get_item_key`` (keyword / digit escaping), and ``__getattr__`` exposes
    exactly the names of ``_item_dict`` (AttributeError otherwise);
 R4 copies (copy / __copy__ / __deepcopy__ / __reduce__) rebuild both views and
    never alias the name dictionary of the original.
"""
from __future__ import annotations

import ast
from typing import Dict, List, Optional, Set, Tuple

from ..cfg import CFG, EXIT
from ..report import Run
from ..src import (AnalysisError, FuncInfo, Program, attr_chain, call_name, dotted, stmt_key,
                   walk_no_nested)

EXPLANATION = (
    "Effect summaries of every mutator and copier of ItemAttributeList (which list operation "
    "and which _item_dict operation it performs, on which argument) are extracted from the AST "
    "and checked on the per-method CFG with must-pass-through queries; the collision loop, "
    "__getattr__ and _get_item_key are checked as decision tables.")
ASSUMPTIONS = [
    "only the operations the property lists are covered (append, insert, extend, remove, pop, "
    "clear, copy, deepcopy, pickle); __setitem__/__delitem__/+= inherited from list are outside "
    "the property's operation list",
    "consistency over concrete histories is not executed; the rules are necessary conditions "
    "that hold for every history because they quantify over all paths of each mutator",
]

CLS = "ItemAttributeList"
DICT = "_item_dict"
LIST_MUT = {"append", "insert", "extend", "remove", "pop", "clear"}


def _is_self_attr(n: ast.AST, attr: str, selfname: str = "self") -> bool:
    return isinstance(n, ast.Attribute) and n.attr == attr and isinstance(n.value, ast.Name) and \
        n.value.id == selfname


def _list_op(call: ast.Call, selfname: str = "self") -> Optional[Tuple[str, List[ast.expr]]]:
    """('append', args) for ``super().append(x)`` / ``list.append(self, x)``."""
    f = call.func
    if not isinstance(f, ast.Attribute):
        return None
    if isinstance(f.value, ast.Call) and call_name(f.value) == "super":
        return f.attr, list(call.args)
    if isinstance(f.value, ast.Name) and f.value.id == "list" and call.args and isinstance(
            call.args[0], ast.Name):
        return f.attr, list(call.args[1:]) if call.args[0].id == selfname else None  # type: ignore
    return None


def _list_op_on(call: ast.Call, target: str) -> Optional[Tuple[str, List[ast.expr]]]:
    f = call.func
    if isinstance(f, ast.Attribute) and isinstance(f.value, ast.Name) and f.value.id == "list" \
            and call.args and isinstance(call.args[0], ast.Name) and call.args[0].id == target:
        return f.attr, list(call.args[1:])
    if isinstance(f, ast.Attribute) and isinstance(f.value, ast.Name) and f.value.id == target:
        return f.attr, list(call.args)
    return None


def _names(e: ast.AST) -> Set[str]:
    return {n.id for n in ast.walk(e) if isinstance(n, ast.Name)}


def _stmt_nodes(cfg: CFG, pred) -> List[int]:
    out = []
    for n in cfg.nodes:
        if n.stmt is None or n.kind in ("except", "try", "finally-exc"):
            continue
        scope = n.expr if n.kind in ("if", "while", "for", "with") else n.stmt
        if isinstance(scope, (ast.FunctionDef, ast.ClassDef)):
            continue
        for x in walk_no_nested(scope) if not isinstance(scope, ast.stmt) else _own(scope):
            if pred(x):
                out.append(n.id)
                break
    return out


def _own(st: ast.stmt):
    """Sub-nodes evaluated by the statement itself (compound bodies excluded)."""
    if isinstance(st, (ast.If, ast.While)):
        yield from ast.walk(st.test)
    elif isinstance(st, ast.For):
        yield from ast.walk(st.iter)
    elif isinstance(st, (ast.With, ast.Try)):
        return
    else:
        yield from walk_no_nested(st)


def check(prog: Program, run: Run) -> None:
    run.rule("C16.R1", "every membership mutator is overridden and updates the list and the "
             "name dictionary on every path, for the same item", floor=6)
    run.rule("C16.R2", "removing an element deletes exactly one name, selected by comparison "
             "with the removed object", floor=2)
    run.rule("C16.R3", "names are made unique against item names and the list's own "
             "attributes; __getattr__ mirrors _item_dict; _get_item_key escapes keywords and "
             "leading digits", floor=4)
    run.rule("C16.R4", "copy/__copy__/__deepcopy__/__reduce__ rebuild both views without "
             "aliasing the original's name dictionary", floor=4)
    run.rule("C16.R5", "inside the package a NamedItemList is only mutated through the "
             "operations ItemAttributeList overrides (no +=, item assignment, sort, ... on it)",
             floor=1)
    from . import common
    common.g9_named_list_raw_mutation(prog, run, "C16.R5")
    ci = prog.cls(CLS)
    mod = ci.module

    def need(name: str) -> Optional[FuncInfo]:
        f = ci.methods.get(name)
        if f is None:
            run.violation("C16.R1", f"{CLS}.{name}", "not-overridden",
                          f"{CLS} does not override list.{name}: the operation bypasses the name "
                          "dictionary", ci.loc)
        return f

    # ------------------------------------------------------------------ R1
    add_item = ci.methods.get("_add_attribute_item")
    if add_item is None:
        raise AnalysisError("ItemAttributeList._add_attribute_item not found")

    def must_all(f: FuncInfo, preds: Dict[str, object], what: str) -> None:
        cfg = CFG(f.node)
        for label, pred in preds.items():
            nodes = _stmt_nodes(cfg, pred)
            if not nodes:
                run.violation("C16.R1", f"{CLS}.{f.name}", f"missing-{label}",
                              f"{f.name} never performs `{label}`: one of the two views is not "
                              "updated", f.loc)
            elif not cfg.must_pass(0, nodes, EXIT):
                run.violation("C16.R1", f"{CLS}.{f.name}", f"path-skips-{label}",
                              f"there is a path through {f.name} that returns without `{label}`",
                              f.loc)
            else:
                run.ok("C16.R1", f"{CLS}.{f.name}", f"every path performs `{label}` ({what})",
                       f.loc)

    def is_add_attr(arg: str):
        return lambda x: isinstance(x, ast.Call) and _is_self_attr(x.func, "_add_attribute_item") \
            and len(x.args) == 1 and isinstance(x.args[0], ast.Name) and x.args[0].id == arg

    def is_listop(op: str, args: List[str]):
        def p(x):
            if not isinstance(x, ast.Call):
                return False
            lo = _list_op(x)
            return lo is not None and lo[0] == op and [ast.unparse(a) for a in lo[1]] == args
        return p

    f = need("append")
    if f:
        a = f.params()[1]
        must_all(f, {"_add_attribute_item(item)": is_add_attr(a),
                     "list.append(item)": is_listop("append", [a])}, "same item in both views")
    f = need("insert")
    if f:
        i, a = f.params()[1], f.params()[2]
        must_all(f, {"_add_attribute_item(item)": is_add_attr(a),
                     "list.insert(index, item)": is_listop("insert", [i, a])}, "same item")
    f = need("extend")
    if f:
        it = f.params()[1]
        ok = False
        for st in f.node.body:
            if isinstance(st, ast.For) and ast.unparse(st.iter) == it and isinstance(
                    st.target, ast.Name):
                v = st.target.id
                body_calls = [x for s in st.body for x in walk_no_nested(s)
                              if isinstance(x, ast.Call)]
                via_append = any(_is_self_attr(c.func, "append") and len(c.args) == 1 and
                                 ast.unparse(c.args[0]) == v for c in body_calls)
                both = any(is_add_attr(v)(c) for c in body_calls) and any(
                    is_listop("append", [v])(c) for c in body_calls)
                if (via_append or both) and not any(isinstance(x, (ast.Break, ast.Continue,
                                                                   ast.Return, ast.If))
                                                    for s in st.body for x in ast.walk(s)):
                    ok = True
        bypass = [x for x in walk_no_nested(f.node) if isinstance(x, ast.Call) and _list_op(x) and
                  _list_op(x)[0] in ("extend", "__iadd__")]
        if ok and not bypass:
            run.ok("C16.R1", f"{CLS}.extend", "every item of the iterable goes through append",
                   f.loc)
        else:
            run.violation("C16.R1", f"{CLS}.extend", "items-bypass-names",
                          "extend does not route every item through append (or both view "
                          "updates)", f.loc)
    f = need("clear")
    if f:
        def dict_reset(x):
            if isinstance(x, ast.Assign) and any(_is_self_attr(t, DICT) for t in x.targets):
                v = x.value
                return (isinstance(v, ast.Dict) and not v.keys) or (
                    isinstance(v, ast.Call) and call_name(v) == "dict" and not v.args)
            return isinstance(x, ast.Call) and isinstance(x.func, ast.Attribute) and \
                x.func.attr == "clear" and _is_self_attr(x.func.value, DICT)
        must_all(f, {"list.clear()": is_listop("clear", []), "_item_dict reset": dict_reset},
                 "both views emptied")

    # ------------------------------------------------------------------ R2
    for name in ("remove", "pop"):
        f = need(name)
        if not f:
            continue
        _check_removal(prog, run, f, name)

    # ------------------------------------------------------------------ R3
    _check_naming(prog, run, ci, add_item)

    # ------------------------------------------------------------------ R4
    _check_copies(prog, run, ci)

    # __init__ creates the dictionary before any append
    init = ci.methods.get("__init__")
    if init is None:
        raise AnalysisError("ItemAttributeList.__init__ not found")
    cfg = CFG(init.node)
    creates = _stmt_nodes(cfg, lambda x: isinstance(x, (ast.Assign, ast.AnnAssign)) and any(
        _is_self_attr(t, DICT) for t in (x.targets if isinstance(x, ast.Assign) else [x.target])))
    appends = _stmt_nodes(cfg, lambda x: isinstance(x, ast.Call) and isinstance(
        x.func, ast.Attribute) and x.func.attr in ("append", "extend", "_add_attribute_item"))
    if creates and all(any(cfg.dominates(c, a) for c in creates) for a in appends) and appends:
        run.ok("C16.R1", f"{CLS}.__init__", "the name dictionary exists before the initial items "
               "are appended through append()", init.loc)
    else:
        run.violation("C16.R1", f"{CLS}.__init__", "init-order",
                      "__init__ does not create _item_dict before adding the initial items "
                      "through append()", init.loc)
    run.info("methods", sorted(ci.methods))


def _check_removal(prog: Program, run: Run, f: FuncInfo, name: str) -> None:
    R = "C16.R2"
    cfg = CFG(f.node)
    params = f.params()
    # the removed object: parameter of remove(); result of list.pop for pop()
    removed: Optional[str] = None
    list_nodes = []
    for n in cfg.nodes:
        if n.stmt is None or n.kind != "stmt":
            continue
        for x in walk_no_nested(n.stmt):
            if isinstance(x, ast.Call) and _list_op(x) and _list_op(x)[0] in ("remove", "pop"):
                list_nodes.append(n.id)
                if _list_op(x)[0] == "pop":
                    st = n.stmt
                    if isinstance(st, ast.Assign) and len(st.targets) == 1 and isinstance(
                            st.targets[0], ast.Name):
                        removed = st.targets[0].id
                    want = [params[1]] if len(params) > 1 else []
                    if [ast.unparse(a) for a in _list_op(x)[1]] != want:
                        run.violation("C16.R1", f"{CLS}.{name}", "wrong-index",
                                      f"`{ast.unparse(x)}` does not pop the requested index",
                                      f.loc)
                else:
                    # list.remove(self, obj) drops the first element EQUAL to obj; which object
                    # that was is not known afterwards
                    removed = "<by-equality>" if name == "remove" else removed
            if isinstance(x, ast.Call) and _is_self_attr(x.func, "pop") and name == "remove":
                # remove() implemented through self.pop(index_of(obj)) delegates both views
                list_nodes.append(n.id)
                removed = "<delegated>"
    if not list_nodes or not cfg.must_pass(0, list_nodes, EXIT):
        run.violation("C16.R1", f"{CLS}.{name}", "list-not-updated",
                      f"{name} does not remove the element from the underlying list on every "
                      "path", f.loc)
        return
    if removed == "<delegated>":
        run.ok("C16.R1", f"{CLS}.{name}", "delegates to pop(), which updates both views", f.loc)
        run.ok(R, f"{CLS}.{name}", "name deletion delegated to pop()", f.loc)
        return
    if removed == "<by-equality>":
        run.violation(R, f"{CLS}.{name}", "removed-element-not-identified",
                      f"{name} takes the element out with list.remove(), i.e. the first element "
                      "that is EQUAL to the argument, and then deletes a name by identity with "
                      "the argument: when an equal but distinct object is passed, the name of "
                      "the removed element stays behind (or the name of another object goes). "
                      "The removed element must be identified first (index / pop)", f.loc)
        return
    if removed is None:
        run.violation(R, f"{CLS}.{name}", "removed-object-unknown",
                      f"{name} does not keep the removed object, so it cannot delete its name",
                      f.loc)
        return
    run.ok("C16.R1", f"{CLS}.{name}", "removes the element from the underlying list", f.loc)
    # dictionary deletions
    dels: List[Tuple[int, ast.AST, Optional[ast.AST]]] = []  # (node, stmt, key expr)
    for n in cfg.nodes:
        if n.stmt is None or n.kind != "stmt":
            continue
        st = n.stmt
        if isinstance(st, ast.Delete):
            for t in st.targets:
                if isinstance(t, ast.Subscript) and _is_self_attr(t.value, DICT):
                    dels.append((n.id, st, t.slice))
        for x in walk_no_nested(st):
            if isinstance(x, ast.Call) and isinstance(x.func, ast.Attribute) and _is_self_attr(
                    x.func.value, DICT) and x.func.attr in ("pop", "popitem", "clear"):
                dels.append((n.id, st, x.args[0] if x.args and x.func.attr == "pop" else None))
        if isinstance(st, ast.Assign) and any(_is_self_attr(t, DICT) for t in st.targets):
            dels.append((n.id, st, None))
    if not dels:
        run.violation("C16.R1", f"{CLS}.{name}", "name-not-deleted",
                      f"{name} never deletes the removed element's name from _item_dict", f.loc)
        return
    for nid, st, key in dels:
        if key is None:
            run.violation(R, f"{CLS}.{name}", "key-not-selected-by-item",
                          f"`{stmt_key(st)}` drops a name that is not selected by comparing the "
                          "dictionary's values with the removed object (e.g. the most recently "
                          "inserted one)", f"{f.module.rel}:{st.lineno}", stmt_key(st))
            continue
        # the key must come from a search `... if v is/== removed`
        kn = _names(key)
        sel_ok = False
        multi = False
        for x in walk_no_nested(f.node):
            cmp_ok = False
            for c in ast.walk(x) if isinstance(x, (ast.ListComp, ast.GeneratorExp, ast.If,
                                                   ast.For)) else []:
                if isinstance(c, ast.Compare) and len(c.ops) == 1 and isinstance(
                        c.ops[0], (ast.Is, ast.Eq)):
                    names = _names(c)
                    if removed in names:
                        cmp_ok = True
            if not cmp_ok:
                continue
            if isinstance(x, ast.For) and any(d is st or any(y is st for y in ast.walk(b))
                                              for b in x.body for d in [b]):
                # deletion inside a loop: one per element only if the loop is left right away
                # or iterates a pre-selected key list
                pass
        # find where the key variable is bound
        bound_by_loop: Optional[ast.For] = None
        for x in walk_no_nested(f.node):
            if isinstance(x, ast.For) and _names(x.target) & kn and any(
                    y is st for b in x.body for y in ast.walk(b)):
                bound_by_loop = x
        if bound_by_loop is not None:
            it = bound_by_loop.iter
            src = it
            if isinstance(it, ast.Name):
                defs = [a.value for a in walk_no_nested(f.node) if isinstance(a, ast.Assign) and
                        len(a.targets) == 1 and isinstance(a.targets[0], ast.Name) and
                        a.targets[0].id == it.id]
                src = defs[0] if len(defs) == 1 else it
            has_cmp = any(isinstance(c, ast.Compare) and removed in _names(c) and isinstance(
                c.ops[0], (ast.Is, ast.Eq)) for c in ast.walk(src)) or any(
                    isinstance(c, ast.Compare) and removed in _names(c)
                    for b in bound_by_loop.body for c in ast.walk(b)
                    if isinstance(b, ast.If) or True)
            sel_ok = has_cmp
            # how many deletions can the loop perform?
            leaves = False
            body = bound_by_loop.body
            # `del` followed (in the same block) by break / return
            for blk in _blocks(body):
                for i, s in enumerate(blk):
                    if s is st and i + 1 < len(blk) and isinstance(blk[i + 1], (ast.Break,
                                                                                 ast.Return)):
                        leaves = True
            iter_is_all_matches = isinstance(src, (ast.ListComp, ast.GeneratorExp)) or (
                isinstance(src, ast.Call) and call_name(src) in ("items", "keys", "list"))
            if not leaves and iter_is_all_matches and not _is_sliced_to_one(src):
                multi = True
        else:
            # the key expression is itself the search: `next(k for k, v in ... if v is removed)`
            if isinstance(key, ast.Call) and call_name(key) == "next" and key.args and isinstance(
                    key.args[0], (ast.GeneratorExp, ast.ListComp)) and any(
                        isinstance(c, ast.Compare) and removed in _names(c) and len(c.ops) == 1
                        and isinstance(c.ops[0], (ast.Is, ast.Eq))
                        for g in key.args[0].generators for i_ in g.ifs for c in ast.walk(i_)):
                sel_ok = True
            # key bound by `key = next(k for k, v in ... if v is removed)` or similar
            for a in walk_no_nested(f.node):
                if isinstance(a, ast.Assign) and len(a.targets) == 1 and _names(
                        a.targets[0]) & kn:
                    if any(isinstance(c, ast.Compare) and removed in _names(c)
                           for c in ast.walk(a.value)):
                        sel_ok = True
        if not sel_ok:
            run.violation(R, f"{CLS}.{name}", "key-not-selected-by-item",
                          f"`{stmt_key(st)}`: the deleted key is not selected by comparing "
                          "dictionary values with the removed object",
                          f"{f.module.rel}:{st.lineno}", stmt_key(st))
        elif multi:
            run.violation(R, f"{CLS}.{name}", "deletes-all-equal-names",
                          f"`{stmt_key(st)}` runs for every key whose value equals the removed "
                          "object: removing one of two equal items deletes both names although "
                          "one of them is still in the list", f"{f.module.rel}:{st.lineno}",
                          stmt_key(st))
        else:
            run.ok(R, f"{CLS}.{name}", "deletes one name, selected by comparison with the removed "
                   "object", f"{f.module.rel}:{st.lineno}")
    if name == "pop":
        rets = [x for x in walk_no_nested(f.node) if isinstance(x, ast.Return)]
        if not rets or any(not (isinstance(r.value, ast.Name) and r.value.id == removed)
                           for r in rets):
            run.violation("C16.R1", f"{CLS}.pop", "returns-other",
                          "pop does not return the element it removed from the list", f.loc)
    # every path that removed the list element also deletes a name
    del_nodes = [d[0] for d in dels]
    search_nodes = del_nodes
    # (a deletion inside a loop is conditional by nature; require that the loop header is on
    # every path instead)
    hdrs = []
    for x in walk_no_nested(f.node):
        if isinstance(x, ast.For) and any(d[1] is y for d in dels for b in x.body
                                          for y in ast.walk(b)):
            hdrs.append(cfg.node_of(x))
    # a deletion guarded by "was a name found?" -- the search itself is on every path
    for n in cfg.nodes:
        if n.kind == "if" and n.expr is not None and any(
                isinstance(g, (ast.GeneratorExp, ast.ListComp)) and any(
                    isinstance(c, ast.Compare) and removed in _names(c)
                    for gen in g.generators for i_ in gen.ifs for c in ast.walk(i_))
                for g in ast.walk(n.expr)) and any(
                    d in cfg.reachable(n.id) for d in del_nodes):
            hdrs.append(n.id)
    if not cfg.must_pass(0, hdrs + [d for d in del_nodes if not hdrs], EXIT):
        run.violation("C16.R1", f"{CLS}.{name}", "path-skips-name-deletion",
                      f"there is a path through {name} that removes the element from the list "
                      "but never looks for its name", f.loc)


def _blocks(body: List[ast.stmt]):
    yield body
    for s in body:
        for fld in ("body", "orelse", "finalbody"):
            b = getattr(s, fld, None)
            if isinstance(b, list) and b and isinstance(b[0], ast.stmt):
                yield from _blocks(b)


def _is_sliced_to_one(src: ast.AST) -> bool:
    return isinstance(src, ast.Subscript) and isinstance(src.slice, ast.Slice) and \
        src.slice.upper is not None and ast.unparse(src.slice.upper) == "1"


def _check_naming(prog: Program, run: Run, ci, add_item: FuncInfo) -> None:
    R = "C16.R3"
    f = add_item
    item = f.params()[1]
    # initial name from _get_item_key(item)
    base = None
    for x in walk_no_nested(f.node):
        if isinstance(x, ast.Assign) and isinstance(x.value, ast.Call) and _is_self_attr(
                x.value.func, "_get_item_key") and [ast.unparse(a) for a in x.value.args] == [item]:
            base = x.targets[0].id if isinstance(x.targets[0], ast.Name) else None
    if base is None:
        run.violation(R, f"{CLS}._add_attribute_item", "no-item-key",
                      "the name is not derived from _get_item_key(item)", f.loc)
        return
    # the loop
    loops = [x for x in walk_no_nested(f.node) if isinstance(x, (ast.While, ast.For))]
    if len(loops) != 1:
        raise AnalysisError("_add_attribute_item: expected exactly one collision loop")
    loop = loops[0]
    # exit tests: `if <free test>: break` inside while True, or the while test itself
    exit_tests: List[Tuple[ast.AST, bool]] = []  # (test, polarity under which we leave)
    if isinstance(loop, ast.While) and not (isinstance(loop.test, ast.Constant) and
                                            loop.test.value is True):
        exit_tests.append((loop.test, False))
    for x in walk_no_nested(loop):
        if isinstance(x, ast.If) and any(isinstance(b, (ast.Break, ast.Return)) for b in x.body):
            exit_tests.append((x.test, True))
        if isinstance(x, ast.If) and any(isinstance(b, (ast.Break, ast.Return))
                                         for b in x.orelse):
            exit_tests.append((x.test, False))
    if not exit_tests:
        raise AnalysisError("_add_attribute_item: collision loop has no recognisable exit test")
    for test, pol in exit_tests:
        free = _free_conjuncts(test, pol)
        # name is free iff it is neither an item name nor an attribute of the object
        covers_attrs = False
        covers_items = False
        cand = None
        for c in free:
            # c is an expression that must be *False* for the name to be taken... we collect the
            # "taken" predicates: name is taken if any of them is true
            pass
        taken = _taken_predicates(test, pol)
        for t in taken:
            if isinstance(t, ast.Call) and call_name(t) == "hasattr" and len(t.args) == 2:
                obj = ast.unparse(t.args[0])
                cand = ast.unparse(t.args[1])
                if obj == "self":
                    covers_attrs = True
                    covers_items = True  # through __getattr__
                elif obj in ("type(self)", "self.__class__"):
                    covers_attrs = True
            if isinstance(t, ast.Compare) and len(t.ops) == 1 and isinstance(t.ops[0], ast.In):
                cont = ast.unparse(t.comparators[0])
                cand = ast.unparse(t.left)
                if cont in (f"self.{DICT}", f"self.{DICT}.keys()"):
                    covers_items = True
                if cont in ("dir(self)", "dir(type(self))"):
                    covers_attrs = True
                    if cont == "dir(self)":
                        covers_items = True
        if covers_attrs and covers_items:
            run.ok(R, f"{CLS}._add_attribute_item", "a candidate name is accepted only if it is "
                   "neither an item name nor an attribute/method of the list object", f.loc)
        elif not covers_attrs:
            run.violation(R, f"{CLS}._add_attribute_item", "attributes-not-checked",
                          f"the collision test `{ast.unparse(test)}` does not cover the "
                          "attributes and methods of the list object itself (e.g. keys, values, "
                          "items, get): an item with such a short name shadows / is shadowed by "
                          "the method", f"{f.module.rel}:{test.lineno}", ast.unparse(test))
        else:
            run.violation(R, f"{CLS}._add_attribute_item", "item-names-not-checked",
                          f"the collision test `{ast.unparse(test)}` does not cover the names "
                          "already in _item_dict: a second item overwrites the first one's name",
                          f"{f.module.rel}:{test.lineno}", ast.unparse(test))
    # the dictionary entry uses the name the loop ended with, for this item
    stores = [x for x in walk_no_nested(f.node) if isinstance(x, ast.Assign) and any(
        isinstance(t, ast.Subscript) and _is_self_attr(t.value, DICT) for t in x.targets)]
    cfg = CFG(f.node)
    if not stores:
        run.violation(R, f"{CLS}._add_attribute_item", "never-stores",
                      "the item is never entered into _item_dict", f.loc)
    for s in stores:
        t = [t for t in s.targets if isinstance(t, ast.Subscript)][0]
        key = ast.unparse(t.slice)
        lh = cfg.node_of(loop)
        after = cfg.node_of(s) not in cfg.reachable(lh, blocked=[]) or True
        # key variable must be the candidate variable of the loop (or assigned from it afterwards)
        cands = {ast.unparse(a) for tt, _p in exit_tests for a in ast.walk(tt)
                 if isinstance(a, ast.Name) and a.id not in ("self", "hasattr", "type", "dir")}
        alias = {key}
        for a in walk_no_nested(f.node):
            if isinstance(a, ast.Assign) and len(a.targets) == 1 and isinstance(
                    a.targets[0], ast.Name) and a.targets[0].id == key and isinstance(
                        a.value, ast.Name):
                alias.add(a.value.id)
        # ... or it happens right where a candidate was found free (`if <free test>: store;
        # return`, for the unmodified name in front of the loop and for the suffixed ones in it)
        guarded_by_free = any((ast.unparse(t), pol) in {(ast.unparse(tt), pp)
                                                         for tt, pp in exit_tests}
                              for t, pol in cfg.branch_conditions(cfg.node_of(s)))
        if alias & cands and ast.unparse(s.value) == item and (
                cfg.dominates(lh, cfg.node_of(s)) or guarded_by_free):
            run.ok(R, f"{CLS}._add_attribute_item", "the item is stored under the name the "
                   "collision loop ended with", f"{f.module.rel}:{s.lineno}")
        else:
            run.violation(R, f"{CLS}._add_attribute_item", "stores-other-name",
                          f"`{stmt_key(s)}` does not store the item under the unique name "
                          "computed by the collision loop", f"{f.module.rel}:{s.lineno}",
                          stmt_key(s))
    # __getattr__
    ga = ci.methods.get("__getattr__")
    if ga is None:
        run.violation(R, f"{CLS}.__getattr__", "missing",
                      "items are not reachable as attributes (no __getattr__)", ci.loc)
    else:
        key = ga.params()[1]
        gcfg = CFG(ga.node)
        good = True
        for r in [x for x in walk_no_nested(ga.node) if isinstance(x, ast.Raise)]:
            e = r.exc.func if isinstance(r.exc, ast.Call) else r.exc
            if e is None or ast.unparse(e) != "AttributeError":
                good = False
                run.violation(R, f"{CLS}.__getattr__", "raises-other",
                              f"`{stmt_key(r)}`: hasattr() only understands AttributeError; any "
                              "other exception breaks the collision test", ga.loc, stmt_key(r))
        # ... and only for names that are not items: a name that IS in the dictionary is served
        for r in [x for x in walk_no_nested(ga.node) if isinstance(x, ast.Raise)]:
            conds = gcfg.branch_conditions(gcfg.node_of(r))
            absent = any((ast.unparse(t) == f"{key} not in self.{DICT}" and pol) or
                         (ast.unparse(t) == f"{key} in self.{DICT}" and not pol)
                         for t, pol in conds)
            if not absent:
                good = False
                run.violation(R, f"{CLS}.__getattr__", "raises-for-item",
                              f"`{stmt_key(r)}` is not confined to names missing from "
                              f"{DICT}: an item whose name meets the other condition is in "
                              "keys()/[] but not reachable as attribute, and hasattr() -- the "
                              "collision test of _add_attribute_item -- reports its name free",
                              f"{ga.module.rel}:{r.lineno}", stmt_key(r))
        for r in [x for x in walk_no_nested(ga.node) if isinstance(x, ast.Return)]:
            v = r.value
            is_lookup = isinstance(v, ast.Subscript) and _is_self_attr(v.value, DICT) and \
                ast.unparse(v.slice) == key
            if not is_lookup:
                good = False
                run.violation(R, f"{CLS}.__getattr__", "returns-other",
                              f"`{stmt_key(r)}` does not return the item stored under the "
                              "requested name", ga.loc, stmt_key(r))
                continue
            conds = gcfg.branch_conditions(gcfg.node_of(r))
            guarded = any((ast.unparse(t) == f"{key} not in self.{DICT}" and not pol) or
                          (ast.unparse(t) == f"{key} in self.{DICT}" and pol) for t, pol in conds)
            if not guarded:
                good = False
                run.violation(R, f"{CLS}.__getattr__", "lookup-unguarded",
                              "an unknown name raises KeyError instead of AttributeError: "
                              "hasattr() on the list raises", ga.loc, stmt_key(r))
        if good:
            run.ok(R, f"{CLS}.__getattr__", "returns _item_dict[name] for item names and raises "
                   "AttributeError otherwise", ga.loc)
    # __getitem__ with a str key reads the dictionary
    gi = ci.methods.get("__getitem__")
    if gi is not None:
        key = gi.params()[1]
        rets = [r for r in walk_no_nested(gi.node) if isinstance(r, ast.Return) and isinstance(
            r.value, ast.Subscript) and _is_self_attr(r.value.value, DICT)]
        if rets and all(ast.unparse(r.value.slice) == key for r in rets):
            run.ok(R, f"{CLS}.__getitem__", "string keys are looked up in _item_dict", gi.loc)
        else:
            run.violation(R, f"{CLS}.__getitem__", "str-key",
                          "list[name] does not return _item_dict[name]", gi.loc)
    # keys()/values()/items() are views of the dictionary
    for nm in ("keys", "values", "items"):
        g = ci.methods.get(nm)
        if g is None:
            run.violation(R, f"{CLS}.{nm}", "missing", f"no {nm}() view", ci.loc)
            continue
        rets = [r for r in walk_no_nested(g.node) if isinstance(r, ast.Return)]
        if len(rets) == 1 and ast.unparse(rets[0].value) == f"self.{DICT}.{nm}()":
            run.ok(R, f"{CLS}.{nm}", f"returns _item_dict.{nm}()", g.loc)
        else:
            run.violation(R, f"{CLS}.{nm}", "other-source",
                          f"{nm}() does not return the {nm} of _item_dict", g.loc)
    # NamedItemList._get_item_key
    nil = prog.cls("NamedItemList")
    k = nil.methods.get("_get_item_key")
    if k is None:
        raise AnalysisError("NamedItemList._get_item_key not found")
    item = k.params()[1]
    sn = None
    for x in walk_no_nested(k.node):
        if isinstance(x, ast.Assign) and ast.unparse(x.value) == f"{item}.short_name" and \
                isinstance(x.targets[0], ast.Name):
            sn = x.targets[0].id
    sn_e = sn or f"{item}.short_name"
    # decision table over (starts with a digit, is a keyword), read off the symbolic returns
    from ..absint import consistent_paths
    from ..cfg import symbolic_returns
    E = f"{item}.short_name"
    paths = [(c, e, r) for c, e, r in symbolic_returns(k.node) if e is not None]
    esc_ok = plain_ok = True
    for dig in (True, False):
        for kw in (True, False):
            env = {f"{E}[0].isdigit()": dig, f"iskeyword({E})": kw,
                   f"keyword.iskeyword({E})": kw, f"isinstance({E}, str)": True}
            sel = consistent_paths(paths, env)
            txts = {" ".join(ast.unparse(e_).split()) for _c, e_, _r in sel}
            txt = txts.pop() if len(txts) == 1 else None
            escaped = txt in (f"f'_{{{E}}}'", f"'_' + {E}")
            plain = txt == E
            if dig or kw:
                esc_ok = esc_ok and escaped
            else:
                plain_ok = plain_ok and plain
    if esc_ok and plain_ok:
        run.ok(R, "NamedItemList._get_item_key", "short names that are keywords or start with a "
               "digit get a leading underscore, all others are used as they are", k.loc)
    else:
        run.violation(R, "NamedItemList._get_item_key", "escaping",
                      "the key of an item is not `_`+short_name exactly when the short name is a "
                      "Python keyword or starts with a digit", k.loc)


def _taken_predicates(test: ast.AST, leave_pol: bool) -> List[ast.AST]:
    """The loop is left when ``test`` has polarity ``leave_pol``; i.e. the name is *free* then.
    Return the atomic predicates P such that the name is considered taken iff any P holds."""
    # free  <=>  test == leave_pol ; taken <=> test == (not leave_pol)
    return _disjuncts(test, not leave_pol)


def _disjuncts(test: ast.AST, pol: bool) -> List[ast.AST]:
    """Atoms A1..An such that (test == pol) <=> (A1 or ... or An), when the test has that
    shape; otherwise the test itself (as a single opaque atom)."""
    if isinstance(test, ast.UnaryOp) and isinstance(test.op, ast.Not):
        return _disjuncts(test.operand, not pol)
    if isinstance(test, ast.BoolOp):
        if isinstance(test.op, ast.Or) and pol:
            out: List[ast.AST] = []
            for v in test.values:
                out += _disjuncts(v, True)
            return out
        if isinstance(test.op, ast.And) and not pol:
            out = []
            for v in test.values:
                out += _disjuncts(v, False)
            return out
        return [test]
    if isinstance(test, ast.Compare) and len(test.ops) == 1:
        if isinstance(test.ops[0], ast.NotIn) and not pol:
            return [ast.Compare(test.left, [ast.In()], test.comparators)]
        if isinstance(test.ops[0], ast.In) and pol:
            return [test]
        return [test] if pol else [ast.UnaryOp(ast.Not(), test)]
    return [test] if pol else [ast.UnaryOp(ast.Not(), test)]


def _free_conjuncts(test: ast.AST, pol: bool) -> List[ast.AST]:
    return []


def _check_copies(prog: Program, run: Run, ci) -> None:
    R = "C16.R4"
    for nm in ("copy", "__copy__", "__deepcopy__", "__reduce__"):
        f = ci.methods.get(nm)
        if f is None:
            run.violation(R, f"{CLS}.{nm}", "missing",
                          f"{CLS} does not define {nm}: the inherited list behaviour loses or "
                          "shares the name dictionary", ci.loc)
            continue
        src = f.node
        # aliasing: anything that hands self._item_dict / self.__dict__ to the result as is
        alias = False
        for x in walk_no_nested(src):
            if isinstance(x, ast.Assign):
                v = x.value
                if _is_self_attr(v, DICT) or _is_self_attr(v, "__dict__"):
                    if not all(isinstance(t, ast.Name) for t in x.targets):
                        alias = True
                        run.violation(R, f"{CLS}.{nm}", "aliases-item-dict",
                                      f"`{stmt_key(x)}` makes the copy share the original's name "
                                      "dictionary: mutating one list corrupts the other's names",
                                      f"{f.module.rel}:{x.lineno}", stmt_key(x))
            if isinstance(x, ast.Call) and isinstance(x.func, ast.Attribute) and x.func.attr in (
                    "update", "__setstate__") and any(
                        _is_self_attr(a, "__dict__") or (isinstance(a, ast.Call) and call_name(a)
                                                         == "vars") for a in x.args):
                alias = True
                run.violation(R, f"{CLS}.{nm}", "aliases-item-dict",
                              f"`{ast.unparse(x)}` copies the instance dictionary wholesale, so "
                              "the copy shares the original's _item_dict object",
                              f"{f.module.rel}:{x.lineno}", ast.unparse(x))
        if alias:
            continue
        # recognised rebuild idioms
        text_rets = [ast.unparse(r.value) for r in walk_no_nested(src)
                     if isinstance(r, ast.Return) and r.value is not None]
        ok = False
        why = ""
        if nm in ("__copy__",) and any(t in ("self.__class__(list(self))", "type(self)(list(self))",
                                             "self.__class__(self)", "type(self)(self)")
                                       for t in text_rets):
            ok, why = True, "re-created through the constructor (which appends every item)"
        if nm == "__reduce__" and any(
                t.replace(" ", "") in ("(self.__class__,(list(self),))", "(type(self),(list(self),))")
                for t in text_rets):
            ok, why = True, "pickled as (class, (list of items,)); the constructor re-appends"
        if nm in ("copy", "__deepcopy__"):
            # result variable
            res = None
            for x in walk_no_nested(src):
                if isinstance(x, ast.Assign) and isinstance(x.value, ast.Call) and isinstance(
                        x.targets[0], ast.Name):
                    fn = ast.unparse(x.value.func)
                    if fn in ("self.__class__", "type(self)", "cls", "cls.__new__",
                              "self.__class__.__new__"):
                        res = x.targets[0].id
            if res is None:
                run.violation(R, f"{CLS}.{nm}", "unrecognised",
                              f"{nm} does not create its result through the class", f.loc)
                continue
            # (a) every item appended through result.append(...)  [both views]
            via_append = False
            raw_list = False
            dict_fresh = False
            dict_from_self = False
            for x in walk_no_nested(src):
                if isinstance(x, ast.For) and ast.unparse(x.iter) == "self":
                    for c in [y for b in x.body for y in walk_no_nested(b)
                              if isinstance(y, ast.Call)]:
                        lo = _list_op_on(c, res)
                        if lo and lo[0] == "append":
                            if isinstance(c.func.value, ast.Name) and c.func.value.id == res:
                                via_append = True
                            else:
                                raw_list = True
                if isinstance(x, ast.Call):
                    lo = _list_op_on(x, res)
                    if lo and lo[0] == "extend" and [ast.unparse(a) for a in lo[1]] == ["self"]:
                        if isinstance(x.func.value, ast.Name) and x.func.value.id == "list":
                            raw_list = True
                        else:
                            via_append = True
                if isinstance(x, ast.Assign) and any(_is_self_attr(t, DICT, res)
                                                     for t in x.targets):
                    v = ast.unparse(x.value)
                    if v in ("{}", "dict()"):
                        dict_fresh = True
                    elif v in (f"self.{DICT}.copy()", f"dict(self.{DICT})", f"{{**self.{DICT}}}"):
                        dict_from_self = True
            created_by_ctor = any(isinstance(x, ast.Assign) and isinstance(x.value, ast.Call) and
                                  ast.unparse(x.value.func) in ("self.__class__", "type(self)")
                                  for x in walk_no_nested(src))
            if via_append and (dict_fresh or created_by_ctor) and not raw_list:
                ok, why = True, "every item re-appended through append() on a fresh dictionary"
            elif raw_list and dict_from_self and not via_append:
                ok, why = True, "list items copied and the dictionary shallow-copied"
            if not any(t == res for t in text_rets):
                ok = False
        if ok:
            run.ok(R, f"{CLS}.{nm}", f"both views rebuilt: {why}", f.loc)
        else:
            run.violation(R, f"{CLS}.{nm}", "view-not-rebuilt",
                          f"{nm} does not rebuild both the list and a private name dictionary "
                          "(recognised: constructor with list(self), append loop on a fresh "
                          "dictionary, list copy plus _item_dict.copy())", f.loc)
