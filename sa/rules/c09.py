"""C09 — value inheritance: merge decision table, category wiring, priorities, parents untouched."""
from __future__ import annotations

import ast
from typing import Dict, List, Optional, Set, Tuple

from ..absint import eval_test
from ..cfg import symbolic_block_paths, CFG
from ..exprnorm import norm_test
from ..report import Run
from ..src import (AnalysisError, FuncInfo, Program, attr_chain, call_name, const_value, dotted,
                   stmt_key, walk_no_nested)
from . import common

EXPLANATION = (
    "The inheritance merge HierarchyElement._compute_available_objects is read as a decision "
    "table on its CFG (parents visited by descending priority; per-parent NOT-INHERITED filter "
    "applied to the parent's recursive view; lower priority keeps, higher replaces, equal "
    "priority goes through local-override / equality / conflict error; local objects written "
    "last); every inherited category is checked for consistent wiring between the local getter, "
    "the exclusion list, the DiagDataDictionarySpec keyword / private attribute and the public "
    "property; the priority constants are compared with the ODX order; nothing is written "
    "through a parent reference.")
ASSUMPTIONS = [
    "resulting object sets for concrete hierarchies are not computed; each rule is a necessary "
    "condition that holds for every hierarchy because it constrains every path of the merge",
    "ODX priority order PROTOCOL < FUNCTIONAL-GROUP < BASE-VARIANT < ECU-VARIANT, ECU-SHARED-DATA "
    "overriding all (ASAM MCD-2D 7.3.2.4.4) is taken as given",
]

DOP_CATS = ["data_object_props", "structures", "dtc_dops", "static_fields", "end_of_pdu_fields",
            "dynamic_endmarker_fields", "dynamic_length_fields", "env_data_descs", "env_datas",
            "muxs"]
PRIO_ORDER = ["PROTOCOL", "FUNCTIONAL_GROUP", "BASE_VARIANT", "ECU_VARIANT", "ECU_SHARED_DATA"]


def check(prog: Program, run: Run) -> None:
    run.rule("C09.R1", "merge decision table of _compute_available_objects (priority order, "
             "exclusion per parent reference, keep/replace/conflict, locals last)", floor=8)
    run.rule("C09.R2", "every inherited category is wired consistently: local getter, exclusion "
             "list, result slot and public property name the same category", floor=20)
    run.rule("C09.R3", "layer-type priorities are strictly increasing PROTOCOL < FUNCTIONAL-GROUP "
             "< BASE-VARIANT < ECU-VARIANT < ECU-SHARED-DATA and cover every layer type", floor=5)
    run.rule("C09.R4", "the inheritance helpers never write to an object reached through a "
             "parent reference", floor=1)
    run.rule("C09.G1", "literal attribute names used by the helpers exist", floor=2)
    run.rule("C09.R5", "the NOT-INHERITED lists of a parent reference are parsed from the elements "
             "they are written to: each list from its own element path (shared with C11.R7)",
             floor=5)
    _merge(prog, run)
    _wiring(prog, run)
    from ..jinjamodel import TemplateModel
    from . import tagpaths
    tagpaths.check(prog, TemplateModel(prog.repo), run, "C09.R5", only=lambda c: c == "ParentRef")
    run.rule("C09.R6", "what a layer defines LOCALLY is read from its raw layer, never from a "
             "computed (already merged) view: a second refresh() would otherwise treat inherited "
             "objects as local ones", floor=6)
    _local_getters(prog, run)
    _priorities(prog, run)
    _parents_untouched(prog, run)
    common.g1_literal_attrs(prog, run, "C09.G1", ["odxtools/diaglayers/hierarchyelement.py",
                                                  "odxtools/diaglayers/diaglayer.py"])


def _merge(prog: Program, run: Run) -> None:
    R = "C09.R1"
    f = prog.func("HierarchyElement._compute_available_objects")
    fn = f.node
    cfg = CFG(fn)
    C = "HierarchyElement._compute_available_objects"
    get_local, get_excl = f.params()[1], f.params()[2]
    loops = [x for x in walk_no_nested(fn) if isinstance(x, ast.For)]
    def resolve_iter(e: ast.AST, depth: int = 0) -> ast.AST:
        """Strip list()/tuple() wrappers and follow single-definition locals."""
        if depth > 4:
            return e
        if isinstance(e, ast.Call) and isinstance(e.func, ast.Name) and e.func.id in (
                "list", "tuple", "iter") and len(e.args) == 1:
            return resolve_iter(e.args[0], depth + 1)
        if isinstance(e, ast.Name):
            defs = [x.value for x in walk_no_nested(fn) if isinstance(x, ast.Assign) and
                    len(x.targets) == 1 and isinstance(x.targets[0], ast.Name) and
                    x.targets[0].id == e.id]
            if len(defs) == 1:
                return resolve_iter(defs[0], depth + 1)
        return e
    ploops = [l for l in loops if isinstance(resolve_iter(l.iter), ast.Call) and call_name(
        resolve_iter(l.iter)) == "_get_parent_refs_sorted_by_priority"]
    if len(ploops) != 1:
        raise AnalysisError("_compute_available_objects: parent loop not found")
    pl = ploops[0]
    pref = ast.unparse(pl.target)
    pit = resolve_iter(pl.iter)
    # (a) descending priority
    if common.parents_descending(prog, pit) is True:
        run.ok(R, C, "parents are visited by descending priority (reverse=True)",
               f"{f.module.rel}:{pl.lineno}")
    else:
        run.violation(R, C, "parents-ascending",
                      "the parents are not visited from the highest to the lowest priority: a "
                      "clash between two equal-priority parents is reported as an error although "
                      "a higher-priority parent settles it", f"{f.module.rel}:{pl.lineno}",
                      stmt_key(pl))
    s = prog.func("HierarchyElement._get_parent_refs_sorted_by_priority")
    rets = [r for r in walk_no_nested(s.node) if isinstance(r, ast.Return)]
    ok_sort = False
    if len(rets) == 1 and isinstance(rets[0].value, ast.Call) and call_name(rets[0].value) == \
            "sorted":
        c = rets[0].value
        kws = {k.arg: k.value for k in c.keywords}
        key = ast.unparse(kws["key"]) if "key" in kws else ""
        rev = ast.unparse(kws["reverse"]) if "reverse" in kws else ""
        src = ast.unparse(c.args[0]) if c.args else ""
        ok_key = "layer.variant_type.inheritance_priority" in key and "-" not in key
        ok_rev = True  # the effective direction is evaluated per call site (parents_descending)
        ok_src = src in ("getattr(self.diag_layer_raw, 'parent_refs', [])",
                         "self.diag_layer_raw.parent_refs",
                         "getattr(self.hierarchy_element_raw, 'parent_refs', [])",
                         "self.hierarchy_element_raw.parent_refs")
        if not ok_src:
            run.violation(R, "HierarchyElement._get_parent_refs_sorted_by_priority",
                          "parent-refs-source",
                          f"the parent references are taken from `{src}`, not from the raw layer "
                          "(`self.diag_layer_raw.parent_refs`): layer classes without such an "
                          "attribute (PROTOCOL) silently get no parents",
                          f"{s.module.rel}:{rets[0].lineno}", stmt_key(rets[0]))
        if not ok_key or not ok_rev:
            run.violation(R, "HierarchyElement._get_parent_refs_sorted_by_priority", "sort-key",
                          "the parent references are not sorted by "
                          "layer.variant_type.inheritance_priority in the requested direction",
                          f"{s.module.rel}:{rets[0].lineno}", stmt_key(rets[0]))
        ok_sort = ok_key and ok_rev and ok_src
    else:
        raise AnalysisError("_get_parent_refs_sorted_by_priority: not a single `return sorted(…)`")
    if ok_sort:
        run.ok(R, "HierarchyElement._get_parent_refs_sorted_by_priority",
               "sorted(raw parent_refs, key=priority of the parent's layer type, reverse=arg)",
               s.loc)
    # (b) exclusion set from the *current* parent reference, inside the loop
    excl = None
    for x in ast.walk(pl):
        if isinstance(x, ast.Assign) and isinstance(x.targets[0], ast.Name) and any(
                isinstance(c, ast.Call) and isinstance(c.func, ast.Name) and c.func.id == get_excl
                for c in ast.walk(x.value)):
            excl = x
    if excl is None:
        outside = [x for x in walk_no_nested(fn) if isinstance(x, (ast.Assign, ast.AugAssign)) and
                   any(isinstance(c, ast.Call) and isinstance(c.func, ast.Name) and
                       c.func.id == get_excl for c in ast.walk(x))]
        run.violation(R, C, "exclusion-not-per-parent",
                      "the NOT-INHERITED names are not computed from the parent reference "
                      "currently being merged (inside the parent loop): an exclusion on one "
                      "parent reference hides the object from every parent",
                      f"{f.module.rel}:{(outside[0].lineno if outside else pl.lineno)}",
                      stmt_key(outside[0]) if outside else "")
        return
    call = [c for c in ast.walk(excl.value) if isinstance(c, ast.Call) and isinstance(
        c.func, ast.Name) and c.func.id == get_excl][0]
    if [ast.unparse(a) for a in call.args] == [pref]:
        run.ok(R, C, "NOT-INHERITED names are those of the parent reference being merged",
               f"{f.module.rel}:{excl.lineno}")
    else:
        run.violation(R, C, "exclusion-other-ref",
                      f"`{stmt_key(excl)}` does not use the current parent reference `{pref}`",
                      f"{f.module.rel}:{excl.lineno}", stmt_key(excl))
    exn = excl.targets[0].id
    # the filter over the parent's recursive view
    pdl = None
    for x in ast.walk(pl):
        if isinstance(x, ast.Assign) and ast.unparse(x.value) == f"{pref}.layer" and isinstance(
                x.targets[0], ast.Name):
            pdl = x.targets[0].id
    pdl_e = pdl or f"{pref}.layer"
    comp = None
    for x in ast.walk(pl):
        if isinstance(x, (ast.ListComp, ast.GeneratorExp)) and any(
                isinstance(c, ast.Call) and call_name(c) == "_compute_available_objects"
                for c in ast.walk(x)):
            comp = x
    if comp is None:
        run.violation(R, C, "no-recursive-view",
                      "inherited objects are not taken from the parent's own (recursive) view "
                      "_compute_available_objects(...)", f"{f.module.rel}:{pl.lineno}")
    else:
        rc = [c for c in ast.walk(comp) if isinstance(c, ast.Call) and call_name(c) ==
              "_compute_available_objects"][0]
        recv = ast.unparse(rc.func.value)  # type: ignore[attr-defined]
        args = [ast.unparse(a) for a in rc.args]
        if recv in (pdl_e, f"{pref}.layer") and args == [get_local, get_excl]:
            run.ok(R, C, "inherited objects come from the parent's recursive view with the same "
                   "getters", f"{f.module.rel}:{comp.lineno}")
        else:
            run.violation(R, C, "recursive-view-args",
                          f"`{ast.unparse(rc)}` is not `{pdl_e}._compute_available_objects("
                          f"{get_local}, {get_excl})`", f"{f.module.rel}:{comp.lineno}")
        gen = comp.generators[0]
        tests = [norm_test(t) for t in gen.ifs]
        elt = ast.unparse(gen.target)
        want = norm_test(ast.parse(f"{elt}.short_name not in {exn}", mode="eval").body)
        if want in tests:
            run.ok(R, C, "objects named in NOT-INHERITED are filtered out of the parent's view",
                   f"{f.module.rel}:{comp.lineno}")
        else:
            run.violation(R, C, "exclusion-filter",
                          f"the parent's objects are not filtered by `{elt}.short_name not in "
                          f"{exn}` (filters: {tests})", f"{f.module.rel}:{comp.lineno}",
                          ast.unparse(comp))
    # (c) clash table in the inner loop
    inner = [l for l in loops if l is not pl and any(z is l for z in ast.walk(pl))]
    if len(inner) != 1:
        raise AnalysisError("_compute_available_objects: expected one loop over inherited objects")
    il = inner[0]
    obj = ast.unparse(il.target)
    rd = None
    for x in walk_no_nested(fn):
        if isinstance(x, (ast.Assign, ast.AnnAssign)) and isinstance(
                x.value, ast.Dict) and not x.value.keys:
            t = x.targets[0] if isinstance(x, ast.Assign) else x.target
            if isinstance(t, ast.Name):
                rd = t.id
    if rd is None:
        raise AnalysisError("_compute_available_objects: result dictionary not found")
    # the names the layer defines locally
    ln = None
    for x in walk_no_nested(fn):
        if isinstance(x, ast.Assign) and isinstance(x.targets[0], ast.Name) and isinstance(
                x.value, (ast.SetComp, ast.Call)) and "short_name" in ast.unparse(x.value) and \
                not any(z is x for z in ast.walk(pl)):
            ln = x.targets[0].id
    # One iteration of the inner loop as a decision table: every combination of
    # (name known?, priority ordering, locally overridden?, objects equal?) is evaluated on the
    # symbolic paths of the loop body; the outcome is what the path does to the result
    # dictionary (replace / keep) or whether it reports the conflict.
    paths = symbolic_block_paths(il.body)
    prio_new = {f"{pdl_e}.variant_type.inheritance_priority",
                f"{pref}.layer.variant_type.inheritance_priority"}
    prio_orig = {f"{rd}[{obj}.short_name][1].variant_type.inheritance_priority"}
    for x in walk_no_nested(fn):
        if isinstance(x, ast.Assign) and isinstance(x.targets[0], ast.Name):
            src = ast.unparse(x.value)
            if src in prio_new:
                prio_new = prio_new | {x.targets[0].id}
            elif src in prio_orig:
                prio_orig = prio_orig | {x.targets[0].id}
    replace_txt = f"{rd}[{obj}.short_name] = ({obj}, {pdl_e})"
    replace_alt = f"{rd}[{obj}.short_name] = ({obj}, {pref}.layer)"

    def outcome(p) -> str:
        res = "keep"
        for st in p.trace:
            txt = ast.unparse(st)
            if isinstance(st, ast.Raise) or (isinstance(st, ast.Expr) and isinstance(
                    st.value, ast.Call) and call_name(st.value) == "odxraise"):
                return "error"
            if isinstance(st, (ast.Assign, ast.AugAssign)) and txt.startswith(f"{rd}["):
                res = "replace" if txt in (replace_txt, replace_alt) else "other:" + txt[:70]
            elif isinstance(st, ast.Delete) and f"{rd}[" in txt:
                res = "other:" + txt[:70]
        return res

    def outcomes(known: bool, rel: str, local: bool, equal: bool) -> Set[str]:
        env: Dict[str, object] = {f"{obj}.short_name in {rd}": known,
                                  f"{obj} == {rd}[{obj}.short_name][0]": equal}
        if ln:
            env[f"{obj}.short_name in {ln}"] = local
        for k in prio_new:
            env[k] = {"lt": 1, "eq": 2, "gt": 3}[rel]
        for k in prio_orig:
            env[k] = 2
        got = set()
        for p in paths:
            ok = True
            for t, pol in p.conds:
                v = eval_test(t, env)
                if v is not None and v != pol:
                    ok = False
                    break
            if ok:
                got.add(outcome(p))
        return got or {"error"}  # no path reaches the end of the iteration: it raises
    classes = [
        ("first-insertion", "an inherited object with a so far unknown name is added",
         "replace", [(False, r_, l_, e_) for r_ in ("lt", "eq", "gt") for l_ in (False, True)
                     for e_ in (False, True)]),
        ("clash-new<orig", "name clash, the new parent has the lower priority: the existing "
         "object is kept", "keep",
         [(True, "lt", l_, e_) for l_ in (False, True) for e_ in (False, True)]),
        ("clash-new>orig", "name clash, the new parent has the higher priority: the object is "
         "replaced", "replace",
         [(True, "gt", l_, e_) for l_ in (False, True) for e_ in (False, True)]),
        ("local-override-settles", "equal priority: a local definition settles the clash",
         "keep", [(True, "eq", True, e_) for e_ in (False, True)]),
        ("equal-objects", "equal priority: identical objects are no conflict", "keep",
         [(True, "eq", False, True)]),
        ("no-conflict-error", "an unsettled clash between unequal objects of equal priority is "
         "reported as an error", "error", [(True, "eq", False, False)]),
    ]
    for aspect, text, want, scen in classes:
        wrong = []
        for sc in scen:
            got = outcomes(*sc)
            if got != {want}:
                wrong.append((sc, sorted(got)))
        if not wrong:
            run.ok(R, C, f"{text} ({len(scen)} scenario(s) of the decision table)",
                   f"{f.module.rel}:{il.lineno}")
        else:
            sc, got = wrong[0]
            run.violation(R, C, aspect,
                          f"expected `{want}` ({text}); for (name known={sc[0]}, new priority "
                          f"{ {'lt': '<', 'eq': '==', 'gt': '>'}[sc[1]]} existing, locally "
                          f"overridden={sc[2]}, objects equal={sc[3]}) one iteration of the merge "
                          f"loop does {got}", f"{f.module.rel}:{il.lineno}")
    # (d) locals written after the parent loop
    lw = [x for x in walk_no_nested(fn) if isinstance(x, ast.For) and x is not pl and not any(
        z is x for z in ast.walk(pl)) and any(
            isinstance(s, ast.Assign) and ast.unparse(s.targets[0]).startswith(f"{rd}[")
            for s in x.body)]
    if lw and cfg.node_of(pl) not in cfg.reachable(cfg.node_of(lw[0])) and cfg.dominates(
            cfg.node_of(pl), cfg.node_of(lw[0])):
        w = [s for s in lw[0].body if isinstance(s, ast.Assign)][0]
        if ast.unparse(w.value).endswith(", self)") and ast.unparse(lw[0].iter) in (
                "local_objects", f"{get_local}(self)"):
            run.ok(R, C, "local objects are written after all parents (local overrides inherited)",
                   f"{f.module.rel}:{lw[0].lineno}")
        else:
            run.violation(R, C, "locals-written",
                          f"`{stmt_key(w)}` does not enter the layer's own objects",
                          f"{f.module.rel}:{w.lineno}")
    else:
        run.violation(R, C, "locals-not-last",
                      "the locally defined objects are not entered after the parents have been "
                      "merged: an inherited object may override a local one",
                      f"{f.module.rel}:{pl.lineno}")
    # the result is the dictionary's objects
    rets = [r for r in walk_no_nested(fn) if isinstance(r, ast.Return)]
    if len(rets) == 1 and f"{rd}.values()" in ast.unparse(rets[0].value):
        run.ok(R, C, "returns the merged objects", f"{f.module.rel}:{rets[0].lineno}")
    else:
        run.violation(R, C, "return", "does not return the merged objects", f.loc)


def _local_getters(prog: Program, run: Run) -> None:
    R = "C09.R6"
    getters: List[Tuple[str, ast.AST, object]] = []
    for cname in ("DiagLayer", "HierarchyElement"):
        ci = prog.cls(cname)
        for m in ci.methods.values():
            if m.name.startswith("_get_local_"):
                getters.append((m.qual, m.node, m))
            if m.name.startswith("_compute_available_"):
                for x in ast.walk(m.node):
                    if isinstance(x, (ast.FunctionDef, ast.Lambda)) and x is not m.node and (
                            isinstance(x, ast.Lambda) or "local" in x.name):
                        getters.append((f"{m.qual}.<local getter>", x, m))
    if len(getters) < 6:
        raise AnalysisError(f"only {len(getters)} local getters found")
    for qual, node, m in getters:
        a = node.args
        ps = [x.arg for x in a.posonlyargs + a.args]
        if not ps:
            continue
        root = ps[0]
        bad = []
        for x in ast.walk(node):
            if isinstance(x, ast.Attribute) and isinstance(x.value, ast.Name) and \
                    x.value.id == root and not (x.attr.endswith("_raw") or
                                                x.attr.startswith("_get_local_")):
                bad.append(x)
        # a raw-layer field that still holds unresolved references (a Union with OdxLinkRef,
        # e.g. DIAG-COMMS = inline objects + DIAG-COMM-REFs) is not the list of local objects:
        # whatever the layer names by reference would be dropped, for it and for its children
        mixed = {n for n, a, _c in prog.all_fields(prog.cls("DiagLayerRaw"))
                 if a is not None and "OdxLinkRef" in ast.unparse(a) and "Union" in ast.unparse(a)}
        unresolved = [x for x in ast.walk(node) if isinstance(x, ast.Attribute) and
                      x.attr in mixed and isinstance(x.value, ast.Attribute) and
                      x.value.attr == "diag_layer_raw"]
        if unresolved and not any(isinstance(x, ast.Call) and call_name(x) in (
                "resolve", "resolve_lenient") for x in ast.walk(node)):
            run.violation(R, qual, f"reads-unresolved-{unresolved[0].attr}",
                          f"`{ast.unparse(unresolved[0])}` mixes inline objects with unresolved "
                          "references; the objects a layer includes by reference (DIAG-COMM-REF) "
                          "are local objects too and would neither be available in the layer "
                          "nor inherited / overriding in its children",
                          f"{m.module.rel}:{unresolved[0].lineno}", ast.unparse(unresolved[0]))
            continue
        if bad:
            run.violation(R, qual, f"reads-computed-view-{bad[0].attr}",
                          f"`{ast.unparse(bad[0])}` is the layer's computed view (local + "
                          "inherited objects after the last refresh); the locally defined "
                          f"objects are in `{root}.diag_layer_raw`: after a second refresh() "
                          "objects inherited earlier are kept as if they were local",
                          f"{m.module.rel}:{bad[0].lineno}", ast.unparse(bad[0]))
        else:
            run.ok(R, qual, "reads the raw layer only", f"{m.module.rel}:{node.lineno}")


def _lambda_attr(e: ast.AST) -> Optional[str]:
    if isinstance(e, ast.Lambda) and isinstance(e.body, ast.Attribute) and isinstance(
            e.body.value, ast.Name) and e.body.value.id == e.args.args[0].arg:
        return e.body.attr
    return None


def _wiring(prog: Program, run: Run) -> None:
    R = "C09.R2"
    f = prog.func("HierarchyElement._finalize_init")
    # var = self._compute_available_ddd_spec_items(lambda d: d.<cat>, lambda p: p.<excl>)
    var_cat: Dict[str, Tuple[str, str, int]] = {}
    for x in walk_no_nested(f.node):
        if isinstance(x, ast.Assign) and isinstance(x.value, ast.Call) and call_name(
                x.value) == "_compute_available_ddd_spec_items" and isinstance(
                    x.targets[0], ast.Name):
            args = list(x.value.args) + [k.value for k in x.value.keywords]
            if len(args) != 2:
                raise AnalysisError("_compute_available_ddd_spec_items call shape")
            cat, ex = _lambda_attr(args[0]), _lambda_attr(args[1])
            if cat is None or ex is None:
                raise AnalysisError("ddd-spec getters are not simple lambdas")
            var_cat[x.targets[0].id] = (cat, ex, x.lineno)
    ctor = [x for x in walk_no_nested(f.node) if isinstance(x, ast.Call) and call_name(x) ==
            "DiagDataDictionarySpec"]
    if len(ctor) != 1:
        raise AnalysisError("_finalize_init: DiagDataDictionarySpec(...) not found")
    kws = {k.arg: ast.unparse(k.value) for k in ctor[0].keywords}
    ddds = prog.cls("DiagDataDictionarySpec")
    fields = [n for n, a, _c in prog.all_fields(ddds)]
    for cat in DOP_CATS + ["tables"]:
        if cat not in fields:
            raise AnalysisError(f"DiagDataDictionarySpec has no field {cat}")
        v = kws.get(cat)
        where = f"{f.module.rel}:{ctor[0].lineno}"
        if v is None or v not in var_cat:
            run.violation(R, "HierarchyElement._finalize_init", f"category-{cat}-not-inherited",
                          f"DiagDataDictionarySpec({cat}=…) is not filled from "
                          "_compute_available_ddd_spec_items: the category is not subject to "
                          "value inheritance", where)
            continue
        got_cat, got_ex, ln = var_cat[v]
        want_ex = "not_inherited_tables" if cat == "tables" else "not_inherited_dops"
        if got_cat != cat:
            run.violation(R, "HierarchyElement._finalize_init", f"category-{cat}-source",
                          f"`{cat}` of the layer's view is computed from the parents' and the "
                          f"layer's `{got_cat}`", f"{f.module.rel}:{ln}")
        elif got_ex != want_ex:
            run.violation(R, "HierarchyElement._finalize_init", f"category-{cat}-exclusion",
                          f"`{cat}` is filtered by `{got_ex}` instead of `{want_ex}`",
                          f"{f.module.rel}:{ln}")
        else:
            run.ok(R, "_finalize_init", f"{cat}: local getter, exclusion list ({want_ex}) and "
                   "result slot agree", f"{f.module.rel}:{ln}")
    # unit groups
    if "unit_groups" in ast.unparse(f.node) and "_compute_available_unit_groups" in ast.unparse(
            f.node):
        ug = [x for x in walk_no_nested(f.node) if isinstance(x, ast.Call) and call_name(x) ==
              "UnitSpec"]
        if ug and all(any(k.arg == "unit_groups" and "unit_groups" in ast.unparse(k.value)
                          for k in u.keywords) for u in ug):
            run.ok(R, "_finalize_init", "unit groups: inherited list stored in the new UnitSpec",
                   f.loc)
        else:
            run.violation(R, "HierarchyElement._finalize_init", "unit-groups",
                          "the inherited unit groups are not stored in the layer's UnitSpec", f.loc)
    # the non-DDDS categories
    table = {
        # helper -> (local source fragment, exclusion attr or None, private attr, property names)
        "_compute_available_diag_comms": ("_get_local_diag_comms", "not_inherited_diag_comms",
                                          "_diag_comms", ["diag_comms"]),
        "_compute_available_global_neg_responses": (
            "diag_layer_raw.global_negative_responses", "not_inherited_global_neg_responses",
            "_global_negative_responses", ["global_negative_responses"]),
        "_compute_available_functional_classes": ("diag_layer_raw.functional_classes", None,
                                                  "_functional_classes", ["functional_classes"]),
        "_compute_available_additional_audiences": ("diag_layer_raw.additional_audiences", None,
                                                    "_additional_audiences",
                                                    ["additional_audiences"]),
        "_compute_available_state_charts": ("diag_layer_raw.state_charts", None, "_state_charts",
                                            ["state_charts"]),
        "_compute_available_unit_groups": ("_get_local_unit_groups", None, None, []),
    }
    vi = prog.func("HierarchyElement._compute_value_inheritance")
    he = prog.cls("HierarchyElement")
    for helper, (src, ex, priv, props) in table.items():
        h = he.methods.get(helper)
        if h is None:
            run.violation(R, f"HierarchyElement.{helper}", "missing",
                          f"{helper} is gone: the category is no longer inherited", he.loc)
            continue
        inner = {x.name: x for x in h.node.body if isinstance(x, ast.FunctionDef)}
        txt_local = " ".join(ast.unparse(r.value) for fn in inner.values()
                             for r in ast.walk(fn) if isinstance(r, ast.Return) and r.value)
        call = [c for c in walk_no_nested(h.node) if isinstance(c, ast.Call) and call_name(c) ==
                "_compute_available_objects"]
        okh = True
        # the two function arguments may be nested functions, module-level functions or lambdas

        def fn_of(a: ast.AST):
            if isinstance(a, ast.Lambda):
                return ast.FunctionDef(name="<lambda>", args=a.args,
                                       body=[ast.Return(value=a.body)], decorator_list=[])
            if isinstance(a, ast.Name):
                if a.id in inner:
                    return inner[a.id]
                g_ = prog.module_func(h.module, a.id)
                if g_ is not None:
                    return g_.node
            return None
        if not call or len(call[0].args) != 2 or any(fn_of(a) is None for a in call[0].args):
            raise AnalysisError(f"{helper}: shape not recognised")
        lfn, xfn = fn_of(call[0].args[0]), fn_of(call[0].args[1])
        lret = " ".join(ast.unparse(r.value) for r in ast.walk(lfn) if isinstance(r, ast.Return)
                        and r.value)
        xret = [ast.unparse(r.value) for r in ast.walk(xfn) if isinstance(r, ast.Return) and
                r.value]
        if src not in lret:
            okh = False
            run.violation(R, f"HierarchyElement.{helper}", "local-source",
                          f"the local objects are `{lret}`, expected `…{src}`", h.loc)
        want_x = [f"{xfn.args.args[0].arg}.{ex}"] if ex else ["[]"]
        if xret != want_x:
            okh = False
            run.violation(R, f"HierarchyElement.{helper}", "exclusion-list",
                          f"the NOT-INHERITED list is `{xret}`, expected `{want_x[0]}`", h.loc)
        if okh:
            run.ok(R, f"HierarchyElement.{helper}", f"local source `{src}` with exclusion "
                   f"`{ex or 'none'}`", h.loc)
        if priv:
            # self.<priv> = NamedItemList(<var>) with var = self.<helper>(...)
            vname = None
            for x in walk_no_nested(vi.node):
                if isinstance(x, ast.Assign) and isinstance(x.value, ast.Call) and call_name(
                        x.value) == helper and isinstance(x.targets[0], ast.Name):
                    vname = x.targets[0].id
            stores = [x for x in walk_no_nested(vi.node) if isinstance(x, ast.Assign) and
                      ast.unparse(x.targets[0]) == f"self.{priv}"]
            if vname and stores and any(vname in {n.id for n in ast.walk(s.value)
                                                  if isinstance(n, ast.Name)} for s in stores):
                run.ok(R, "_compute_value_inheritance", f"self.{priv} holds the result of "
                       f"{helper}", vi.loc)
            else:
                run.violation(R, "HierarchyElement._compute_value_inheritance", f"slot-{priv}",
                              f"self.{priv} is not assigned the result of {helper}", vi.loc)
        for p in props:
            m = he.methods.get(p)
            if m is None or [ast.unparse(r.value) for r in walk_no_nested(m.node) if isinstance(
                    r, ast.Return)] != [f"self.{priv}"]:
                run.violation(R, f"HierarchyElement.{p}", "property",
                              f"the public property {p} does not return self.{priv}", he.loc)
            else:
                run.ok(R, f"HierarchyElement.{p}", f"returns self.{priv}", m.loc)
    # services / single_ecu_jobs are filtered views of the inherited diag comms
    txt = ast.unparse(vi.node)
    for priv, cls, props in (("_diag_services", "DiagService", ["services", "diag_services"]),
                             ("_single_ecu_jobs", "SingleEcuJob", ["single_ecu_jobs"])):
        stores = [x for x in walk_no_nested(vi.node) if isinstance(x, ast.Assign) and ast.unparse(
            x.targets[0]) == f"self.{priv}"]
        src_ok = False
        for s in stores:
            names = {n.id for n in ast.walk(s.value) if isinstance(n, ast.Name)}
            for x in walk_no_nested(vi.node):
                if isinstance(x, ast.Assign) and isinstance(x.targets[0], ast.Name) and \
                        x.targets[0].id in names and f"isinstance(dc, {cls})" in ast.unparse(
                            x.value) and "diag_comms" in ast.unparse(x.value):
                    src_ok = True
        if src_ok:
            run.ok(R, "_compute_value_inheritance", f"self.{priv} = inherited diag comms that are "
                   f"{cls}", vi.loc)
        else:
            run.violation(R, "HierarchyElement._compute_value_inheritance", f"slot-{priv}",
                          f"self.{priv} is not the {cls} subset of the inherited diag comms",
                          vi.loc)
        for p in props:
            m = he.methods.get(p)
            if m is None or [ast.unparse(r.value) for r in walk_no_nested(m.node) if isinstance(
                    r, ast.Return)] != [f"self.{priv}"]:
                run.violation(R, f"HierarchyElement.{p}", "property",
                              f"the public property {p} does not return self.{priv}", he.loc)
            else:
                run.ok(R, f"HierarchyElement.{p}", f"returns self.{priv}", m.loc)
    m = he.methods.get("diag_data_dictionary_spec")
    if m is not None and [ast.unparse(r.value) for r in walk_no_nested(m.node) if isinstance(
            r, ast.Return)] == ["self._diag_data_dictionary_spec"] and any(
                isinstance(x, ast.Assign) and ast.unparse(x.targets[0]) ==
                "self._diag_data_dictionary_spec" and x.value is ctor[0]
                for x in walk_no_nested(f.node)):
        run.ok(R, "HierarchyElement.diag_data_dictionary_spec", "returns the merged spec", m.loc)
    else:
        run.violation(R, "HierarchyElement.diag_data_dictionary_spec", "property",
                      "the public diag_data_dictionary_spec is not the merged one", he.loc)
    # DiagLayer (no parents) falls back to the local objects only
    d = prog.func("DiagLayer._compute_available_objects")
    rets = [ast.unparse(r.value) for r in walk_no_nested(d.node) if isinstance(r, ast.Return)]
    if rets == [f"{d.params()[1]}(self)"]:
        run.ok(R, "DiagLayer._compute_available_objects", "layers without parents see exactly "
               "their local objects", d.loc)
    else:
        run.violation(R, "DiagLayer._compute_available_objects", "base-case",
                      "a layer without parents does not see exactly its local objects", d.loc)


def _priorities(prog: Program, run: Run) -> None:
    R = "C09.R3"
    f = prog.func("DiagLayerType.inheritance_priority")
    d = [x for x in walk_no_nested(f.node) if isinstance(x, ast.Dict)]
    if len(d) != 1:
        raise AnalysisError("inheritance_priority: priority table not found")
    tab: Dict[str, int] = {}
    for k, v in zip(d[0].keys, d[0].values):
        ch = attr_chain(k)
        cv = const_value(v)
        if not ch or not isinstance(cv, int):
            raise AnalysisError("inheritance_priority: non-literal table")
        tab[ch[-1]] = cv
    members = set(prog.cls("DiagLayerType").enum_members)
    for m in sorted(members):
        if m not in tab:
            run.violation(R, "DiagLayerType.inheritance_priority", f"missing-{m}",
                          f"layer type {m} has no priority (KeyError at load time)", f.loc)
    for a, b in zip(PRIO_ORDER, PRIO_ORDER[1:]):
        if a in tab and b in tab:
            if tab[a] < tab[b]:
                run.ok(R, "DiagLayerType.inheritance_priority", f"{a} ({tab[a]}) < {b} ({tab[b]})",
                       f.loc)
            else:
                run.violation(R, "DiagLayerType.inheritance_priority", f"order-{a}-{b}",
                              f"priority of {a} ({tab[a]}) is not below that of {b} ({tab[b]})",
                              f.loc)
    rets = [ast.unparse(r.value) for r in walk_no_nested(f.node) if isinstance(r, ast.Return)]
    if len(rets) == 1 and rets[0].endswith("[self]"):
        run.ok(R, "DiagLayerType.inheritance_priority", "returns the table entry of the layer "
               "type", f.loc)
    else:
        run.violation(R, "DiagLayerType.inheritance_priority", "lookup",
                      "the priority is not the table entry of the layer type itself", f.loc)


def _parents_untouched(prog: Program, run: Run) -> None:
    R = "C09.R4"
    he = prog.cls("HierarchyElement")
    n = 0
    bad = False
    for name, m in he.methods.items():
        if not (name.startswith("_compute_available") or name in ("_finalize_init",
                                                                  "_compute_value_inheritance")):
            continue
        n += 1
        # names bound to parent layers / refs
        pnames: Set[str] = set()
        for x in walk_no_nested(m.node):
            if isinstance(x, ast.For) and "parent_ref" in ast.unparse(x.iter).lower() or (
                    isinstance(x, ast.For) and "_get_parent_refs" in ast.unparse(x.iter)):
                for t in ast.walk(x.target):
                    if isinstance(t, ast.Name):
                        pnames.add(t.id)
        for x in walk_no_nested(m.node):
            if isinstance(x, ast.Assign) and isinstance(x.targets[0], ast.Name) and any(
                    isinstance(y, ast.Name) and y.id in pnames for y in ast.walk(x.value)) and \
                    isinstance(x.value, ast.Attribute):
                pnames.add(x.targets[0].id)
        for x in walk_no_nested(m.node):
            tg: List[ast.AST] = []
            if isinstance(x, ast.Assign):
                tg = list(x.targets)
            elif isinstance(x, (ast.AugAssign, ast.AnnAssign)):
                tg = [x.target]
            elif isinstance(x, ast.Delete):
                tg = list(x.targets)
            for t in tg:
                base = t
                while isinstance(base, (ast.Attribute, ast.Subscript)):
                    base = base.value
                if isinstance(base, ast.Name) and base.id in pnames and not isinstance(
                        t, ast.Name):
                    bad = True
                    run.violation(R, f"HierarchyElement.{name}", "writes-parent",
                                  f"`{stmt_key(x)}` modifies an object of a parent layer: the "
                                  "parent's own view is altered by its child",
                                  f"{m.module.rel}:{x.lineno}", stmt_key(x))
            if isinstance(x, ast.Call) and isinstance(x.func, ast.Attribute) and x.func.attr in (
                    "append", "extend", "remove", "pop", "clear", "insert", "update", "sort",
                    "setdefault", "__setattr__"):
                base = x.func.value
                while isinstance(base, (ast.Attribute, ast.Subscript)):
                    base = base.value
                if isinstance(base, ast.Name) and base.id in pnames:
                    bad = True
                    run.violation(R, f"HierarchyElement.{name}", "mutates-parent",
                                  f"`{ast.unparse(x)}` mutates a collection of a parent layer",
                                  f"{m.module.rel}:{x.lineno}")
    if not bad:
        run.ok(R, "HierarchyElement", f"{n} inheritance helpers never assign to, delete from or "
               "mutate an object reached through a parent reference", he.loc)
